#!/usr/bin/env python3
"""Consistency of known_findings.json with /repo: every fixed entry names a commit that exists and carries its
'fixed:' record line; every 'fix:' commit in /repo is recorded; open entries carry a tag, what and witness."""
import json, os, subprocess, sys
root = os.path.dirname(os.path.dirname(os.path.abspath(__file__)))
d = json.load(open(os.path.join(root, "known_findings.json")))
L = d if isinstance(d, list) else d["findings"]
log = subprocess.check_output(["git", "-C", "/repo", "log", "--format=%h %s"]).decode().splitlines()
shas = {l.split()[0] for l in log}
bad, used = [], set()
for e in L:
    if e["status"] == "fixed":
        c = e.get("commit"); used.add(c)
        if c not in shas: bad.append(f"fixed entry names unknown commit {c}: {e['property']}")
        if not e.get("record", "").startswith(f"fixed: property={e['property']} {c} "): bad.append(f"record line malformed: {e['property']} {c}")
    elif e["status"] == "open":
        if not (e.get("tag") and e.get("what") and e.get("witness")): bad.append(f"open entry incomplete: {e['property']} {e.get('tag')}")
    else:
        bad.append(f"unknown status {e['status']}")
for l in log:
    h, _, s = l.partition(" ")
    if s.startswith("fix:") and h not in used: bad.append(f"fix commit not recorded: {l}")
    elif not s.startswith("fix:") and s != "snapshot": bad.append(f"/repo commit that is neither a fix nor the snapshot: {l}")
if os.path.isdir(os.path.join(root, "known_findings.d")) and [f for f in os.listdir(os.path.join(root, "known_findings.d")) if f.endswith(".json")]:
    bad.append("known_findings.d is not empty")
print("\n".join(bad) if bad else f"known_findings.json consistent: {sum(e['status']=='open' for e in L)} open, {sum(e['status']=='fixed' for e in L)} fixed, {len(used)} fix commits")
sys.exit(1 if bad else 0)
