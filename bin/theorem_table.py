#!/usr/bin/env python3
"""Print a markdown table: per property, theorem counts (full / _partial / _refuted) from coq/props."""
import os, re
root = os.path.join(os.path.dirname(os.path.dirname(os.path.abspath(__file__))), "coq", "props")
print("| id | theorems | full | `_partial` | `_refuted` | partial / refuted names |")
print("|---|---|---|---|---|---|")
for f in sorted(os.listdir(root)):
    if not f.endswith(".v"):
        continue
    names = re.findall(r"^Print Assumptions (\w+)\.", open(os.path.join(root, f)).read(), re.M)
    part = [n for n in names if "_partial" in n]
    ref = [n for n in names if "_refuted" in n]
    full = len(names) - len(part) - len(ref)
    short = ", ".join(n.split("_", 1)[1] for n in part + ref)
    print(f"| {f[:-2]} | {len(names)} | {full} | {len(part)} | {len(ref)} | {short} |")
