#!/usr/bin/env python3
"""Regenerates the generated tables of DESIGN.md in place (between the BEGIN/END markers):
   10.3a theorem status (bin/theorem_table.py) and the seeded-trial table of 10.5 (bin/seeded_table.py)."""
import os, re, subprocess, json, glob
root = os.path.dirname(os.path.dirname(os.path.abspath(__file__)))
p = os.path.join(root, "DESIGN.md")
s = open(p).read()
def gen(script): return subprocess.check_output(["python3", os.path.join(root, "bin", script)]).decode().rstrip("\n")
def put(s, tag, body):
    b, e = f"<!-- {tag}-BEGIN -->", f"<!-- {tag}-END -->"
    assert b in s and e in s, tag
    i, j = s.index(b) + len(b), s.index(e)
    return s[:i] + "\n" + body + "\n" + s[j:]
s = put(s, "THEOREM-TABLE", gen("theorem_table.py"))
metas = [json.load(open(m)) for m in sorted(glob.glob(os.path.join(root, "seeded/C*/meta.json")))]
n = len(metas); conf = sum(1 for m in metas if m.get("confirmed"))
caught = sum(1 for m in metas if any(c.endswith("VIOLATION") for c in m.get("checks_run", [])))
noinput = sum(1 for m in metas if any(c.endswith("NOINPUT") for c in m.get("checks_run", [])) and not any(c.endswith("VIOLATION") for c in m.get("checks_run", [])))
missed_first = sum(1 for m in metas if m.get("history") or m.get("strengthened"))
rej = len(glob.glob(os.path.join(root, "seeded/_rejected/*/meta.json")))
summary = (f"{n} seeded changes kept ({conf} confirmed by `bin/seedtest`: patch applies, pinned tests pass, demo fails with / passes "
           f"without), {rej} rejected as not breaking the property as stated (`seeded/_rejected/`).  {caught} are reported as "
           f"`VIOLATION` with a failing input by a quick check now ({noinput} more only as `no-failing-input-found`); {missed_first} of them were missed (or missed by the property's own check) on their "
           f"first run and led to a strengthened generator, oracle or model (column *strengthened*).")
s = put(s, "SEEDED-TABLE", summary + "\n\n" + gen("seeded_table.py"))
open(p, "w").write(s)
print(summary)
