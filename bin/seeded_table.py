#!/usr/bin/env python3
"""Prints the DESIGN.md table of seeded-change trials from seeded/*/meta.json."""
import glob, json, os, re
root = os.path.dirname(os.path.dirname(os.path.abspath(__file__)))
print("| id | change (one line) | confirmed | caught by (quick) | first run | strengthened |")
print("|---|---|---|---|---|---|")
def fmt(cs):
    hit = [c.split(":")[0] + (" (no failing input)" if c.endswith("NOINPUT") else "") for c in cs if "VIOLATION" in c]
    miss = [c.split(":")[0] for c in cs if "VIOLATION" not in c]
    return ", ".join(hit) if hit else "—", miss
for p in sorted(glob.glob(os.path.join(root, "seeded/*/meta.json"))):
    m = json.load(open(p)); sid = p.split("/")[-2]
    s = re.sub(r"\s+", " ", (m.get("summary") or m.get("description") or ""))
    s = s[:150].replace("|", "\\|")
    hit, miss = fmt(m.get("checks_run", []))
    first = fmt(m["first_checks_run"])[0] if m.get("first_checks_run") else ("missed" if m.get("history") else "same")
    own = sid.split("-")[0]
    notmiss = (" (not: " + ", ".join(miss) + ")") if miss and hit != "—" else ""
    h = m.get("history")
    if isinstance(h, list):
        h = " / ".join(x if isinstance(x, str) else json.dumps(x) for x in h)
    elif h is not None and not isinstance(h, str):
        h = json.dumps(h)
    hist = ("yes — " + re.sub(r"\s+", " ", h)[:260].replace("|", "/")) if h else ""
    print("| %s | %s | %s | %s%s | %s | %s |" % (sid, s, "yes" if m.get("confirmed") else "NO", hit, notmiss, first, hist))
