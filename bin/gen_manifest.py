#!/usr/bin/env python3
"""Regenerate MANIFEST.json from harness/manifest_data.py"""
import json, os, sys
sys.path.insert(0, os.path.dirname(os.path.dirname(os.path.abspath(__file__))))
from harness.manifest_data import CHECKS, NOT_APPLICABLE
man = {
 "version": 1,
 "setup_cmd": "bin/setup",
 "hooks": {
  "guard": "SIGNAC_VERIF",
  "enable": "export SIGNAC_VERIF=1 (set by bin/check); no source hooks exist: the harness interposes on os/builtins.open from outside the package",
  "baseline_off_cmd": "cd /repo && /venv/bin/python -m pytest -ra -q -p no:cacheprovider --timeout=900 --continue-on-collection-errors",
  "source_commits": [],
  "add_only": True
 },
 "engines": [{"name": "rocq-model+correspondence", "path": "/verif/coq", "serves_properties": [c["property_id"] for c in CHECKS],
              "kind_free_text": "Coq 8.16.1 models and theorems (coq/theories, coq/props) tied to /repo by a differential correspondence check (harness/*.py -> generated shard_*.v evaluated with vm_compute)"}],
 "checks": [],
 "notes": "See DESIGN.md. Every check: full .vo build of the Coq development, static audit (no Admitted/Axiom/...), re-check of props/Cxx.v with Print Assumptions, then model-vs-implementation correspondence on generated cases with the oracle evaluated inside Coq.",
 "not_applicable": NOT_APPLICABLE,
}
for c in CHECKS:
    pid = c["property_id"]
    man["checks"].append({
        "property_id": pid,
        "quick_cmd": f"bin/check {pid} quick",
        "thorough_cmd": f"bin/check {pid} thorough",
        "evidence_file": f"/verif/evidence/{pid}.json",
        "replay_cmd_template": f"bin/check {pid} --replay {{path}}",
        "engine": "rocq-model+correspondence",
        "level_claimed": {"category": "proof", "text": c["text"], "design_ref": c.get("design_ref", "DESIGN.md §5 " + pid)},
        "level_note": c["note"],
        "technique": c.get("technique", "machine-checked proof in Rocq/Coq 8.16.1 about a hand-written executable model + checked model/implementation correspondence (vm_compute)"),
    })
json.dump(man, open(os.path.join(os.path.dirname(os.path.dirname(os.path.abspath(__file__))), "MANIFEST.json"), "w"), indent=1)
print("checks:", [c["property_id"] for c in CHECKS], "n/a:", [n["property_id"] for n in NOT_APPLICABLE])
