"""C18 — schema detection and job diffs are exact summaries of the state points."""
import json
import os

from . import querygen as qg
from .common import Case, coq_bool, coq_json, coq_list, coq_str, exn_name, scratch_dir, typed, untyped

PROP = "C18"
IMPORTS = "Base Json PyVal Query Schema CorrC18"
CASE_TYPE = "case_C18"
MISMATCHES = "mismatches_C18"
VIOLATIONS = "violations_C18"
KNOWN = "known_C18"
SHARD = 200
RULE = ("real projects of 0-8 jobs over heterogeneous, nested, mixed-type state point universes (int vs equal float vs "
        "bool under one key, -1/-1.0, lists, None, keys present in only some jobs, a key that is scalar in one job and "
        "a mapping in another, empty mappings); per project: detect_schema for exclude_const in {False, True} x subset "
        "in {None, random subsets given as jobs or ids}, and diff_jobs on all jobs / pairs / singletons / repeated "
        "jobs. non-trivial: >= 2 jobs selected and the summary is non-empty; distinct by (job set, call)")
TRUSTED = ["CPython dict-slot identity of index keys as in PyVal.v (ints |x|<2^53)",
           "set iteration order of the subset is replayed by the harness (same PYTHONHASHSEED) and handed to the model"]
ASSUMPTIONS = ["ints |x| < 2^53, finite floats", "dicts nested inside list values hold scalars only"]


def rand_sp18(rng):
    sp = qg.rand_sp(rng)
    if rng.random() < 0.08:
        sp[rng.choice(["a", "b", "e"])] = {}
    if rng.random() < 0.25:
        sp["k"] = rng.choice([1, 1.0, True, -1, -1.0, 2, "x", None, [1, 2], [1.0, 2]])
    return sp


# keys that are string prefixes of one another without being nested ('opt' / 'opt_level'), digit-string keys
# (list index look-alikes), and a deep parent with several leaves
RICH_KEYS = ["opt", "opt_level", "o", "0", "1", "m", "disp", "", "n"]
RICH_SCALARS = [0, 1, 2, 1.0, 0.5, True, False, None, "x", "y", "0", 128, 64]


def rich_value(rng, depth):
    r = rng.random()
    if depth >= 4 or r < 0.45:
        return rng.choice(RICH_SCALARS)
    if r < 0.6:
        return [rng.choice([64, 32, 128, 1, 1.0, "x"]) for _ in range(rng.randint(0, 3))]
    if r < 0.7:
        return {}
    keys = rng.sample(["0", "1", "lr", "beta", "o", "opt", "sp", "x", ""], rng.randint(1, 3))
    return {k: rich_value(rng, depth + 1) for k in keys}


def rich_sp(rng, shape):
    """state points that share a SHAPE (so that diffs/schemas have common deep parents) with varying leaves"""
    def fill(t, depth=0):
        if isinstance(t, dict):
            out = {}
            for k, v in t.items():
                if rng.random() < 0.9:
                    out[k] = fill(v, depth + 1)
            return out
        if rng.random() < 0.75:
            return rng.choice(RICH_SCALARS) if t is None else t if rng.random() < 0.5 else rng.choice(RICH_SCALARS)
        return rich_value(rng, depth)
    return fill(shape)


def rich_shape(rng):
    shape = {}
    for k in rng.sample(RICH_KEYS, rng.randint(1, 4)):
        shape[k] = rich_value(rng, 1) if rng.random() < 0.6 else None
    if rng.random() < 0.6:
        shape["m"] = {"o": {"lr": None, "beta": None, "g": {"p": None, "q": None}}, "n": None}
    return shape


def gen_inputs(tier, rng):
    n = 110 if tier == "quick" else 2500
    descs = []
    for i in range(n):
        jobs, seen = [], set()
        shape = rich_shape(rng) if i % 2 == 1 else None
        for _ in range(rng.randint(0, 8)):
            if shape is not None:
                sp = rich_sp(rng, shape)
                key = json.dumps(typed(sp), sort_keys=True)
                if key not in seen:
                    seen.add(key)
                    jobs.append(typed(sp))
                continue
            sp = rand_sp18(rng)
            if i % 3 == 0 and rng.random() < 0.6:
                sp["a"] = rng.choice([True, 1, 1.0, False, 0, 0.0, -1, -1.0, -2, -2.0])
            key = json.dumps(typed(sp), sort_keys=True)
            if key not in seen:
                seen.add(key)
                jobs.append(typed(sp))
        descs.append({"jobs": jobs, "pseed": rng.randint(0, 10 ** 9)})
    # pinned witnesses
    descs.append({"jobs": [typed({"a": True}), typed({"a": 1})], "pseed": 1})
    descs.append({"jobs": [typed({"a": -1}), typed({"a": -1.0})], "pseed": 2})
    descs.append({"jobs": [typed({"a": {}}), typed({"a": 1})], "pseed": 3})
    descs.append({"jobs": [typed({"a": {"x": "x"}}), typed({"a": {}})], "pseed": 4})
    descs.append({"jobs": [typed({"a": {}, "b": 1}), typed({"a": {}, "b": 2})], "pseed": 5})
    descs.append({"jobs": [typed({"opt": {}, "opt_level": 1}), typed({"opt": {}, "opt_level": 2})], "pseed": 7})
    descs.append({"jobs": [typed({"layers": [64, 32]}), typed({"layers": {"0": 128}}), typed({"layers": {"0": 64, "1": 32}})], "pseed": 8})
    descs.append({"jobs": [typed({"m": {"o": {"lr": 1, "beta": 2}, "n": 0}}), typed({"m": {"o": {"lr": 3, "beta": 4}, "n": 0}})], "pseed": 9})
    descs.append({"jobs": [typed({"disp": {"x": 1}, "dix": 5}), typed({"disp": {"x": 2}, "n": {"sp": {"k": 1}}, "dix": 5})], "pseed": 10})
    descs.append({"jobs": [typed({"": {"x": 1}, "x": 2}), typed({"": {"x": 3}, "x": 2})], "pseed": 11})
    descs.append({"jobs": [typed({"a": {"c": {}}}), typed({"a": {"c": {"x": 1}}}), typed({"a": {"c": {}}, "b": 0})], "pseed": 6})
    return descs


def flat_schema(schema):
    out = {}
    for key in schema:
        vals = []
        for t, vs in schema[key].items():
            for v in vs:
                assert type(v) is t, (v, t)
                vals.append(v)
        out[key] = vals
    return out


def coq_jobs(pairs):
    return coq_list(["(%s, %s)" % (coq_str(i), coq_json(sp)) for i, sp in pairs], "(str * json)")


def run_case(desc):
    import random

    rng = random.Random(desc["pseed"])
    sps = [untyped(j) for j in desc["jobs"]]
    with scratch_dir("c18") as d:
        project = qg.build_project(d, [{"sp": sp, "doc": None} for sp in sps])
        cases = observe(project, rng, desc, "")
        # phase 2: a change that keeps the number of jobs (in-place edit, or remove one job and add another), then the
        # same calls on the SAME Project object
        jobs = list(project)
        if jobs:
            victim = rng.choice(jobs)
            if rng.random() < 0.5:
                victim.sp["zz_new"] = rng.choice([1, "x", [1, 2], {"p": 1}])
            else:
                sp_new = dict(victim.sp(), zz_swapped=rng.choice([0, 1.0, "y"]))
                victim.remove()
                project.open_job(sp_new).init()
            cases += observe(project, rng, desc, "phase2")
    return cases


def observe(project, rng, desc, phase):
    import signac

    cases = []
    if True:
        recs = qg.listing(project)
        by_id = {r["id"]: r["sp"] for r in recs}
        ids = [r["id"] for r in recs]
        # ---- schema cases
        subsets = [None]
        for _ in range(2 if ids else 0):
            k = rng.randint(0, len(ids))
            sub = rng.sample(ids, k)
            subsets.append(sub)
        for sub in subsets:
            for excl in (False, True):
                if sub is None:
                    order = ids
                    arg = None
                else:
                    as_jobs = rng.random() < 0.5
                    arg = [project.open_job(id=i) for i in sub] if as_jobs else list(sub)
                    index_keys = dict.fromkeys(ids)
                    order = list({str(s) for s in arg}.intersection(index_keys.keys()))
                try:
                    schema = project.detect_schema(exclude_const=excl, subset=arg)
                    flat = flat_schema(schema)
                    obs = "(ObsSchema %s)" % coq_list(
                        ["(%s, %s)" % (coq_str(k), coq_list([coq_json(qg_plain(v)) for v in vs], "json")) for k, vs in flat.items()],
                        "(str * list json)")
                    obs_desc = {k: [typed(qg_plain(v)) for v in vs] for k, vs in flat.items()}
                    nontriv = len(order) >= 2 and bool(flat)
                except Exception as e:  # noqa
                    obs = f"(ObsExn18 {exn_name(e)})"
                    obs_desc = exn_name(e)
                    nontriv = True
                pairs = [(i, by_id[i]) for i in order]
                coq = "{| c18_jobs := %s; c18_excl := %s; c18_schema_case := true; c18_obs := %s |}" % (
                    coq_jobs(pairs), coq_bool(excl), obs)
                cases.append(Case(coq, {"jobs": [typed(by_id[i]) for i in order], "call": "detect_schema",
                                        "exclude_const": excl, "subset": sub is not None, "pseed": desc["pseed"]},
                                  obs=obs_desc, nontrivial=nontriv,
                                  key=json.dumps([sorted(order), excl, "schema", phase]), kinds=["schema", "n=%d" % len(order)] + ([phase] if phase else [])))
        # ---- diff cases
        selections = [ids]
        if len(ids) >= 2:
            selections.append(rng.sample(ids, 2))
            selections.append(rng.sample(ids, rng.randint(1, len(ids))))
            selections.append([ids[0], ids[0], ids[-1]])
        if ids:
            selections.append([ids[0]])
        for sel in selections:
            jobs = [project.open_job(id=i) for i in sel]
            try:
                res = signac.diff_jobs(*jobs)
                obs = "(ObsDiff %s)" % coq_list(["(%s, %s)" % (coq_str(i), coq_json(qg_plain(v))) for i, v in res.items()], "(str * json)")
                obs_desc = {i: typed(qg_plain(v)) for i, v in res.items()}
                nontriv = len(set(sel)) >= 2 and any(res.values())
            except Exception as e:  # noqa
                obs = f"(ObsExn18 {exn_name(e)})"
                obs_desc = exn_name(e)
                nontriv = True
            # the model receives each distinct job once, in first-occurrence order (dict keyed by job)
            seen, pairs = set(), []
            for i in sel:
                if i not in seen:
                    seen.add(i)
                    pairs.append((i, by_id[i]))
            coq = "{| c18_jobs := %s; c18_excl := false; c18_schema_case := false; c18_obs := %s |}" % (coq_jobs(pairs), obs)
            cases.append(Case(coq, {"jobs": [typed(by_id[i]) for i in sel], "call": "diff_jobs", "pseed": desc["pseed"]},
                              obs=obs_desc, nontrivial=nontriv, key=json.dumps([sel, "diff", phase]),
                              kinds=["diff", "n=%d" % len(pairs)] + ([phase] if phase else [])))
    return cases


def qg_plain(v):
    """tuples -> lists, dict subclasses -> dict"""
    if isinstance(v, (list, tuple)):
        return [qg_plain(x) for x in v]
    if isinstance(v, dict):
        return {k: qg_plain(x) for k, x in v.items()}
    return v
