"""C09 — state point corruption is always detected, never accepted, and repairable."""
import gzip
import hashlib
import json
import logging
import math
import os
import re

from .common import Case, coq_ftab, coq_json, coq_list, coq_str, exn_name, scratch_dir, to_plain, typed, untyped

PROP = "C09"
IMPORTS = "Base Json MD5 Canon FS Ws Cache Repair CorrC09"
CASE_TYPE = "case_C09"
MISMATCHES = "mismatches_C09"
VIOLATIONS = "violations_C09"
KNOWN = "known_C09"
SHARD = 60
RULE = ("real projects of 1-4 jobs drawn from 13 state point shapes (nested, floats, unicode, null, empty containers, the "
        "EMPTY state point {} and other falsy-looking ones: {a:0}, {a:null}, {a:{}}, {a:[]}), "
        "each job with a document and data files; damage to up to 3 jobs: truncation of the state point file at a byte "
        "offset (every offset in thorough, every 3rd in quick), single-byte substitution at an offset (every / every "
        "5th) x class {digit, letter, quote, brace, space, 0x00, 0x80}, deletion, replacement by other JSON (another "
        "job's file, 1, [], {}, null, ints as floats, reordered keys, leading space), also ACROSS jobs (one job receives "
        "the state point of another job that is itself deleted/truncated/replaced/renamed), renaming of the directory to "
        "another id (random, id of an absent shape, md5('null'), the freed id of another renamed job: chains and cycles, the id "
        "of a removed but still cached job); replacement also by non-mappings ([1, 2], 5, \"s\", true) and by texts nested 2000 "
        "levels deep (RecursionError in json); with no / full / partial persistent cache "
        "(update_cache before the damage), optionally update_cache() by a fresh session AFTER the damage; jobs with a document and "
        "data files or BARE (nothing but the state point file).  Observed: check() ids, open_job(id=i).statepoint() in fresh sessions, "
        "the state point asked for three times through one by-id handle, repair() called without ids or with the listed ids "
        "spelled as list / tuple / generator / iterator / map object / dict keys view / set, "
        "repair() outcome, byte snapshot of the whole workspace before/after, check() after, open by id through the "
        "repairing session.  non-trivial: at least one job is damaged (canonical hash of the decoded value differs "
        "from the directory name, or undecodable/missing); distinct by (jobs, cache mode, damage list)")
TRUSTED = [
    "json.loads on damaged bytes is an oracle table per case (Section variables loads_s / loads_b): the harness records "
    "what bytes.decode()+json.loads and json.loads(bytes) did with every state point file text before and after repair",
    "float.__repr__ oracle table (frepr) for floats of decoded values",
    "os.listdir order is passed to the model (repair() iterates in that order)",
]
ASSUMPTIONS = ["decoded values are finite (a damaged text decoding to NaN/Infinity is skipped)",
               "the persistent cache file itself is intact",
               "single process, no I/O faults during repair"]
EXHAUSTIVE = {"quick": False, "thorough": True}

SHAPES = [
    {"a": 1},
    {"a": 1.5, "b": "x"},
    {"n": {"m": [1, 2.0, "é"]}, "k": None},
    {"s": "日本", "t": True},
    {"a": 0, "b": {"c": {"d": -3}}},
    {"f": 1e-07, "g": [[], {}]},
    {"a": 1.0},
    {"zz": [10, 20], "y": "q\"uote"},
    # falsy-looking shapes: the empty state point and values that are falsy in Python
    {},
    {"a": 0},
    {"a": None},
    {"a": {}},
    {"a": []},
]
SPF = "signac_statepoint.json"
DOCF = "signac_job_document.json"
CACHE = os.path.join(".signac", "statepoint_cache.json.gz")
_HEX = re.compile(r"^[0-9a-f]{32}")
NULL_ID = hashlib.md5(b"null").hexdigest()
CLASSES = ["digit", "letter", "quote", "brace", "space", "nul", "hi"]
REPLACEMENTS = ["other", "1", "[]", "{}", "null", "float", "reorder", "space", "[1, 2]", "5", "\"s\"", "true"]
DEEP = {"deeplist": b"[" * 2000 + b"]" * 2000, "deepobj": b'{"a":' * 2000 + b"1" + b"}" * 2000}   # RecursionError in json
RENAMES = ["rand", "shape", "null"]
# how the ids are handed to repair(): not at all (job_ids=None) or as the listed ids in one of the spellings of an
# iterable[str] - repair() must treat them alike (one-shot iterators included)
SPELLINGS = ["list", "tuple", "gen", "iter", "map", "keys", "set"]


def spell_ids(how, listing):
    """(argument for repair(), the order in which it yields the ids)"""
    if how == "list":
        return list(listing), list(listing)
    if how == "tuple":
        return tuple(listing), list(listing)
    if how == "gen":
        return (i for i in listing), list(listing)
    if how == "iter":
        return iter(list(listing)), list(listing)
    if how == "map":
        return map(str, listing), list(listing)
    if how == "keys":
        return dict.fromkeys(listing).keys(), list(listing)
    if how == "set":
        x = set(listing)
        return x, list(x)
    raise ValueError(how)


def text_of(shape):
    return json.dumps(SHAPES[shape]).encode()


# ---------------------------------------------------------------- generation
def _single_sweep(stride_t, stride_s):
    out = []
    for s in range(len(SHAPES)):
        n = len(text_of(s))
        other = (s + 1) % len(SHAPES)
        for cache in ("none", "full"):
            dmg = [["trunc", o] for o in range(0, n, stride_t)]
            dmg += [["subst", o, cls, (o + k) % 7] for o in range(s % stride_s, n, stride_s) for k, cls in enumerate(CLASSES)]
            dmg += [["delete"]]
            dmg += [["replace", r] for r in REPLACEMENTS]
            dmg += [["rename", r, s] for r in RENAMES]
            for d in dmg:
                out.append({"jobs": [s, other], "cache": cache, "damage": [[0] + d]})
            # the cache is (re)built AFTER the damage: a fresh session calls update_cache() between the damage and every
            # observation (seeded C09-11).  Without an earlier cache the damaged job is read from the workspace by that
            # call; with cache 'partial:1' job 0 is already cached and only job 1 is read
            if cache == "none":
                for ucache in ("none", "partial:1"):
                    und = [x for k, x in enumerate(dmg) if x[0] == "subst" and x[2] in ("digit", "letter", "quote") and k % 2 == 0]
                    und += [["trunc", 1], ["trunc", n - 1], ["delete"]]
                    und += [x for x in dmg if x[0] in ("replace", "rename")]
                    for d in und:
                        out.append({"jobs": [s, other], "cache": ucache, "upd": True, "damage": [[0] + d]})
            # the ids handed to repair() explicitly, in every spelling of an iterable (seeded C09-13: a one-shot iterator)
            for k, how in enumerate(SPELLINGS):
                ds = [["delete"], ["trunc", 1], ["replace", "other"], ["rename", "rand", s]]
                for d in ([ds[0], ds[1 + (k + s) % 3]] if how in ("gen", "iter", "map") else [ds[(k + s) % 4]]):
                    out.append({"jobs": [s, other], "cache": cache, "spell": how, "damage": [[k % 2] + d]})
            # BARE jobs: a job that owns nothing but its state point file (no document, no data file) is a job like any
            # other (seeded C09-12: after the deletion of the file its directory is empty)
            for d in (["delete"], ["trunc", 1], ["replace", "[]"], ["replace", "other"], ["rename", "rand", s], ["subst", 1, "letter", s]):
                out.append({"jobs": [s, other], "cache": cache, "bare": [0], "damage": [[0] + d]})
            out.append({"jobs": [s, other], "cache": cache, "bare": [0, 1], "damage": [[0, "delete"], [1, "delete"]]})
            out.append({"jobs": [s, other], "cache": cache, "bare": [1], "upd": True, "damage": [[0, "delete"], [1, "delete"]]})
            # chained renames (known finding 1): job 1 is renamed away, job 0 takes its name — then job 1's true id is
            # occupied by another misnamed directory; three different free names vary the listing order; and a cycle
            for k in (s, s + 100, s + 200):
                out.append({"jobs": [s, other], "cache": cache, "damage": [[1, "rename", "rand", k], [0, "rename", "job:1"]]})
            out.append({"jobs": [s, other], "cache": cache,
                        "damage": [[0, "rename", "rand", s + 300], [1, "rename", "job:0"], [0, "rename", "job:1"]]})
            # a directory renamed to the id of a job that was removed but is still cached (known finding 2)
            if cache == "full":
                out.append({"jobs": [s, other], "cache": cache, "ghost": (s + 2) % len(SHAPES),
                            "damage": [[0, "rename", "ghost", 0]]})
            # damage ACROSS jobs: job 1 gets job 0's state point while job 0's own file is deleted / truncated /
            # replaced / its directory renamed away (seeded C09-9: the rename target exists without a state point file)
            for first in (["delete"], ["trunc", 1], ["replace", "job:1"], ["replace", "[]"], ["rename", "rand", s]):
                out.append({"jobs": [s, other], "cache": cache, "damage": [[0] + first, [1, "replace", "job:0"]]})
    return out


def _rand_damage(rng, shape):
    n = len(text_of(shape))
    r = rng.random()
    if r < 0.25:
        return ["trunc", rng.randrange(n)]
    if r < 0.5:
        return ["subst", rng.randrange(n), rng.choice(CLASSES), rng.randrange(7)]
    if r < 0.6:
        return ["delete"]
    if r < 0.8:
        return ["replace", rng.choice(REPLACEMENTS)]
    return ["rename", rng.choice(RENAMES + ["job:%d" % rng.randrange(4)]), rng.randrange(1000)]


def _rand_multi(rng):
    k = rng.randint(1, 4)
    jobs = rng.sample(range(len(SHAPES)), k)
    cache = rng.choice(["none", "full", "full", "partial:%d" % rng.randint(0, k)])
    nd = rng.randint(1, min(3, k))
    victims = rng.sample(range(k), nd)
    damage = [[v] + _rand_damage(rng, jobs[v]) for v in victims]
    if k >= 2 and rng.random() < 0.3:
        # one job's replacement value is another (possibly damaged) job's true state point
        a, b = rng.sample(range(k), 2)
        damage.append([b, "replace", "job:%d" % a])
        damage = damage[-3:]
    desc = {"jobs": jobs, "cache": cache, "damage": damage}
    bare = [x for x in range(k) if rng.random() < 0.25]
    if bare:
        desc["bare"] = bare
    if rng.random() < 0.3:
        desc["upd"] = True
    if rng.random() < 0.4:
        desc["spell"] = rng.choice(SPELLINGS)
    if cache == "full" and rng.random() < 0.15:
        rest = [x for x in range(len(SHAPES)) if x not in jobs]
        desc["ghost"] = rng.choice(rest)
        desc["damage"] = damage[:2] + [[rng.randrange(k), "rename", "ghost", 0]]
    return desc


DIRECTED = [
    # nested beyond the recursion limit: undecodable, reported, repaired from the cache (fix: 178057f)
    {"jobs": [0, 1], "cache": "none", "damage": [[0, "replace", "deeplist"]]},
    {"jobs": [0, 1], "cache": "full", "damage": [[0, "replace", "deeplist"]]},
    {"jobs": [2, 8], "cache": "none", "damage": [[0, "replace", "deepobj"], [1, "rename", "rand", 21]]},
    {"jobs": [2, 8], "cache": "full", "damage": [[1, "replace", "deepobj"]]},
    {"jobs": [4, 5, 6], "cache": "partial:1", "damage": [[0, "replace", "deepobj"], [1, "replace", "deeplist"], [2, "rename", "rand", 22]]},
    # valid JSON that is not a mapping: reported, the directory stays where it is (fix: 353a4b6)
    {"jobs": [0, 1], "cache": "none", "damage": [[0, "replace", "[1, 2]"]]},
    {"jobs": [0, 1], "cache": "none", "damage": [[0, "replace", "null"], [1, "replace", "5"]]},
    {"jobs": [3, 4, 5], "cache": "partial:1", "damage": [[1, "replace", "\"s\""], [2, "replace", "true"], [0, "replace", "1"]]},
    # the candidate defects (a) and (c) of round 3, now open known findings 1 and 2
    {"jobs": [0, 1], "cache": "none", "damage": [[1, "rename", "rand", 1], [0, "rename", "job:1"]]},
    {"jobs": [0, 1, 2], "cache": "none", "damage": [[2, "rename", "rand", 2], [1, "rename", "job:2"], [0, "rename", "job:1"]]},
    {"jobs": [0, 1], "cache": "full", "ghost": 2, "damage": [[0, "rename", "ghost", 0]]},
    {"jobs": [1, 3], "cache": "full", "ghost": 9, "damage": [[1, "rename", "ghost", 0], [0, "trunc", 4]]},
    # the cached EMPTY state point {} (falsy in Python) must be repaired from the cache like any other (seeded C09-5)
    {"jobs": [8, 0], "cache": "full", "damage": [[0, "delete"]]},
    {"jobs": [8, 0], "cache": "full", "damage": [[0, "trunc", 1]]},
    {"jobs": [8, 0], "cache": "full", "damage": [[0, "replace", "other"]]},
    {"jobs": [8, 1, 9], "cache": "full", "damage": [[0, "replace", "[]"], [2, "replace", "other"]]},
    {"jobs": [0, 8], "cache": "partial:2", "damage": [[1, "replace", "1"]]},
    {"jobs": [8], "cache": "full", "damage": [[0, "rename", "rand", 11]]},
    # a directory named md5("null") without a state point file (load() accepted None before ae33aa8)
    {"jobs": [0, 1], "cache": "none", "damage": [[0, "rename", "null", 0], [0, "delete"]]},
    {"jobs": [0], "cache": "none", "damage": [[0, "rename", "null", 0], [0, "delete"]]},
    # repair used to abort at the first job it cannot look up (before bdc03b3)
    {"jobs": [0, 1, 2, 3], "cache": "none", "damage": [[0, "trunc", 3], [1, "rename", "rand", 1], [2, "rename", "rand", 2]]},
    {"jobs": [0, 1, 2, 3], "cache": "none", "damage": [[3, "delete"], [1, "rename", "rand", 3], [0, "rename", "rand", 4]]},
    {"jobs": [4, 5, 6], "cache": "partial:1", "damage": [[1, "trunc", 5], [0, "delete"], [2, "rename", "rand", 5]]},
    {"jobs": [4, 5, 6], "cache": "none", "damage": [[1, "replace", "null"], [0, "rename", "rand", 6], [2, "rename", "rand", 7]]},
    # update_cache() after the damage, job not cached before: the damaged value must not reach the cache file
    {"jobs": [0, 1, 2], "cache": "partial:2", "upd": True, "damage": [[2, "subst", 7, "digit", 3]]},
    {"jobs": [0, 1], "cache": "none", "upd": True, "damage": [[0, "replace", "other"]]},
    {"jobs": [0, 1], "cache": "none", "upd": True, "damage": [[0, "replace", "reorder"], [1, "replace", "space"]]},
    {"jobs": [4, 5, 6], "cache": "partial:1", "upd": True, "damage": [[1, "rename", "rand", 8], [0, "delete"]]},
    # repair(job_ids=<one-shot iterator>) in a fresh session with a persistent cache: every id must be looked at
    {"jobs": [0, 1, 2], "cache": "full", "spell": "gen", "damage": [[0, "delete"], [1, "trunc", 2], [2, "replace", "other"]]},
    {"jobs": [0, 1, 2], "cache": "full", "spell": "iter", "damage": [[2, "delete"]]},
    {"jobs": [3, 4], "cache": "partial:1", "spell": "map", "damage": [[0, "delete"], [1, "rename", "rand", 9]]},
    {"jobs": [5, 6, 7], "cache": "none", "spell": "set", "damage": [[1, "rename", "rand", 10], [0, "trunc", 3]]},
    # a job without document and data files loses its state point file: empty directory, still a damaged job
    {"jobs": [0, 1, 2], "cache": "full", "bare": [1], "damage": [[1, "delete"]]},
    {"jobs": [0, 1, 2], "cache": "none", "bare": [0, 1, 2], "damage": [[0, "delete"], [2, "delete"]]},
    # repair used to register an unvalidated state point under the wrong id (before 3837846)
    {"jobs": [0, 1], "cache": "none", "damage": [[0, "replace", "other"]]},
    {"jobs": [2, 3, 4], "cache": "partial:1", "damage": [[1, "replace", "other"], [2, "replace", "other"]]},
]


def gen_inputs(tier, rng):
    if tier == "quick":
        descs = list(DIRECTED) + _single_sweep(3, 5) + [_rand_multi(rng) for _ in range(350)]
    else:
        descs = list(DIRECTED) + _single_sweep(1, 1) + [_rand_multi(rng) for _ in range(6000)]
    return descs


# ---------------------------------------------------------------- the real signac
def _res(fn):
    try:
        return ["ok", fn()]
    except Exception as e:  # noqa: BLE001
        return ["exn", exn_name(e)]


def _ck(fn):
    from signac.errors import JobsCorruptedError
    try:
        fn()
        return ["ok"]
    except JobsCorruptedError as e:
        return ["corrupt", list(e.job_ids)]
    except Exception as e:  # noqa: BLE001
        return ["exn", exn_name(e)]


def snapshot(root):
    """[(components, 'dir'|'file', bytes)] of the workspace, plus the decoded cache file"""
    ws = os.path.join(root, "workspace")
    out = []
    for dirpath, dirnames, filenames in os.walk(ws):
        dirnames.sort()
        rel = os.path.relpath(dirpath, root).split(os.sep)
        for d in dirnames:
            out.append((rel + [d], "dir", b""))
        for f in sorted(filenames):
            with open(os.path.join(dirpath, f), "rb") as fh:
                out.append((rel + [f], "file", fh.read()))
    out.sort()
    cache = None
    fn = os.path.join(root, CACHE)
    if os.path.exists(fn):
        with gzip.open(fn, "rb") as fh:
            cache = json.loads(fh.read().decode())
    return out, cache


def substitute(cls, pick, old):
    table = {"digit": b"0123456789", "letter": b"aenuxE-", "quote": b"\"'\"'\"'\"", "brace": b"{}[]:,\\",
             "space": b" \n\t \r  ", "nul": b"\x00" * 7, "hi": b"\x80\xff\xc3\xe9\xa0\xfe\x80"}[cls]
    b = table[pick % len(table)]
    if b == old and cls in ("digit", "letter"):
        b = table[(pick + 1) % len(table)]
    return bytes([b])


def apply_damage(root, ids, jobs, dmg, dirs, ghost=None):
    """dirs: job index -> current directory name (renames update it)"""
    ws = os.path.join(root, "workspace")
    v = dmg[0]
    fn = os.path.join(ws, dirs[v], SPF)
    kind = dmg[1]
    if kind in ("trunc", "subst", "replace") and not os.path.exists(fn):
        return
    if kind == "trunc":
        data = open(fn, "rb").read()
        open(fn, "wb").write(data[:dmg[2] % max(1, len(data))])
    elif kind == "subst":
        data = open(fn, "rb").read()
        o = dmg[2] % max(1, len(data))
        if data:
            open(fn, "wb").write(data[:o] + substitute(dmg[3], dmg[4], data[o:o + 1]) + data[o + 1:])
    elif kind == "delete":
        if os.path.exists(fn):
            os.remove(fn)
    elif kind == "replace":
        what = dmg[2]
        sp = SHAPES[jobs[v]]
        if what.startswith("job:"):
            new = json.dumps(SHAPES[jobs[int(what[4:]) % len(jobs)]]).encode()
        elif what == "other":
            o = (v + 1) % len(jobs)
            new = json.dumps(SHAPES[jobs[o]]).encode() if len(jobs) > 1 else b'{"other": 0}'
        elif what == "float":
            def fl(x):
                if isinstance(x, bool) or x is None or isinstance(x, str):
                    return x
                if isinstance(x, int):
                    return float(x)
                if isinstance(x, float):
                    return int(x) if x == int(x) else x
                if isinstance(x, list):
                    return [fl(y) for y in x]
                return {k: fl(y) for k, y in x.items()}
            new = json.dumps(fl(sp)).encode()
        elif what == "reorder":
            new = json.dumps(dict(reversed(list(sp.items())))).encode()
        elif what == "space":
            new = b" " + json.dumps(sp).encode() + b"\n"
        elif what in DEEP:
            new = DEEP[what]
        else:
            new = what.encode()
        open(fn, "wb").write(new)
    elif kind == "rename":
        how = dmg[2]
        if how == "rand":
            t = hashlib.md5(b"rand-%d" % dmg[3]).hexdigest()
        elif how == "shape":
            absent = [s for s in range(len(SHAPES)) if s not in jobs]
            t = hashlib.md5(json.dumps(SHAPES[absent[dmg[3] % len(absent)]], sort_keys=True).encode()).hexdigest()
        elif how.startswith("job:"):
            t = ids[int(how[4:]) % len(ids)]
        elif how == "ghost":
            t = ghost or NULL_ID
        else:
            t = NULL_ID
        src = os.path.join(ws, dirs[v])
        dst = os.path.join(ws, t)
        if os.path.isdir(src) and not os.path.exists(dst):
            os.rename(src, dst)
            dirs[v] = t
    else:
        raise ValueError(dmg)


def decode_both(b):
    try:
        s = ["val", json.loads(b.decode())]
    except (ValueError, RecursionError):      # undecodable: ValueError (JSON / unicode) or nested too deeply
        s = ["none"]
    try:
        v = ["val", json.loads(b)]
    except json.JSONDecodeError:
        v = ["jsonerr"]
    except RecursionError:
        v = ["recerr"]
    except Exception:  # noqa: BLE001 (UnicodeDecodeError)
        v = ["othererr"]
    return s, v


def finite(v):
    if isinstance(v, float):
        return math.isfinite(v)
    if isinstance(v, list):
        return all(finite(x) for x in v)
    if isinstance(v, dict):
        return all(finite(x) for x in v.values())
    return True


def run_project(root, desc):
    import signac

    logging.disable(logging.CRITICAL)
    jobs = desc["jobs"]
    p = signac.init_project(path=root)
    ws = os.path.join(root, "workspace")
    cache = desc["cache"]
    upto = len(jobs) if cache == "full" else (int(cache.split(":")[1]) if cache.startswith("partial") else -1)
    ids = []
    for k, s in enumerate(jobs):
        if k == upto and cache != "full":
            signac.Project(root).update_cache()
        j = p.open_job(json.loads(json.dumps(SHAPES[s])))
        j.init()
        if k not in desc.get("bare", ()):
            j.document["x"] = k
            j.document["shape"] = {"n": s}
            with open(j.fn("data.txt"), "wb") as fh:
                fh.write(b"data of job %d\n" % k)
            if k % 2 == 0:
                os.makedirs(j.fn("sub"), exist_ok=True)
                with open(j.fn(os.path.join("sub", "blob.bin")), "wb") as fh:
                    fh.write(bytes([0, 255, k, 10, 13]))
        ids.append(j.id)
    ghost = None
    if desc.get("ghost") is not None:
        # a job that is cached and then removed: the cache stays a superset ("ghost" entry)
        g = p.open_job(json.loads(json.dumps(SHAPES[desc["ghost"]])))
        g.init()
        ghost = g.id
    if cache == "full" or upto == len(jobs):
        signac.Project(root).update_cache()
    if ghost:
        signac.Project(root).open_job(id=ghost).remove()
    dirs = dict(enumerate(ids))
    for dmg in desc["damage"]:
        apply_damage(root, ids, jobs, dmg, dirs, ghost)
    upd = None
    if desc.get("upd"):
        # the cache is (re)built AFTER the damage, by a fresh session
        _, cache0 = snapshot(root)
        upd = [cache0, _res(lambda: signac.Project(root).update_cache())]
    pre, cachefile = snapshot(root)
    listing = [d for d in os.listdir(ws) if _HEX.match(d)]
    check = _ck(lambda: signac.Project(root).check())
    to_open = sorted(set(ids) | set(listing))
    opens = [[i, _res(lambda i=i: typed(to_plain(signac.Project(root).open_job(id=i).statepoint())))] for i in to_open]
    # the same, but the state point is asked for several times through ONE handle (a retry, an error handler
    # printing job.sp): what a handle shows after it has reported the corruption once
    reopen = []
    for i in to_open:
        try:
            j = signac.Project(root).open_job(id=i)
        except Exception as e:  # noqa: BLE001
            reopen.append([i, [["exn", exn_name(e)]] * 3])
            continue
        reopen.append([i, [_res(lambda: typed(to_plain(j.statepoint()))), _res(lambda: typed(to_plain(j.sp()))),
                           _res(lambda: typed(to_plain(j.statepoint())))]])
    # the directory order repair() will see
    listing = [d for d in os.listdir(ws) if _HEX.match(d)]
    q = signac.Project(root)
    if desc.get("spell"):
        arg, listing = spell_ids(desc["spell"], listing)
        repair = _ck(lambda: q.repair(arg))
    else:
        repair = _ck(lambda: q.repair())
    post, _ = snapshot(root)
    check_after = _ck(lambda: signac.Project(root).check())
    listing_after = sorted(d for d in os.listdir(ws) if _HEX.match(d))
    opens_after = [[i, _res(lambda i=i: typed(to_plain(q.open_job(id=i).statepoint())))] for i in listing_after]
    return {"ids": ids, "truth": [[ids[k], dirs[k]] for k in range(len(ids))],
            "pre": pre, "cache": cachefile, "listing": listing, "check": check, "open": opens,
            "repair": repair, "post": post, "check_after": check_after, "open_after": opens_after,
            "reopen": reopen, "upd": upd}


# ---------------------------------------------------------------- Gallina
def idname(i):
    return "i_" + i


class Emit:
    def __init__(self):
        self.prelude = {}

    def name(self, n):
        if re.fullmatch(r"[0-9a-f]{32}", n):
            self.prelude[idname(n)] = f"Definition {idname(n)} : str := {coq_str(n)}."
            return idname(n)
        if n == SPF:
            return "SPF"
        if n == DOCF:
            return "DOCF"
        if n == "workspace":
            return "WS"
        return coq_str(n)

    def bytes(self, data):
        for nm, d in DEEP.items():
            if data == d:
                self.prelude["b_" + nm] = ("Definition b_%s : list N := %s." % (
                    nm, "repeat 91%N 2000 ++ repeat 93%N 2000" if nm == "deeplist" else
                    "concat (repeat [123%N; 34%N; 97%N; 34%N; 58%N] 2000) ++ [49%N] ++ repeat 125%N 2000"))
                return "b_" + nm
        return coq_str(data)

    def path(self, comps):
        return coq_list([self.name(c) for c in comps], "str")

    def ids(self, l):
        return coq_list([self.name(i) for i in l], "str")

    def tree(self, snap, cachefile):
        items = ["([DOTSIGNAC], Dir)", "([WS], Dir)"]
        if cachefile is not None:
            kvs = coq_list([f"({self.name(k)}, {coq_json(v)})" for k, v in cachefile.items()], "(str * json)")
            items.append(f"(CACHEP, File (mkContent (@nil N) (Some (JObj {kvs}))))")
        for comps, kind, data in snap:
            if kind == "dir":
                items.append(f"({self.path(comps)}, Dir)")
            else:
                items.append(f"({self.path(comps)}, File (mkContent {self.bytes(data)} None))")
        return coq_list(items, "(path * node)")

    def ck(self, r):
        if r[0] == "ok":
            return "CkOk"
        if r[0] == "corrupt":
            return f"(CkCorrupt {self.ids(r[1])})"
        return f"(CkExn {r[1]})"

    def cache(self, c):
        if c is None:
            return "None"
        return "(Some %s)" % coq_list([f"({self.name(k)}, {coq_json(v)})" for k, v in c.items()], "(str * json)")

    def res(self, r):
        return f"(Ok {coq_json(untyped(r[1]))})" if r[0] == "ok" else f"(Err {r[1]})"

    def reopens(self, l):
        return coq_list(["(%s, %s)" % (self.name(i), coq_list([self.res(r) for r in rs], "(result json)")) for i, rs in l],
                        "(str * list (result json))")

    def upd(self, u):
        if u is None:
            return "None"
        c0, r = u
        rr = f"(Err {r[1]})" if r[0] == "exn" else ("(Ok None)" if r[1] is None else f"(Ok (Some {int(r[1])}%N))")
        return f"(Some ({self.cache(c0)}, {rr}))"

    def opens(self, l):
        return coq_list(["(%s, %s)" % (self.name(i), f"(Ok {coq_json(untyped(r[1]))})" if r[0] == "ok" else f"(Err {r[1]})")
                         for i, r in l], "(str * result json)")


def run_case(desc):
    with scratch_dir("c09") as d:
        root = os.path.join(d, "p")
        os.makedirs(root)
        try:
            o = run_project(root, desc)
        except Exception as e:  # noqa: BLE001
            # the implementation could not even build / observe the project (e.g. init() no longer creates job
            # directories): report it as an observation that nothing can match, not as a harness crash
            o = {"ids": [], "truth": [], "pre": [], "cache": None, "listing": [], "check": ["exn", "EOther"], "open": [],
                 "repair": ["exn", "EOther"], "post": [], "check_after": ["exn", "EOther"], "open_after": [],
                 "reopen": [], "upd": None,
                 "harness_exception": repr(e)[:300]}
    E = Emit()
    texts = sorted({data for comps, kind, data in o["pre"] + o["post"] if kind == "file" and comps[-1] == SPF})
    table, values = [], [SHAPES[s] for s in desc["jobs"]]
    disagree = False
    for b in texts:
        s, v = decode_both(b)
        for r in (s, v):
            if r[0] == "val":
                if not finite(r[1]):
                    return []      # NaN / Infinity: outside the value model (stated assumption)
                values.append(r[1])
        if (s[0] == "val") != (v[0] == "val") or (s[0] == "val" and s[1] != v[1]):
            disagree = True
        cs = f"(Some {coq_json(s[1])})" if s[0] == "val" else "None"
        cv = (f"(DVal {coq_json(v[1])})" if v[0] == "val" else
              {"jsonerr": "DJsonErr", "recerr": "DRecErr", "othererr": "DOtherErr"}[v[0]])
        table.append(f"({E.bytes(b)}, ({cs}, {cv}))")
    if o["cache"]:
        values += list(o["cache"].values())
    if o["upd"] and o["upd"][0]:
        values += list(o["upd"][0].values())
    for _, r in o["open"] + o["open_after"] + [[i, r] for i, rs in o["reopen"] for r in rs]:
        if r[0] == "ok":
            values.append(untyped(r[1]))
    coq = ("{| c9_ftab := %s; c9_dec := %s; c9_fs := %s; c9_listing := %s; c9_truth := %s; c9_check := %s; c9_open := %s; "
           "c9_repair := %s; c9_after := %s; c9_check_after := %s; c9_open_after := %s; c9_reopen := %s; c9_upd := %s |}" % (
               coq_ftab(values), coq_list(table, "(list N * (option json * dec))"), E.tree(o["pre"], o["cache"]),
               E.ids(o["listing"]), coq_list([f"({E.name(j)}, {E.name(d)})" for j, d in o["truth"]], "(str * str)"),
               E.ck(o["check"]), E.opens(o["open"]), E.ck(o["repair"]),
               E.tree(o["post"], o["cache"]), E.ck(o["check_after"]), E.opens(o["open_after"]),
               E.reopens(o["reopen"]), E.upd(o["upd"])))
    damaged = o["check"][0] != "ok"
    kinds = ["cache:" + desc["cache"].split(":")[0], "jobs:%d" % len(desc["jobs"]), "damaged:%d" % len(desc["damage"])]
    kinds += sorted({"dmg:" + (x[1] if x[1] != "subst" else "subst-" + x[3]) for x in desc["damage"]})
    kinds.append("repair-ids:" + desc.get("spell", "None"))
    if desc.get("bare"):
        kinds.append("bare-job")
    if o["upd"]:
        kinds.append("update_cache-after-damage:" + (o["upd"][1][0] if o["upd"][1][0] == "exn" else "returns"))
    kinds.append("check:" + o["check"][0])
    kinds.append("repair:" + o["repair"][0])
    kinds.append("check-after:" + o["check_after"][0])
    if disagree:
        kinds.append("decoders-disagree")
    obs = {k: o[k] for k in ("listing", "check", "open", "reopen", "upd", "repair", "check_after", "open_after",
                             "harness_exception") if k in o}
    return Case(coq, desc, obs=obs, nontrivial=damaged, kinds=kinds, prelude=list(E.prelude.items()))


def search(desc):
    """neighbours: each damage alone, and the same damage on a project without the other jobs' damage"""
    out = []
    extra = {k: desc[k] for k in ("bare", "upd", "ghost", "spell") if k in desc}
    for d in desc["damage"]:
        out.append(dict(extra, jobs=desc["jobs"], cache=desc["cache"], damage=[d]))
        out.append(dict({k: v for k, v in extra.items() if k != "ghost"}, jobs=desc["jobs"], cache="none", damage=[d]))
    return out[:20]
