"""C08 — the state point cache is transparent, and update_cache makes it exact."""
import copy
import gzip
import itertools
import json
import logging
import os
import re
import shutil

from .common import Case, coq_json, coq_list, coq_str, exn_name, scratch_dir, to_plain, typed, untyped

PROP = "C08"
IMPORTS = "Base Json MD5 Canon FS Ws Cache CorrC01 CorrC08"
CASE_TYPE = "case_C08"
MISMATCHES = "mismatches_C08"
VIOLATIONS = "violations_C08"
KNOWN = None
SHARD = 40
RULE = ("histories over {init job, remove job, re-key job (statepoint setter), update_cache, restart session (new Project "
        "object), delete cache file, query through the current session, misname a job directory (corruption)} on a "
        "universe of 5 state points (incl. the empty state point {}): directed scenarios (the former F9 witnesses, poisoning attempts), bounded-exhaustive "
        "histories over a 9-letter alphabet on 2 jobs appended to two start states (empty project / two jobs with a "
        "fresh cache file in a new session) up to length 2 (quick) or 4 (thorough) — plus, at length 2, the letters "
        "update_statepoint through a handle reached by id / by iteration and init / remove by ANOTHER session while the "
        "current one lives on —, and seeded random histories (all of these operations, re-key by id also through iteration handles) of "
        "length <= 40.  After every observed step a fresh Project is observed twice (cache file in place / moved "
        "away): find_jobs(filter), len, ids by iteration, open_job(id=i).statepoint() for every listed directory, and "
        "open_job(id=p) + statepoint() for 10 abbreviated ids p (too short, shared by 3 / 2 universe ids, unique, no match); the "
        "decoded cache file and the value of update_cache() are recorded.  non-trivial: the history changes the "
        "workspace after a cache file exists and calls update_cache or restarts afterwards; distinct by history")
TRUSTED = [
    "gzip/json decoding of the cache file by the harness (the model carries the decoded mapping, not the gzip bytes)",
    "the per-job meaning of the filter {key: int} is dict lookup + equality (C06 covers the search index)",
    "state point file text = json.dumps(sp) for the 4 universe values (asserted by the harness on every file it sees)",
]
ASSUMPTIONS = ["single process; the cache file is either absent or a gzip JSON object (a damaged cache file is out of scope)",
               "after update_cache() raises (corrupted workspace) the session object is discarded",
               "MD5 collision freedom among the state points involved (hypothesis NoColl of cache_transparent)"]
EXHAUSTIVE = {"quick": False, "thorough": True}

# ids 7f9f..., 7f8b..., 706d..., b1b4...: u0/u1 share two hex characters, u2 shares one with them
# u4 is the EMPTY state point (id 99914b...): falsy in Python, must be cached and served like any other
# u5 holds TUPLES (valid input, stored as lists): whatever the cache serves must be the stored value, not the caller's
UNIV = [{"a": 0, "b": 0}, {"a": 1, "b": 123}, {"b": {"c": 2}, "a": 0}, {"a": 1, "b": [1, 1]}, {},
        {"a": 0, "t": (1, (2, 3))}]
# the same values with the key order reversed: update_statepoint keeps the key order of the OLD state point, so a
# job re-keyed from u2 (keys b, a) to the value of u0 stores '{"b": 0, "a": 0}' — same id as u0, another file text
UNIVX = [dict(reversed(list(u.items()))) for u in UNIV[:4]]
# update_statepoint can only add or overwrite keys: (old, update) pairs whose merge is a universe value again
UPD_PAIRS = ([(a, b) for a in range(4) for b in range(5)] + [(4, b) for b in range(6)] + [(5, 4), (5, 5)])
SCALE = 2001      # > 2000 uncached jobs and not divisible by the chunk number of _update_in_memory_cache
# abbreviated ids opened in every observation: too short (""), shared by 3 / 2 ids, unique ones, no match
ABBREVS = ["", "7", "7f", "7f9", "7f8", "70", "b", "b1b", "9", "e"]
_HEX = re.compile(r"^[0-9a-f]{32}")
SPF = "signac_statepoint.json"
CACHE = os.path.join(".signac", "statepoint_cache.json.gz")


# ---------------------------------------------------------------- generation
def _alphabet2():
    a, b = 0, 1
    return [["init", a], ["init", b], ["remove", a], ["remove", b], ["rekey", a, b], ["update"], ["restart"],
            ["delcache"], ["query"]]


# quick only (depth 2): update_statepoint through a handle reached by id, and a job created by another session
def _alphabet2x():
    return _alphabet2() + [["updid", 0, 1], ["updid", 1, 0, "iter"], ["xinit", 0], ["xremove", 1]]


PREFIXES = [[], [["init", 0], ["init", 1], ["update"], ["restart"]]]

DIRECTED = [
    # the F9 witness (fixed by d7351f9): remove a job, new session, update_cache()
    [["init", 0], ["init", 1], ["init", 2], ["update"], ["update"], ["remove", 0], ["restart"], ["update"], ["update"], ["update"]],
    # the same defect on the adding side: job added, new session
    [["init", 0], ["update"], ["init", 1], ["restart"], ["update"], ["update"]],
    [["init", 0], ["update"], ["restart"], ["init", 1], ["update"], ["update"]],
    [["init", 0], ["update"], ["restart"], ["rekey", 0, 1], ["update"], ["update"], ["restart"], ["update"]],
    [["init", 0], ["init", 1], ["update"], ["remove", 1], ["update"], ["update"]],
    [["init", 0], ["init", 1], ["update"], ["restart"], ["query"], ["remove", 1], ["update"], ["update"]],
    [["init", 0], ["init", 1], ["update"], ["delcache"], ["restart"], ["remove", 1], ["update"], ["update"]],
    # a misnamed directory must never reach the cache file
    [["init", 1], ["misname", 1, 0], ["update"], ["misname", 0, 1], ["init", 0], ["update"], ["restart"], ["query"]],
    [["init", 1], ["update"], ["restart"], ["misname", 1, 0], ["update"], ["query"], ["misname", 0, 1], ["init", 0], ["update"], ["query"]],
    [["init", 3], ["init", 2], ["misname", 3, 1], ["query"], ["update"], ["misname", 1, 3], ["init", 1], ["query"], ["update"], ["restart"], ["query"]],
    # abbreviated ids against a stale cache (seeded change C08-2): a cached-but-removed id shares the prefix of an
    # existing job; an existing cached id shares it with a job added later; the same through the live session
    [["init", 0], ["init", 3], ["update"], ["restart"], ["remove", 0], ["init", 1], ["restart"], ["query"], ["update"], ["query"]],
    [["init", 0], ["update"], ["restart"], ["init", 1], ["init", 2], ["restart"], ["query"], ["remove", 0], ["query"]],
    [["init", 0], ["init", 1], ["query"], ["remove", 0], ["query"], ["init", 2], ["query"], ["remove", 1], ["query"]],
    # the empty state point {} cached (persistently / in memory), stale, re-keyed
    [["init", 4], ["init", 0], ["update"], ["restart"], ["query"], ["remove", 4], ["query"], ["update"], ["init", 4], ["restart"], ["query"], ["update"]],
    [["init", 4], ["query"], ["rekey", 4, 1], ["query"], ["update"], ["rekey", 0, 4], ["rekey", 1, 4], ["restart"], ["query"], ["update"], ["update"]],
    # a state point given with tuples: what the session serves (cached_statepoint) is the stored value (seeded C08-7)
    [["init", 5], ["query"], ["restart"], ["query"], ["update"], ["query"]],
    [["init", 5], ["init", 0], ["query"], ["update"], ["query"], ["rekey", 0, 5], ["query"], ["rekeyid", 5, 1], ["query"]],
    # re-key through a handle reached BY ID; the old id must not be served with the new state point (seeded C01-8)
    [["init", 0], ["init", 3], ["query"], ["rekeyid", 0, 1], ["query"], ["update"], ["query"], ["restart"], ["query"]],
    [["init", 0], ["update"], ["restart"], ["query"], ["rekeyid", 0, 2], ["query"], ["update"], ["query"], ["restart"], ["query"]],
    [["init", 0], ["init", 1], ["query"], ["rekeyid", 0, 1], ["query"], ["rekeyid", 2, 3], ["query"]],
    [["init", 0], ["query"], ["remove", 0], ["rekeyid", 0, 1], ["query"], ["update"], ["query"]],
    # update_statepoint through a handle reached BY ID / BY ITERATION must work on a copy, never on the dict the session
    # cache holds under the old id (seeded C08-11): (A) the re-key is rejected, the old id keeps existing;
    # (B) the re-key succeeds and ANOTHER session creates the old state point again while this session lives on
    [["init", 0], ["init", 1], ["restart"], ["updid", 0, 1], ["query"], ["update"], ["query"], ["restart"], ["query"], ["delcache"], ["query"]],
    [["init", 0], ["init", 1], ["update"], ["restart"], ["updid", 0, 1, "iter"], ["query"], ["update"], ["update"], ["restart"], ["query"]],
    [["init", 0], ["restart"], ["updid", 0, 1, "iter"], ["xinit", 0], ["query"], ["update"], ["query"], ["restart"], ["query"]],
    [["init", 2], ["update"], ["restart"], ["updid", 2, 0], ["xinit", 2], ["query"], ["update"], ["update"], ["restart"], ["query"], ["updid", 0, 3], ["query"]],
    [["init", 4], ["init", 3], ["query"], ["updid", 4, 3], ["query"], ["updid", 4, 5, "iter"], ["query"], ["xinit", 4], ["query"], ["update"], ["restart"], ["query"]],
    [["init", 0], ["init", 1], ["query"], ["rekeyid", 0, 1, "iter"], ["query"], ["xremove", 1], ["query"], ["rekeyid", 0, 1, "iter"], ["xinit", 0], ["query"], ["update"], ["query"]],
    # another session changes the workspace while this one lives on
    [["init", 0], ["update"], ["query"], ["xremove", 0], ["query"], ["xinit", 1], ["query"], ["update"], ["update"], ["xinit", 0], ["query"]],
    # stale in-memory entries
    [["init", 0], ["init", 1], ["query"], ["remove", 0], ["query"], ["rekey", 1, 2], ["query"], ["update"], ["update"], ["restart"], ["query"]],
    [["init", 0], ["rekey", 0, 0], ["rekey", 0, 1], ["rekey", 1, 1], ["rekey", 2, 3], ["update"], ["restart"], ["rekey", 1, 0], ["init", 1], ["rekey", 0, 1], ["update"], ["update"]],
]


def _rand_history(rng, n):
    steps = []
    mis = None
    for _ in range(n):
        r = rng.random()
        if mis and rng.random() < 0.3:
            steps.append(["misname", mis[1], mis[0]])
            mis = None
        elif r < 0.24:
            steps.append(["init", rng.randrange(len(UNIV))])
        elif r < 0.36:
            steps.append(["remove", rng.randrange(len(UNIV))])
        elif r < 0.43:
            steps.append(["rekey", rng.randrange(len(UNIV)), rng.randrange(len(UNIV))])
        elif r < 0.47:
            steps.append(["rekeyid", rng.randrange(len(UNIV)), rng.randrange(len(UNIV))] + (["iter"] if rng.random() < 0.5 else []))
        elif r < 0.54:
            steps.append(["updid"] + list(rng.choice(UPD_PAIRS)) + (["iter"] if rng.random() < 0.5 else []))
        elif r < 0.59:
            steps.append([rng.choice(["xinit", "xinit", "xremove"]), rng.randrange(len(UNIV))])
        elif r < 0.70:
            steps.append(["update"])
        elif r < 0.79:
            steps.append(["restart"])
        elif r < 0.84:
            steps.append(["delcache"])
        elif r < 0.96:
            steps.append(["query"])
        else:
            a, b = rng.randrange(len(UNIV)), rng.randrange(len(UNIV))
            if a != b:
                steps.append(["misname", a, b])
                mis = (a, b)
    return steps


def gen_inputs(tier, rng):
    descs = []
    for k, h in enumerate(DIRECTED):
        descs.append({"pre": [], "steps": h, "filter": ["a", k % 2]})
    depth, nrand = (2, 230) if tier == "quick" else (4, 1500)
    alpha = _alphabet2()
    for pre in PREFIXES:
        for n in range(1, depth + 1):
            for h in itertools.product(alpha, repeat=n):
                if n < depth:      # shorter histories are prefixes of the maximal ones (every step is observed)
                    continue
                descs.append({"pre": pre, "steps": [list(x) for x in h], "filter": ["a", 0]})
    for pre in PREFIXES:       # the wider alphabet, depth 2, in both tiers
        for h in itertools.product(_alphabet2x(), repeat=2):
            if any(x[0] in ("updid", "xinit", "xremove") for x in h):
                descs.append({"pre": pre, "steps": [list(x) for x in h] + [["query"]], "filter": ["a", 0]})
    for i in range(nrand):
        n = rng.choice([6, 10, 16, 24, 40]) if tier == "quick" else rng.randint(5, 40)
        descs.append({"pre": [], "steps": _rand_history(rng, n), "filter": ["a", rng.randrange(2)]})
    # the scale class: a workspace of SCALE jobs filled by another process, then update_cache() in a new session;
    # no per-session observations (too many jobs), the cache file is compared exactly with os.listdir
    descs.insert(0, {"pre": [], "scale": SCALE, "filter": ["a", 0],
                     "steps": [["plant", SCALE], ["update"], ["file"], ["update"], ["restart"], ["update"], ["file"]]})
    return descs


# ---------------------------------------------------------------- running the real signac
def _calc_id(sp):
    from signac.job import calc_id
    return calc_id(sp)


def _res(fn):
    try:
        return ["ok", fn()]
    except Exception as e:  # noqa: BLE001 - the class is the observation
        return ["exn", exn_name(e)]


def observe(q, root, flt):
    ws = os.path.join(root, "workspace")
    find = _res(lambda: sorted(j.id for j in q.find_jobs({flt[0]: flt[1]})))
    n = len(q)
    ids = sorted(j.id for j in q)
    dirs = sorted(d for d in os.listdir(ws) if _HEX.match(d))
    opens = [[i, _res(lambda i=i: typed(to_plain(q.open_job(id=i).statepoint())))] for i in dirs]
    pres = []
    for p in ABBREVS:
        try:
            j = q.open_job(id=p)
        except Exception as e:  # noqa: BLE001
            pres.append([p, ["exn", exn_name(e)]])
            continue
        pres.append([p, ["ok", j.id, _res(lambda j=j: typed(to_plain(j.statepoint())))]])
    # cached_statepoint of handles from iteration and from open_job(id=...), TYPE-EXACTLY (tuple is not list)
    it = {}
    try:
        for j in q:
            it[j.id] = _res(lambda j=j: texact(dict(j.cached_statepoint)))
    except Exception as e:  # noqa: BLE001
        it = {"$iteration": exn_name(e)}
    cached = []
    for i in dirs:
        r = _res(lambda i=i: texact(dict(q.open_job(id=i).cached_statepoint)))
        if it.get(i, r) != r:
            r = ["ok", {"$iteration-handle-differs": [it.get(i), r]}]
        cached.append([i, r])
    others = [u for u in UIDS() if u not in dirs]
    uopen = [[i, _res(lambda i=i: texact(q.open_job(id=i).statepoint()))] for i in others]
    return {"find": find, "len": n, "ids": ids, "open": opens, "pre": pres, "cached": cached, "uopen": uopen}


_UIDS = []


def UIDS():
    if not _UIDS:
        _UIDS.extend(_calc_id(u) for u in UNIV)
    return _UIDS


def texact(v):
    """type-exact JSON-able rendering: a tuple is NOT a list (shown as an object no model value equals)"""
    if isinstance(v, tuple):
        return {"$tuple": [texact(x) for x in v]}
    if isinstance(v, list):
        return [texact(x) for x in v]
    if hasattr(v, "items"):
        return {k: texact(x) for k, x in v.items()}
    return typed(v)


def read_cache_file(root):
    fn = os.path.join(root, CACHE)
    if not os.path.exists(fn):
        return None
    with gzip.open(fn, "rb") as fh:
        d = json.loads(fh.read().decode())
    return [[k, typed(v)] for k, v in d.items()]


def _handle(project, i, by_iteration):
    """a handle reached BY ID: project.open_job(id=i), or - when asked for and the id is listed - the handle that
    iterating over the project yields for it (both are Job(project, id_=i) objects sharing the session cache's dict)"""
    if by_iteration:
        for j in project:
            if j.id == i:
                return j
    return project.open_job(id=i)


def run_history(root, desc):
    import signac

    logging.disable(logging.CRITICAL)
    signac.init_project(path=root)
    ws = os.path.join(root, "workspace")
    os.makedirs(ws, exist_ok=True)
    texts = {json.dumps(u).encode() for u in UNIV + UNIVX}
    observed = not desc.get("scale")
    flt = desc["filter"]
    project = signac.Project(root)
    out = []
    npre = len(desc.get("pre", []))
    for k, op in enumerate(list(desc.get("pre", [])) + list(desc["steps"])):
        kind = op[0]
        if kind == "init":
            ret = _res(lambda: project.open_job(copy.deepcopy(UNIV[op[1]])).init() and None)
        elif kind == "remove":
            ret = _res(lambda: project.open_job(copy.deepcopy(UNIV[op[1]])).remove())
        elif kind == "rekey":
            def _rk():
                j = project.open_job(copy.deepcopy(UNIV[op[1]]))
                j.statepoint = copy.deepcopy(UNIV[op[2]])
            ret = _res(_rk)
        elif kind == "rekeyid":
            def _rki():
                j = _handle(project, _calc_id(UNIV[op[1]]), op[3:] == ["iter"])
                j.statepoint = copy.deepcopy(UNIV[op[2]])
            ret = _res(_rki)
        elif kind == "updid":
            def _upi():
                j = _handle(project, _calc_id(UNIV[op[1]]), op[3:] == ["iter"])
                j.update_statepoint(copy.deepcopy(UNIV[op[2]]), overwrite=True)
            ret = _res(_upi)
        elif kind == "xinit":      # another session, while `project` lives on
            ret = _res(lambda: signac.Project(root).open_job(copy.deepcopy(UNIV[op[1]])).init() and None)
        elif kind == "xremove":
            ret = _res(lambda: signac.Project(root).open_job(copy.deepcopy(UNIV[op[1]])).remove())
        elif kind == "plant":
            for n in range(op[1]):
                d = os.path.join(ws, _calc_id({"i": n}))
                if not os.path.exists(d):
                    os.mkdir(d)
                    with open(os.path.join(d, SPF), "wb") as fh:
                        fh.write(json.dumps({"i": n}).encode())
            texts |= {json.dumps({"i": n}).encode() for n in range(op[1])}
            ret = ["ok", None]
        elif kind == "file":
            ret = ["file", read_cache_file(root), sorted(d for d in os.listdir(ws) if _HEX.match(d))]
        elif kind == "update":
            ret = _res(lambda: project.update_cache())
            if ret[0] == "exn":
                project = signac.Project(root)
        elif kind == "restart":
            project = signac.Project(root)
            ret = ["ok", None]
        elif kind == "delcache":
            try:
                os.remove(os.path.join(root, CACHE))
            except FileNotFoundError:
                pass
            ret = ["ok", None]
        elif kind == "query":
            ret = ["obs", observe(project, root, flt)]
        elif kind == "misname":
            a = os.path.join(ws, _calc_id(UNIV[op[1]]))
            b = os.path.join(ws, _calc_id(UNIV[op[2]]))
            if os.path.isdir(a) and not os.path.exists(b):
                os.rename(a, b)
            ret = ["ok", None]
        else:
            raise ValueError(op)
        # every state point file the models will be asked to decode is the canonical text of a universe value
        for d in os.listdir(ws):
            fn = os.path.join(ws, d, SPF)
            if os.path.isfile(fn):
                with open(fn, "rb") as fh:
                    assert fh.read() in texts, ("unexpected state point file text", d)
        sob = None
        if k >= npre and observed:
            w = observe(signac.Project(root), root, flt)
            fn = os.path.join(root, CACHE)
            moved = os.path.exists(fn)
            if moved:
                os.rename(fn, fn + ".away")
            try:
                wo = observe(signac.Project(root), root, flt)
            finally:
                if moved:
                    os.rename(fn + ".away", fn)
            sob = {"with": w, "without": wo, "file": read_cache_file(root)}
        out.append({"op": op, "ret": ret, "obs": sob})
    return out


# ---------------------------------------------------------------- Gallina
def idname(i):
    return "i_" + i


def id_prelude(i):
    return (idname(i), f"Definition {idname(i)} : str := {coq_str(i)}.")


class Emit:
    def __init__(self):
        self.prelude = {}

    def id(self, i):
        assert re.fullmatch(r"[0-9a-f]{32}", i), i
        n, text = id_prelude(i)
        self.prelude[n] = text
        return n

    def ids(self, l):
        return coq_list([self.id(i) for i in l], "str")

    def res_ids(self, r):
        return f"(Ok {self.ids(r[1])})" if r[0] == "ok" else f"(Err {r[1]})"

    def res_json(self, r):
        return f"(Ok {coq_json(untyped(r[1]))})" if r[0] == "ok" else f"(Err {r[1]})"

    def obs(self, o):
        opens = coq_list([f"({self.id(i)}, {self.res_json(r)})" for i, r in o["open"]], "(str * result json)")
        pres = coq_list([f"({coq_str(p)}, " + (f"(Err {r[1]})" if r[0] == "exn" else
                                               f"(Ok ({self.id(r[1])}, {self.res_json(r[2])}))") + ")"
                         for p, r in o["pre"]], "(str * result (str * result json))")
        cached = coq_list([f"({self.id(i)}, {self.res_json(r)})" for i, r in o["cached"]], "(str * result json)")
        uopen = coq_list([f"({self.id(i)}, {self.res_json(r)})" for i, r in o["uopen"]], "(str * result json)")
        return (f"(mkX (mkObs {self.res_ids(o['find'])} {o['len']}%N {self.ids(o['ids'])} {opens}) {pres} "
                f"{cached} {uopen})")

    def cache(self, c):
        if c is None:
            return "None"
        return "(Some " + coq_list([f"({self.id(k)}, {coq_json(untyped(v))})" for k, v in c], "(str * json)") + ")"

    def ret(self, op, r):
        if r[0] == "exn":
            return f"(RExn {r[1]})"
        if r[0] == "obs":
            return f"(RObs {self.obs(r[1])})"
        if r[0] == "file":
            return f"(RFile {self.cache(r[1])} {self.ids(r[2])})"
        if op[0] == "update":
            return "RNone" if r[1] is None else f"(RNum {int(r[1])}%N)"
        return "RUnit"

    def op(self, op):
        k = op[0]
        u = lambda n: f"u8_{n}"  # noqa: E731
        if k == "init":
            return f"(HInit {u(op[1])})"
        if k == "remove":
            return f"(HRemove {u(op[1])})"
        if k == "rekey":
            return f"(HRekey {u(op[1])} {u(op[2])})"
        if k == "misname":
            return f"(HMisname {u(op[1])} {u(op[2])})"
        if k == "rekeyid":
            return f"(HRekeyId {u(op[1])} {u(op[2])})"
        if k == "updid":
            return f"(HUpdId {u(op[1])} {u(op[2])})"
        if k == "xinit":
            return f"(HXInit {u(op[1])})"
        if k == "xremove":
            return f"(HXRemove {u(op[1])})"
        if k == "plant":
            return f"(HPlant plant_{op[1]})"
        if k == "file":
            return "HFile"
        return {"update": "HUpdate", "restart": "HRestart", "delcache": "HDelCache", "query": "HQuery"}[k]

    def step(self, s):
        if s["obs"] is None:
            so = "None"
        else:
            o = s["obs"]
            so = f"(Some (mkSobs {self.obs(o['with'])} {self.obs(o['without'])} {self.cache(o['file'])}))"
        return f"(mkStep {self.op(s['op'])} {self.ret(s['op'], s['ret'])} {so})"


def run_case(desc):
    with scratch_dir("c08") as d:
        root = os.path.join(d, "p")
        os.makedirs(root)
        steps = run_history(root, desc)
    E = Emit()
    prelude = [(f"u8_{n}", f"Definition u8_{n} : json := {coq_json(u)}.") for n, u in enumerate(UNIV)]
    prelude.append(("univ8", "Definition univ8 : list json := [%s]." % "; ".join(f"u8_{n}" for n in range(len(UNIV)))))
    prelude += [(f"u8x_{n}", f"Definition u8x_{n} : json := {coq_json(u)}.") for n, u in enumerate(UNIVX)]
    prelude.append(("univ8x", "Definition univ8x : list json := [%s]." % "; ".join(f"u8x_{n}" for n in range(len(UNIVX)))))
    prelude.append(("tab8u", "Definition tab8u : list (list N * json) := map (fun v => (dumps (ftab_lookup []) v, v)) (univ8 ++ univ8x)."))
    prelude.append(("uids8", "Definition uids8 : list str := %s." % coq_list([E.id(i) for i in UIDS()], "str")))
    prelude.append(("pres8", "Definition pres8 : list str := %s." % coq_list([coq_str(p) for p in ABBREVS], "str")))
    tab, uids, pres = "tab8u", "uids8", "pres8"
    if desc.get("scale"):
        n = desc["scale"]
        prelude.append((f"plant_{n}", f"Definition plant_{n} : list json := "
                        f"map (fun k => JObj [([105%N], JInt (Z.of_nat k))]) (seq 0 {n})."))
        prelude.append((f"tab_{n}", f"Definition tab_{n} : list (list N * json) := "
                        f"map (fun v => (dumps (ftab_lookup []) v, v)) plant_{n}."))
        tab, uids, pres = f"tab_{n}", "(@nil str)", "(@nil str)"
    body = coq_list([E.step(s) for s in steps], "hstep")
    flt = desc["filter"]
    coq = ("{| c8_ftab := []; c8_tab := %s; c8_uids := %s; c8_key := %s; c8_val := %s; c8_pres := %s; c8_steps := %s |}"
           % (tab, uids, coq_str(flt[0]), coq_json(flt[1]), pres, body))
    # definitions must precede their uses: ids first
    prelude = list(E.prelude.items()) + [x for x in prelude if x[0] not in E.prelude]
    return_prelude = prelude
    allops = list(desc.get("pre", [])) + list(desc["steps"])
    kinds_seen = [o[0] for o in allops]
    # non-trivial: a workspace change after a cache file was written, followed by update_cache or a restart
    nontriv = False
    seen_update = changed = False
    for o in kinds_seen:
        if o == "update":
            if changed:
                nontriv = True
            seen_update = True
        elif o in ("init", "remove", "rekey", "rekeyid", "updid", "xinit", "xremove", "misname", "plant") and seen_update:
            changed = True
        elif o == "restart" and changed:
            nontriv = True
    kinds = ["len:%d" % (5 * (len(allops) // 5))] + sorted(set(kinds_seen))
    if any(s["ret"][0] == "exn" for s in steps):
        kinds.append("some-op-raises")
    if any(s["op"][0] == "update" and s["ret"] == ["ok", None] for s in steps):
        kinds.append("update-returns-None")
    if desc.get("scale"):
        nontriv = True
        kinds.append("scale:%d" % desc["scale"])
        steps = [{"op": x["op"], "ret": x["ret"][:1] + [len(y) if isinstance(y, list) else y for y in x["ret"][1:]]}
                 for x in steps]
    return Case(coq, desc, obs={"steps": steps[-3:]}, nontrivial=nontriv, kinds=kinds, prelude=return_prelude)


def search(desc):
    """neighbours of a mismatching history: its prefixes and single-step deletions"""
    steps = desc["steps"]
    out = []
    for n in range(1, len(steps)):
        out.append({"pre": desc.get("pre", []), "steps": steps[:n], "filter": desc["filter"]})
    for k in range(len(steps)):
        out.append({"pre": desc.get("pre", []), "steps": steps[:k] + steps[k + 1:], "filter": desc["filter"]})
    return out[:60]
