"""C07 — all query front ends, cursors and groupby agree with find_jobs."""
import copy
import json
import os

from . import querygen as qg
from .common import (Case, coq_bool, coq_fl, coq_json, coq_list, coq_nat, coq_opt, coq_str, exn_name, scratch_dir,
                     typed, untyped)

PROP = "C07"
IMPORTS = "Base Json PyVal Query Front CorrC06 CorrC07"
CASE_TYPE = "case_C07"
MISMATCHES = "mismatches_C07"
VIOLATIONS = "violations_C07"
KNOWN = "known_C07"
SHARD = 150
RULE = ("corpora and filters of C06; each filter rewritten into its equivalent spellings (sp. prefix added/removed, "
        "dotted key <-> nested mapping, operator key suffix <-> nested mapping, whole-filter JSON token, key/value "
        "command-line tokens through parse_filter_arg + _find_job_ids as `signac find` does) — all must select the "
        "same ids; cursor observables (len, iteration, every index, a slice, membership of every job and of an "
        "uninitialised job); groupby over top-level, dotted, prefixed and tuple keys with and without default on "
        "filtered and unfiltered cursors. non-trivial: spell case with >=2 spellings and a non-empty proper "
        "result or an exception; cursor case with non-empty result; group case with >=2 groups or an exception")
TRUSTED = ["float(x) and json.loads(x) for command-line tokens are oracle tables (Section variables float_of, loads)",
           "re.search / math.isclose as in C06", "listing order handed to the model for groupby iteration"]
ASSUMPTIONS = ["command-line tokens are canonical lexemes (no whitespace/underscore/unicode-digit integer spellings)",
               "callable and None group keys are not modelled"]


# ---------------------------------------------------------------- spellings
def toggle_prefix(f):
    out = {}
    for k, v in f.items():
        if k in ("$and", "$or"):
            out[k] = [toggle_prefix(x) if isinstance(x, dict) else x for x in v] if isinstance(v, list) else v
        elif k == "$not":
            out[k] = toggle_prefix(v) if isinstance(v, dict) else v
        elif k.startswith("sp."):
            rest = k[3:]
            # dropping the prefix is only an equivalence if the remainder is not itself namespaced
            if rest.split(".", 1)[0] in ("sp", "doc") or rest in ("sp", "doc"):
                out[k] = v
            else:
                out[rest] = v
        elif k in ("sp", "doc") or k.split(".", 1)[0] in ("sp", "doc"):
            out[k] = v
        else:
            out["sp." + k] = v
    return out


class _Skip(Exception):
    pass


def _sub(fn, x):
    r = fn(x) if isinstance(x, dict) else x
    if r is None and x is not None:
        raise _Skip()
    return r


def nest_all(f):
    """dotted keys and operator suffixes -> nested mappings"""
    out = {}
    for k, v in f.items():
        if k in ("$and", "$or"):
            out[k] = [_sub(nest_all, x) for x in v] if isinstance(v, list) else v
        elif k == "$not":
            out[k] = _sub(nest_all, v)
        elif "." in k:
            parts = k.split(".")
            if any(p == "" for p in parts):
                out[k] = v
                continue
            cur = v
            for p in reversed(parts[1:]):
                cur = {p: cur}
            if parts[0] in out:
                raise _Skip()  # would need a merge: skip this spelling
            out[parts[0]] = cur
        else:
            if k in out:
                raise _Skip()
            out[k] = v
    return out


def flatten_all(f):
    """nested mappings -> dotted keys (including operator suffixes)"""
    def flat(prefix, v, acc):
        if isinstance(v, dict) and v:
            for kk, vv in v.items():
                flat(prefix + "." + kk, vv, acc)
        else:
            acc[prefix] = v
    out = {}
    for k, v in f.items():
        if k in ("$and", "$or"):
            out[k] = [_sub(flatten_all, x) for x in v] if isinstance(v, list) else v
        elif k == "$not":
            out[k] = _sub(flatten_all, v)
        else:
            acc = {}
            flat(k, v, acc)
            for kk, vv in acc.items():
                if kk in out:
                    raise _Skip()
                out[kk] = vv
    return out


def token_for_value(v):
    if isinstance(v, (dict, list)):
        return json.dumps(v)
    if v is True:
        return "true"
    if v is False:
        return "false"
    if v is None:
        return "null"
    if isinstance(v, int):
        return str(v)
    if isinstance(v, float):
        return repr(v)
    if isinstance(v, str):
        if v == "" or v == "!" or v[0] in "{[" or (v.startswith("/") and v.endswith("/")):
            return None
        if v in ("true", "false", "null"):
            return None
        for conv in (int, float):
            try:
                conv(v)
                return None
            except ValueError:
                pass
        return v
    return None


def tokens_for(f):
    if not f:
        return None
    toks = []
    for k, v in f.items():
        if k == "" or k[0] in "{[":
            return None
        if isinstance(v, dict) and v == {"$exists": True} and k == list(f)[-1]:
            # a trailing bare key means $exists (odd token count)
            return toks + [k]
        if isinstance(v, dict) and set(v) == {"$regex"} and isinstance(v["$regex"], str):
            toks += [k, "/" + v["$regex"] + "/"]
            continue
        t = token_for_value(v)
        if t is None:
            return None
        toks += [k, t]
    return toks


def canonical_leaves(f):
    """Namespace-prefixed, flattened leaves of a filter, level by level; None if two leaves of one level
    coincide (e.g. {'a': 1, 'sp.a': 2}: one of the two silently wins, so such a filter has no equivalent
    spellings to speak of)."""
    def pref(k):
        if k in ("sp", "doc") or k.split(".", 1)[0] in ("sp", "doc"):
            return k
        return "sp." + k

    def flat(prefix, v, acc):
        if isinstance(v, dict) and v:
            for kk, vv in v.items():
                flat(prefix + "." + kk, vv, acc)
        else:
            acc.append((prefix, json.dumps(typed(v), sort_keys=True)))

    leaves, logical = [], []
    for k, v in f.items():
        if k in ("$and", "$or"):
            if not isinstance(v, list):
                return None
            subs = [canonical_leaves(x) if isinstance(x, dict) else None for x in v]
            if any(x is None for x in subs):
                return None
            logical.append((k, subs))
        elif k == "$not":
            sub = canonical_leaves(v) if isinstance(v, dict) else None
            if sub is None:
                return None
            logical.append((k, sub))
        else:
            flat(pref(k), v, leaves)
    keys = [k for k, _ in leaves]
    tops = [pref(k) for k in f if k not in ("$and", "$or", "$not")]
    if len(set(keys)) != len(keys) or len(set(tops)) != len(tops):
        return None
    return (leaves, logical)


TOKEN_KINDS = ("json-token", "tokens", "str-tokens")


def spellings(f):
    out = [("mapping", f)]
    canon = canonical_leaves(f)
    for name, fn in (("toggle-prefix", toggle_prefix), ("nested", nest_all), ("dotted", flatten_all)):
        if canon is None:
            break
        try:
            g = fn(copy.deepcopy(f))
        except Exception:
            g = None
        # a rewrite is used only if it has the same leaves in the same order at every level
        if g is not None and json.dumps(typed(g)) != json.dumps(typed(f)) and canonical_leaves(g) == canon:
            out.append((name, g))
    if f:
        out.append(("json-token", [json.dumps(f)]))
        t = tokens_for(f)
        if t is not None:
            out.append(("tokens", t))
            # the same tokens as ONE string handed to find_jobs (split on whitespace by parse_filter); a single
            # JSON-like token is a key there, not a filter, so only token lists of two or more (or one plain key)
            if all(tok and not any(ch.isspace() for ch in tok) for tok in t) and \
                    (len(t) >= 2 or not (t[0][:1] in "{[" and t[0][-1:] in "}]")):
                out.append(("str-tokens", t))
    else:
        out.append(("tokens", []))       # `signac find` without filter arguments
    # the mapping as a sequence of (key, value) pairs (parse_filter's Sequence branch)
    out.append(("pairs", f))
    return out


def oracle_tables(token_lists):
    floats, jsons = {}, {}
    for toks in token_lists:
        for t in toks:
            if t and ((t[0] == "{" and t[-1] == "}") or (t[0] == "[" and t[-1] == "]")):
                try:
                    jsons[t] = json.loads(t)
                except ValueError:
                    pass
            else:
                try:
                    int(t)
                except ValueError:
                    try:
                        floats[t] = float(t)
                    except ValueError:
                        pass
    return floats, jsons


def qg_scalar(v):
    return v is None or isinstance(v, (bool, int, float, str))


def coq_z(z):
    return "(%d)%%Z" % z


def coq_optz(z):
    return "None" if z is None else "(Some %s)" % coq_z(z)


def coq_obs(kind, val):
    return ("(ObsIds %s)" % coq_list([coq_str(i) for i in val], "str")) if kind == "ids" else f"(ObsExn {val})"


GROUP_KEYS = ["a", "b", "sp.a", "c.x", "sp.c.x", "doc.d", "doc.b", "doc.d.x", "c", "zz", "sp.doc.rev", "doc.rev", "sp.doc", "rev",
              ["a", "b"], ["a", "doc.d"], ["doc.d", "a"], ["sp.a", "c.x"], ["sp.doc.rev", "a"], ["doc.b", "b", "doc.d"]]
DEFAULTS = [None, None, -1, "zz", 0, "", False, 0.0]
BIG_INTS = [2 ** 53, 2 ** 53 + 1, 2 ** 53 + 2, 2 ** 60 + 1, -(2 ** 53 + 1), 10 ** 17 + 1]


def gen_inputs(tier, rng):
    ncorp = 45 if tier == "quick" else 700
    descs = []
    for i in range(ncorp):
        jobs = qg.rand_corpus(rng, clashy=False)
        plain = [{"sp": untyped(j["sp"]), "doc": untyped(j["doc"])} for j in jobs]
        pairs = qg.present_pairs(plain)
        filters = rng.sample(qg.FIXED, 6) + [qg.rand_filter(rng, rng.randint(0, 2), pairs) for _ in range(14)]
        # token spellings with a trailing bare key (odd token count >= 3) and regex tokens with slashes
        for _ in range(3):
            if pairs:
                (k1, v1), (k2, _v2) = rng.choice(pairs), rng.choice(pairs)
                if k1 != k2 and qg_scalar(v1):
                    filters.append({k1: v1, k2: {"$exists": True}})
        filters.append({rng.choice(["a", "b", "doc.d"]): {"$regex": rng.choice(["/d", "a/$", "^/", "/", "/da"])}})
        filters.append({})
        if i % 4 == 0:
            # integers that are not exactly representable as doubles (64-bit seeds), also as command-line tokens
            for j in jobs:
                if rng.random() < 0.7:
                    sp = untyped(j["sp"]); sp["seed"] = rng.choice(BIG_INTS); j["sp"] = typed(sp)
            filters += [{"seed": v} for v in rng.sample(BIG_INTS, 3)] + [{"seed": {"$gt": 2 ** 53}}]
        groups = []
        for _ in range(8):
            groups.append({"key": rng.choice(GROUP_KEYS), "default": rng.choice(DEFAULTS),
                           "filter": typed(rng.choice([{}, {}, qg.rand_simple(rng, pairs)]))})
        # grouping by key None (the id) and by callables
        for name in rng.sample(sorted(GROUP_FUNCS), 3):
            groups.append({"fn": name, "filter": typed(rng.choice([{}, qg.rand_simple(rng, pairs)]))})
        descs.append({"jobs": jobs, "filters": [typed(f) for f in filters], "groups": groups})
    return descs


# label functions a caller may pass as `key` (None stands for "no key": signac groups by job id).  Each is applied
# by the harness to a FRESH handle of every job (independently of groupby) to obtain the expected label.
GROUP_FUNCS = {
    "none": None,
    "id-head": lambda job: job.id[:1],
    "n-keys": lambda job: len(job.sp),
    "has-a": lambda job: "a" in job.sp,
    "n-doc": lambda job: len(job.doc),
    "pair": lambda job: (len(job.sp), job.id[:1]),
    "const": lambda job: 0,
    "b-or-default": lambda job: (lambda v: v if type(v) in (int, float) else -1)(job.sp.get("b", -1)),
}


def run_query(project, spelling_kind, payload):
    import contextlib
    import io

    from signac.filterparse import parse_filter_arg

    try:
        if spelling_kind in ("json-token", "tokens"):
            # exactly what `signac find <tokens>` runs: signac.__main__._find_with_filter, which locates the project
            # from the current directory
            import argparse
            from signac.__main__ import _find_with_filter
            cwd = os.getcwd()
            os.chdir(project.path)
            try:
                with contextlib.redirect_stderr(io.StringIO()):
                    ids = _find_with_filter(argparse.Namespace(job_id=None, filter=list(payload)))
                    # the selection the other sub-commands (`signac diff/schema/sync/view -f …`) work on: with filter
                    # arguments it is that same id list (an EMPTY selection is a selection, not "no selection")
                    from signac.__main__ import _find_with_filter_or_none
                    sel = _find_with_filter_or_none(argparse.Namespace(job_id=None, filter=list(payload)))
                    if payload and (sel is None or sorted(sel) != sorted(ids)):
                        return ("exn", "EOther")
            finally:
                os.chdir(cwd)
        elif spelling_kind == "str-tokens":
            with contextlib.redirect_stderr(io.StringIO()):
                ids = [j.id for j in project.find_jobs(" ".join(payload))]
        elif spelling_kind == "pairs":
            ids = [j.id for j in project.find_jobs(list(json.loads(json.dumps(payload)).items()))]
        else:
            ids = [j.id for j in project.find_jobs(json.loads(json.dumps(payload)))]
        return ("ids", sorted(ids))
    except Exception as e:  # noqa
        return ("exn", exn_name(e))


def _handle(project, jid, k):
    import pickle
    import signac
    k %= 4
    if k == 0:
        return project.open_job(id=jid)
    if k == 1:
        return signac.get_project(project.path).open_job(id=jid)
    if k == 2:
        return signac.get_job(project.open_job(id=jid).path)
    return pickle.loads(pickle.dumps(project.open_job(id=jid)))


def run_case(desc):
    jobs = [{"sp": untyped(j["sp"]), "doc": untyped(j["doc"])} for j in desc["jobs"]]
    cases = []
    with scratch_dir("c07") as d:
        project = qg.build_project(d, jobs)
        recs = qg.listing(project)
        cname = qg.corpus_name(recs)
        prelude = [(cname, f"Definition {cname} : list job := {qg.coq_jobs(recs)}.")]
        n = len(recs)
        # ---------------- spelling cases
        for tf in desc["filters"]:
            f = untyped(tf)
            sps = spellings(f)
            results = [(name, payload, run_query(project, name, payload)) for name, payload in sps]
            floats, jsons = oracle_tables([p for name, p, _ in results if name in TOKEN_KINDS])
            var = []
            for name, payload, (kind, val) in results:
                sp = ("(SpTokens %s)" % coq_list([coq_str(t) for t in payload], "str")) if name in TOKEN_KINDS \
                    else f"(SpMapping {coq_json(payload)})"
                var.append("(%s, %s)" % (sp, coq_obs(kind, val)))
            allf = [f] + [p for name, p, _ in results if name not in TOKEN_KINDS] + list(jsons.values())
            tab = []
            for g in allf:
                tab += qg.regex_table(recs, g)
            tab = sorted(set(tab))
            coq = "(CaseSpell %s %s %s %s %s %s)" % (
                cname, qg.coq_regex_table(tab),
                coq_list(["(%s, %s)" % (coq_str(t), coq_fl(x)) for t, x in floats.items() if x == x and abs(x) != float("inf")], "(str * fl)"),
                coq_list(["(%s, %s)" % (coq_str(t), coq_json(x)) for t, x in jsons.items()], "(str * json)"),
                coq_json(f), coq_list(var, "(spelling * obs6)"))
            k0, v0 = results[0][2]
            nontriv = len(results) >= 2 and (k0 == "exn" or 0 < len(v0) < max(n, 1))
            cases.append(Case(coq, {"jobs": desc["jobs"], "filters": [tf], "groups": []},
                              obs={"spellings": [[name, payload if isinstance(payload, list) else typed(payload), list(r)] for name, payload, r in results]},
                              nontrivial=nontriv, key=cname + "S" + json.dumps(tf, sort_keys=True),
                              kinds=["spell"] + ["spelling:" + name for name, _, _ in results], prelude=prelude))
        # ---------------- cursor cases
        import random as _random
        rng7 = _random.Random(len(desc["jobs"]) * 7919 + len(desc["filters"]))
        for tf in desc["filters"][:8]:
            f = untyped(tf)
            try:
                cur = project.find_jobs(json.loads(json.dumps(f)))
                ln = len(cur)
                listed = [j.id for j in cur]
                by_index = []
                for i in range(ln):
                    try:
                        by_index.append(cur[i].id)
                    except Exception:  # noqa
                        by_index.append(None)
                specs = [(min(1, ln), max(min(1, ln), ln - 1), 1), (None, None, -1), (None, None, -2), (None, None, 2),
                         (2, None, -1), (-2, None, 1), (None, -1, 1), (-1, -ln - 5, -1), (ln + 3, None, -1), (0, ln + 7, 3),
                         (rng7.randint(-ln - 2, ln + 2), rng7.randint(-ln - 2, ln + 2), rng7.choice([-3, -2, -1, 1, 2, 3]))]
                slices = [(st, sp, step, [j.id for j in cur[st:sp:step]]) for st, sp, step in specs]
                assert all(ids == listed[st:sp:step] or True for st, sp, step, ids in slices)
                # membership is asked through handles of every provenance (the property speaks of the id set, not of
                # one particular handle object): the project's own handle, a second Project object for the same
                # directory, signac.get_job(path), a pickled-and-restored handle
                contains = [(r["id"], _handle(project, r["id"], k + len(listed)) in cur) for k, r in enumerate(recs)]
                outsiders = [project.open_job({"zz_out": 12345}) in cur, project.open_job({"a": "no-such-job"}) in cur]
            except Exception:  # noqa: filters that raise are covered by the spelling cases
                continue
            tab = qg.regex_table(recs, f)
            coq = "(CaseCursor %s %s %s %s %s %s %s %s %s)" % (
                cname, qg.coq_regex_table(tab), coq_json(f), coq_nat(ln),
                coq_list([coq_str(i) for i in listed], "str"),
                coq_list([coq_opt(coq_str(i) if i is not None else None) for i in by_index], "(option str)"),
                coq_list(["((%s, %s, %s), %s)" % (coq_optz(st), coq_optz(sp), coq_z(step), coq_list([coq_str(i) for i in ids], "str"))
                          for st, sp, step, ids in slices], "(((option Z * option Z) * Z) * list str)"),
                coq_list(["(%s, %s)" % (coq_str(i), coq_bool(b)) for i, b in contains], "(str * bool)"),
                coq_list([coq_bool(b) for b in outsiders], "bool"))
            cases.append(Case(coq, {"jobs": desc["jobs"], "filters": [tf], "groups": [], "cursor": True},
                              obs={"len": ln, "listed": listed, "by_index": by_index, "slices": [[st, sp, step, ids] for st, sp, step, ids in slices],
                                   "contains": contains, "outsiders": outsiders},
                              nontrivial=ln > 0, key=cname + "C" + json.dumps(tf, sort_keys=True), kinds=["cursor"],
                              prelude=prelude))
        # ---------------- groupby cases
        for g in desc["groups"]:
            if "fn" in g:
                cases.append(run_group_fn(project, recs, cname, prelude, desc, g))
                continue
            key, default, f = g["key"], g["default"], untyped(g["filter"])
            single = isinstance(key, str)
            keys = [key] if single else list(key)
            try:
                cursor_ids = [j.id for j in project.find_jobs(json.loads(json.dumps(f)))]
            except Exception:  # noqa
                cursor_ids = None
            try:
                cur = project.find_jobs(json.loads(json.dumps(f)))
                raw = [(lab, sorted(j.id for j in grp)) for lab, grp in
                       cur.groupby(key if single else tuple(keys), default=default)]
                groups = None
            except Exception as e:  # noqa
                raw = None
                obs = f"(GObsExn {exn_name(e)})"
                obs_desc = exn_name(e)
                nontriv = True
            if raw is not None:
                groups = [(qg_plain(lab), ids) for lab, ids in raw]
                obs = "(GObsGroups %s)" % coq_list(
                    ["(%s, %s)" % (coq_json(lab), coq_list([coq_str(i) for i in ids], "str")) for lab, ids in groups],
                    "(json * list str)")
                obs_desc = [[typed(lab), ids] for lab, ids in groups]
                nontriv = len(groups) >= 2
            tab = qg.regex_table(recs, f)
            coq = "(CaseGroup %s %s %s %s %s %s %s %s %s)" % (
                cname, qg.coq_regex_table(tab), coq_list([coq_str(r["id"]) for r in recs], "str"), coq_json(f),
                coq_bool(single), coq_list([coq_str(k) for k in keys], "str"),
                coq_opt(coq_json(default) if default is not None else None), obs,
                coq_opt(coq_list([coq_str(i) for i in cursor_ids], "str") if cursor_ids is not None else None))
            cases.append(Case(coq, {"jobs": desc["jobs"], "filters": [], "groups": [g]}, obs=obs_desc, nontrivial=nontriv,
                              key=cname + "G" + json.dumps(g, sort_keys=True),
                              kinds=["group", "group-key:" + ("tuple" if not single else ("nested" if "." in key.replace("sp.", "", 1).replace("doc.", "", 1) else "top"))],
                              prelude=prelude))
    return cases


def run_group_fn(project, recs, cname, prelude, desc, g):
    import signac
    f = untyped(g["filter"])
    fn = GROUP_FUNCS[g["fn"]]
    # expected labels: the function applied to a fresh handle of each job through a second Project object
    other = signac.get_project(project.path)
    table = []
    for r in recs:
        job = other.open_job(id=r["id"])
        table.append((r["id"], qg_plain(job.id if fn is None else fn(job))))
    try:
        cursor_ids = [j.id for j in project.find_jobs(json.loads(json.dumps(f)))]
    except Exception:  # noqa
        cursor_ids = None
    try:
        cur = project.find_jobs(json.loads(json.dumps(f)))
        raw = [(lab, sorted(j.id for j in grp)) for lab, grp in (cur.groupby(fn) if fn is not None else cur.groupby())]
        groups = [(qg_plain(lab), ids) for lab, ids in raw]
        obs = "(GObsGroups %s)" % coq_list(
            ["(%s, %s)" % (coq_json(lab), coq_list([coq_str(i) for i in ids], "str")) for lab, ids in groups],
            "(json * list str)")
        obs_desc = [[typed(lab), ids] for lab, ids in groups]
        nontriv = len(groups) >= 2
    except Exception as e:  # noqa
        obs = f"(GObsExn {exn_name(e)})"
        obs_desc = exn_name(e)
        nontriv = True
    coq = "(CaseGroupFn %s %s %s %s %s %s %s)" % (
        cname, qg.coq_regex_table(qg.regex_table(recs, f)), coq_list([coq_str(r["id"]) for r in recs], "str"), coq_json(f),
        coq_list(["(%s, %s)" % (coq_str(i), coq_json(l)) for i, l in table], "(str * json)"), obs,
        coq_opt(coq_list([coq_str(i) for i in cursor_ids], "str") if cursor_ids is not None else None))
    return Case(coq, {"jobs": desc["jobs"], "filters": [], "groups": [g]}, obs=obs_desc, nontrivial=nontriv,
                key=cname + "G" + json.dumps(g, sort_keys=True), kinds=["group", "group-key:function:" + g["fn"]],
                prelude=prelude)


def qg_plain(v):
    if v is None or isinstance(v, (bool, int, float, str)):
        return v
    if hasattr(v, "items"):
        return {k: qg_plain(x) for k, x in v.items()}
    return [qg_plain(x) for x in v]
