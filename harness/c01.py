"""C01 — job id is the canonical, order-independent hash of the state point value."""
import collections
import itertools
import json
import os
import types

from .common import Case, coq_ftab, coq_json, coq_list, coq_str, scratch_dir, to_plain, typed, untyped

PROP = "C01"
IMPORTS = "Base Json MD5 Canon CorrC01"
CASE_TYPE = "case_C01"
MISMATCHES = "mismatches_C01"
VIOLATIONS = "violations_C01"
KNOWN = None
SHARD = 120
RULE = ("state points: golden ids pinned from signac's docs/tests; bounded-exhaustive values over a 16-atom alphabet "
        "(depth<=2 in thorough; sampled in quick); seeded random deep values (ints up to 2^53-1, floats, non-ASCII). "
        "Each value is hashed through calc_id / open_job / init / fresh-session reopen in several key orders and "
        "container spellings (dict, OrderedDict, tuple, list, JSONAttrDict, cached_statepoint view) and compared with the "
        "model id computed in Coq. non-trivial: the value has >=2 keys at some level or a nested container or a "
        "non-ASCII/escaped string or a float; distinct by canonical JSON of the typed value")
TRUSTED = [
    "float.__repr__ modelled by an oracle table (Section variable frepr); validated per entry: ASCII, contains . or e",
    "hashlib.md5 = RFC 1321 (Coq MD5 recomputes every id)",
    "C01_canon_injective assumes of float.__repr__: number characters only, head digit or '-', injective, never an "
    "integer lexeme (asserted for every table entry by harness/common.py:coq_ftab)",
]
ASSUMPTIONS = ["state point strings contain no lone surrogates"]

GOLDEN = [
    ({"constant": 42, "diff1": 0, "diff2": 1}, "c4af2b26f1fd256d70799ad3ce3bdad0"),
    ({"constant": 42, "diff1": 1, "diff2": 1}, "b96b21fada698f8934d58359c72755c0"),
    ({"constant": 42, "diff1": 2, "diff2": 2}, "e4289419d2b0e57e4852d44a09f167c0"),
    ({"a": 0}, "9bfd29df07674bc4aa960cf661b5acd2"),
    ({"a": 1}, "42b7b4f2921788ea14dac5566e6f06d0"),
    ({"b": 1.0}, "0ba6c5a46111313f11c41a6642520451"),
    ({"c": "1.0"}, "80fa45716dd3b83fa970877489beb42e"),
    ({"d": True}, "33cf9999de25a715a56339c6c1b28b41"),
    ({"e": [1.0, "1.0", 1, True]}, "4d8058a305b940005be419b30e99bb53"),
]

ATOMS = [None, True, False, 0, 1, -1, 1.0, 0.5, 1e22, -0.0, "", "1", "é", "\u007f", "\U0001F600", 'a"\\\n']
KEYS = ["a", "b", "c", "B", "é", "a b", "", "aa"]


def rand_value(rng, depth):
    r = rng.random()
    if depth <= 0 or r < 0.45:
        k = rng.random()
        if k < 0.5:
            return rng.choice(ATOMS)
        if k < 0.65:
            return rng.randint(-(2 ** 53 - 1), 2 ** 53 - 1)
        if k < 0.8:
            return rng.choice([rng.uniform(-1e3, 1e3), rng.random() * 10 ** rng.randint(-20, 20), float(rng.randint(-10, 10)), 1e16, 1.5e-7])
        if k < 0.9:
            return "".join(rng.choice("ab é中\U0001F600\"\\\n\t\x01\x7f/.") for _ in range(rng.randint(0, 6)))
        return rng.randint(-5, 5)
    if r < 0.7:
        return [rand_value(rng, depth - 1) for _ in range(rng.randint(0, 3))]
    return rand_dict(rng, depth - 1)


def rand_dict(rng, depth, minlen=0):
    n = rng.randint(minlen, 4)
    keys = rng.sample(KEYS, n)
    return {k: rand_value(rng, depth) for k in keys}


def small_space():
    """Bounded-exhaustive: one or two keys, values atoms / short lists / one-key dicts of atoms."""
    atoms = ATOMS
    for a in atoms:
        yield {"a": a}
    for a, b in itertools.product(atoms, atoms):
        yield {"a": a, "b": b}
        yield {"a": [a, b]}
        yield {"b": {"a": a, "c": b}}


def variants(v):
    """JSON-different neighbours of v (type changes, list order, extra key)."""
    out = []

    def swap(x):
        if x is True:
            return 1
        if x is False:
            return 0
        if isinstance(x, int):
            return float(x) if abs(x) < 2 ** 53 else str(x)
        if isinstance(x, float):
            return int(x) if x == int(x) and repr(x) != "-0.0" else str(x)
        if isinstance(x, str):
            return x + "1"
        if x is None:
            return "null"
        return None

    def walk(x, rebuild):
        if isinstance(x, dict):
            for k in x:
                walk(x[k], lambda nv, k=k: rebuild({**x, k: nv}))
            out.append(rebuild({**x, "zz_extra": 0}))
            if x:
                k0 = next(iter(x))
                out.append(rebuild({k: val for k, val in x.items() if k != k0}))
        elif isinstance(x, list):
            for i in range(len(x)):
                walk(x[i], lambda nv, i=i: rebuild(x[:i] + [nv] + x[i + 1:]))
            if len(x) >= 2 and typed(x[0]) != typed(x[-1]):
                out.append(rebuild(list(reversed(x))))
            out.append(rebuild(x + [None]))
        else:
            s = swap(x)
            if s is not None:
                out.append(rebuild(s))

    walk(v, lambda nv: nv)
    return [o for o in out if isinstance(o, dict)]


def gen_inputs(tier, rng):
    descs = [{"value": typed(v), "golden": g} for v, g in GOLDEN]
    space = list(small_space())
    if tier == "quick":
        space = rng.sample(space, 220)
        nrand = 180
    else:
        nrand = 4000
    descs += [{"value": typed(v)} for v in space]
    for _ in range(nrand):
        descs.append({"value": typed(rand_dict(rng, rng.randint(1, 3), minlen=1)), "pseed": rng.randint(0, 10 ** 9)})
    return descs


def mutate_in_place(x):
    """Change every nested container of x in place (top-level keys are left alone)."""
    def walk(y, top):
        if isinstance(y, dict):
            for k in list(y):
                walk(y[k], False)
            if not top:
                y["zz_mutated"] = 1
        elif isinstance(y, list):
            for e in y:
                walk(e, False)
            y.append("zz_mutated")
    walk(x, True)


def reorder(v, rng, tuples=False):
    if isinstance(v, dict):
        items = [(k, reorder(x, rng, tuples)) for k, x in v.items()]
        rng.shuffle(items)
        return dict(items)
    if isinstance(v, list):
        r = [reorder(x, rng, tuples) for x in v]
        return tuple(r) if tuples else r
    return v


def nontrivial(v):
    def go(x):
        if isinstance(x, dict):
            return len(x) >= 2 or any(go(y) or isinstance(y, (dict, list)) for y in x.values())
        if isinstance(x, list):
            return any(go(y) for y in x) or len(x) > 0
        if isinstance(x, float):
            return True
        if isinstance(x, str):
            return any(ord(c) > 126 or ord(c) < 32 or c in '"\\' for c in x)
        return False
    return go(v)


def run_case(desc):
    import random

    import signac
    from signac.job import calc_id
    from synced_collections.backends.collection_json import JSONAttrDict

    v = untyped(desc["value"])
    rng = random.Random(desc.get("pseed", 1))
    ids = []
    spell = {}
    ids.append(calc_id(v)); spell["dict"] = ids[-1]
    # the definition itself, computed with the standard library only (no signac): MD5 of the canonical JSON text
    # (sorted keys at every level, standard separators, ASCII-escaped)
    import hashlib
    ids.append(hashlib.md5(json.dumps(v, sort_keys=True, ensure_ascii=True, separators=(", ", ": ")).encode("ascii")).hexdigest())
    spell["definition (stdlib)"] = ids[-1]
    for _ in range(4):
        ids.append(calc_id(reorder(v, rng)))
    ids.append(calc_id(reorder(v, rng, tuples=True))); spell["tuple"] = ids[-1]
    ids.append(calc_id(collections.OrderedDict(reversed(list(v.items()))))); spell["OrderedDict-reversed"] = ids[-1]
    ids.append(calc_id(JSONAttrDict(data=reorder(v, rng)))); spell["JSONAttrDict"] = ids[-1]
    file_val = None
    with scratch_dir("c01") as d:
        project = signac.init_project(path=d)
        caller = reorder(v, rng)
        job = project.open_job(caller)
        ids.append(job.id); spell["open_job"] = job.id
        # the hashed value must not alias the caller's data: mutate every nested container in place
        mutate_in_place(caller)
        ids.append(calc_id(dict(job.cached_statepoint))); spell["cached_statepoint"] = ids[-1]
        # the read-only view signac hands out is itself a valid spelling of the state point
        try:
            ids.append(project.open_job(job.cached_statepoint).id)
        except Exception as e:  # noqa
            ids.append("open_job(cached_statepoint) raised " + type(e).__name__)
        spell["open_job(cached_statepoint view)"] = ids[-1]
        job.init()
        names = [n for n in os.listdir(project.workspace)]
        ids.extend(names); spell["dirname"] = names
        ids.append(calc_id(job.statepoint)); spell["synced statepoint"] = ids[-1]
        # fresh session, by id, from the file
        p2 = signac.get_project(d)
        j2 = p2.open_job(id=job.id)
        sp2 = j2.statepoint()
        ids.append(calc_id(sp2)); spell["reopened"] = ids[-1]
        ids.append(p2.open_job(to_plain(sp2)).id)
        with open(os.path.join(project.workspace, job.id, "signac_statepoint.json"), "rb") as fh:
            file_val = json.loads(fh.read())
        ids.append(calc_id(file_val)); spell["file round trip"] = ids[-1]
        for j in p2:
            ids.append(j.id)
    if "golden" in desc:
        ids.append(desc["golden"])
    others = []
    seen = {json.dumps(typed(v), sort_keys=True)}
    for o in variants(v):
        key = json.dumps(typed(o), sort_keys=True)
        if key in seen:
            continue
        seen.add(key)
        others.append((o, calc_id(o)))
        if len(others) >= 6:
            break
    # the same JSON-different variants opened through ONE project handle (ids must not depend on
    # what was opened before)
    with scratch_dir("c01b") as d2:
        proj2 = signac.init_project(path=d2)
        first = proj2.open_job(v).id
        ids.append(first)
        same_session = [(o, proj2.open_job(o).id) for o, _ in others]
        ids.append(proj2.open_job(v).id)
    others = others + same_session
    # the state point setter and update_statepoint: the id, the cached state point and what later sessions
    # read from the persistent cache must describe the assigned value, not the caller's (later mutated) object
    with scratch_dir("c01c") as d3:
        proj3 = signac.init_project(path=d3)
        j0 = proj3.open_job({"zz_seed": 0}).init()
        caller2 = reorder(v, rng)
        j0.statepoint = caller2
        ids.append(j0.id); spell["setter"] = j0.id
        mutate_in_place(caller2)
        jx = proj3.open_job(id=j0.id)
        ids.append(calc_id(dict(jx.cached_statepoint))); spell["setter cached (caller mutated)"] = ids[-1]
        ids.append(calc_id(jx.statepoint()))
        merged_pairs = []
        if "zz_seed" not in v:
            j1 = proj3.open_job({"zz_seed": 1}).init()
            upd = reorder(v, rng)
            merged = dict({"zz_seed": 1}, **v)
            j1.update_statepoint(upd)
            merged_pairs.append((merged, j1.id))
            mutate_in_place(upd)
            merged_pairs.append((merged, calc_id(proj3.open_job(id=j1.id).statepoint())))
        proj3.update_cache()
        p4 = signac.get_project(d3)
        ids.append(calc_id(p4.open_job(id=j0.id).statepoint())); spell["setter, later session"] = ids[-1]
        for m, i in list(merged_pairs[:1]):
            merged_pairs.append((m, calc_id(p4.open_job(id=i).statepoint())))
    others = others + merged_pairs
    # synced-collection spelling that is a LIVE view of a file: the state point's values are taken from a job
    # document; the document changes afterwards; id, state point and directory must keep describing the
    # value at open_job
    if v and all(isinstance(k, str) and k and "." not in k for k in v):
        with scratch_dir("c01d") as d4:
            proj4 = signac.init_project(path=d4)
            owner = proj4.open_job({"zz_owner": 1}).init()
            try:
                owner.doc.params = v
                live = owner.doc.params
            except Exception:  # noqa: values the document cannot hold (e.g. keys it rejects)
                live = None
            if live is not None:
                wrapped = {"zz_w": live}
                jw = proj4.open_job(wrapped)
                target = {"zz_w": v}
                pairs_live = [(target, jw.id)]
                # a synced-collection spelling denotes what its file holds NOW: the document is changed through a
                # second handle of the same job, then the kept collection is used as a state point
                # (the newer value differs by a key: a reload that meets a value comparing == to the one in memory keeps
                # the latter — synced_collections' merge, open finding C04 tag 3 / C05 tag 2 — which is not C01's subject)
                if others:
                    newer = dict(v, zz_newer=1)
                    signac.get_project(d4).open_job(id=owner.id).doc.params = newer
                    try:
                        pairs_live.append(({"zz_w": newer}, proj4.open_job({"zz_w": live}).id))
                    except Exception as e:  # noqa
                        pairs_live.append(({"zz_w": newer}, "open_job(live collection) raised " + type(e).__name__))
                    signac.get_project(d4).open_job(id=owner.id).doc.params = v
                # change the document afterwards
                owner.doc.params = {"zz_changed": True}
                try:
                    mutate_in_place(live)
                except Exception:  # noqa
                    pass
                pairs_live.append((target, calc_id(jw.statepoint())))
                try:
                    jw.init()
                    pairs_live.append((target, calc_id(signac.get_project(d4).open_job(id=jw.id).statepoint())))
                except Exception as e:  # noqa: the implementation's failure is the observation
                    pairs_live.append((target, "init() raised " + type(e).__name__))
                others = others + pairs_live
    # (1) the id is re-derived from the FILE on every load: a state point file rewritten to a JSON-different value
    #     (also one that Python's == cannot tell from the original: 1 / 1.0 / true) must be refused, through every
    #     way of loading it; (2) an in-place change of one top-level value to such a neighbour must re-key the job to
    #     the neighbour's id, in this session and for later ones
    from signac.errors import JobsCorruptedError
    neighbours = [o for o, _ in others[:6] if isinstance(o, dict)]
    same_keys = [o for o in neighbours if list(sorted(o)) == list(sorted(v))
                 and sum(1 for k in v if typed(o[k]) != typed(v[k])) == 1]
    with scratch_dir("c01e") as d5:
        proj5 = signac.init_project(path=d5)
        jt = proj5.open_job(v).init()
        fn = os.path.join(proj5.workspace, jt.id, "signac_statepoint.json")
        original = open(fn, "rb").read()
        for o in same_keys[:3] + [o for o in neighbours if o not in same_keys][:1]:
            with open(fn, "w") as fh:
                json.dump(o, fh)
            fresh = signac.get_project(d5)
            loads = {"init through a handle opened by state point": lambda: fresh.open_job(v).init(),
                     "statepoint of a handle opened by id": lambda: fresh.open_job(id=jt.id).statepoint(),
                     "iteration": lambda: [j.statepoint() for j in signac.get_project(d5)],
                     "init through the creating handle": lambda: jt.init(),
                     "check": lambda: signac.get_project(d5).check()}
            for name, load in loads.items():
                try:
                    with _quiet():
                        load()
                    ids.append("state point file rewritten to %s: accepted under the old id by %s" % (json.dumps(typed(o)), name))
                except JobsCorruptedError:
                    ids.append(jt.id)
                except Exception as e:  # noqa
                    ids.append("state point file rewritten to %s: %s raised %s" % (json.dumps(typed(o)), name, type(e).__name__))
            with open(fn, "wb") as fh:
                fh.write(original)
        inplace = []
        for o in same_keys[:3]:
            k = [k for k in v if typed(o[k]) != typed(v[k])][0]
            jm = signac.get_project(d5).open_job(id=jt.id) if len(inplace) % 2 else proj5.open_job(v)
            jm.init()
            try:
                seen_before = calc_id(dict(jm.cached_statepoint))    # the read-only view is looked at before ...
                ids.append(seen_before)
                jm.sp[k] = o[k]
                got = jm.id
                # ... and after the change, through the same handle
                inplace.append((o, calc_id(dict(jm.cached_statepoint))))
                dirs = sorted(os.listdir(proj5.workspace))
                later = signac.get_project(d5)
                inplace += [(o, got), (o, dirs[0] if len(dirs) == 1 else "workspace holds %r" % dirs),
                            (o, calc_id(later.open_job(id=got).statepoint()))]
                jm.sp[k] = v[k]          # and back
                ids.append(jm.id)
            except Exception as e:  # noqa
                inplace.append((o, "in-place change of %r raised %s" % (k, type(e).__name__)))
                break
        # whole assignment of such a neighbour through a FRESH handle (opened by id in a new session, never read)
        for o in same_keys[:2]:
            try:
                jf = signac.get_project(d5).open_job(id=jt.id)
                jf.statepoint = json.loads(json.dumps(o))
                inplace += [(o, jf.id), (o, calc_id(signac.get_project(d5).open_job(id=jf.id).statepoint()))]
                jb = signac.get_project(d5).open_job(id=jf.id)
                jb.statepoint = json.loads(json.dumps(v))
                ids.append(jb.id)
            except Exception as e:  # noqa
                inplace.append((o, "assignment through a fresh handle raised %s" % type(e).__name__))
                break
        others = others + inplace
    coq = ("{| c1_val := %s; c1_ftab := %s; c1_ids := %s; c1_file := %s; c1_others := %s |}" % (
        coq_json(v), coq_ftab([v, file_val] + [o for o, _ in others]),
        coq_list([coq_str(i) for i in ids], "str"), coq_json(file_val),
        coq_list(["(%s, %s)" % (coq_json(o), coq_str(i)) for o, i in others], "(json * str)")))
    kinds = ["golden" if "golden" in desc else ("random" if "pseed" in desc else "small-scope")]
    return Case(coq, desc, obs={"ids": sorted(set(ids)), "spellings": spell, "file": typed(file_val),
                               "others": [[typed(o), i] for o, i in others]},
                nontrivial=nontrivial(v), key=json.dumps(desc["value"], sort_keys=True), kinds=kinds)


class _quiet:
    """signac logs an error for every corrupted job it meets; keep the check's output readable"""
    def __enter__(self):
        import logging
        logging.disable(logging.CRITICAL)

    def __exit__(self, *a):
        import logging
        logging.disable(logging.NOTSET)


def search(desc):
    """Neighbours of a mismatching input: each top-level key alone, and each pair."""
    v = untyped(desc["value"])
    out = []
    keys = list(v)
    for k in keys:
        out.append({"value": typed({k: v[k]})})
    for a, b in itertools.combinations(keys, 2):
        out.append({"value": typed({a: v[a], b: v[b]})})
        out.append({"value": typed({b: v[b], a: v[a]})})
    return out
