"""File-system interposer for the harness process (no source hooks in /repo).

Inside a ``with Interposer(root) as ip:`` block every *mutating* file-system call that the current
process makes on a path under ``root`` goes through one funnel (``Interposer._event``):

    index k := number of mutating calls so far
    1. ``before(k, op, relpath, relpath2)`` hook   (lock-step scheduling, reader positions)
    2. fault plan: if k is planned, raise ``OSError(errno)`` *before* the call takes effect
    3. the real call
    4. the call is appended to ``ip.trace`` (only when it succeeded)

Patched entry points (restored on exit): ``builtins.open``/``io.open`` (the returned object is a genuine
``io`` stack — TextIOWrapper/BufferedWriter/... — over a ``FileIO`` subclass, so what is recorded is what
reaches ``write(2)``: buffered data shows up at flush/close time, in the chunks the io layer really uses),
``os.open``/``os.write``/``os.close``/``os.ftruncate`` (for descriptors opened under ``root``),
``os.replace/rename/remove/unlink/rmdir/mkdir/symlink/link/utime/chmod/truncate`` (``dir_fd`` forms are
resolved through /proc/self/fd; ``os.makedirs/removedirs/renames`` and ``shutil.*`` are composites of
these and need no patch), and the ``shutil`` fast paths (sendfile / fcopyfile) are switched off so that
copies go through the proxies.  ``tarfile.bltn_open`` is re-pointed too (tarfile captures ``open`` at
import time).  Paths outside ``root`` are passed through untouched (ThreadPool semaphores in /dev/shm ...).

Inode attribution rule (READ THIS when you consume ``ip.trace``)
---------------------------------------------------------------
``write``/``truncate``/``close`` entries belong to an OPEN FILE (``Op.fid``), i.e. to an inode, not to a name.
``Op.path`` of such an entry is the name the file was OPENED under; if the file was renamed (or unlinked) while
the descriptor was still open, later writes land in whatever name the inode has THEN — e.g. ``open(tmp);
os.replace(tmp, target); write(...)`` tears ``target``.  ``Op.cur`` holds the name the inode has at the time of
the entry (``None`` once it is unlinked); it is maintained from the recorded renames/unlinks (directory renames
included).  Rules for consumers: (1) group entries by ``fid``, never by ``path``; (2) a write episode of a file
ends at the LAST entry of its ``fid`` (normally the ``close``), not at the rename; (3) decide which on-disk
name a write damages with ``Op.cur``; (4) materialised crash states are always right because the replay keeps
real descriptors open across renames (``_apply``) — classify them against the state at the end of the
episode, not against the state right after the rename; (5) any mutating entry that your translation to the
model does not consume is a broken correspondence, not something to skip.

Modes
-----
trace        ``ip.trace`` is a list of :class:`Op`.  ``ip.check_complete()`` replays the trace on the copy
             of the pre-state taken at ``__enter__`` and compares the result byte for byte with the real
             post-state; a non-empty answer means an unobserved mutation = broken correspondence.
crash states ``ip.crash_points()`` enumerates every prefix of the trace, the last write torn at offsets
             {0, 1, middle, len-1}; ``ip.materialise(cp, dest)`` builds that state on a copy of the
             pre-state; ``ip.crash_states(workdir)`` yields ``(CrashPoint, directory)`` pairs.
faults       ``Interposer(root, faults={k: errno.ENOSPC})``: the k-th mutating call raises before taking
             effect.  ``ip.nevents`` after a clean run tells how many positions there are.
hooks        ``Interposer(root, before=f)``: ``f(k, opname, rel1, rel2)`` runs before the k-th mutating
             call (and, with ``observe_reads=True``, before read-only ``open``/``listdir`` under root,
             which get their own indices in ``ip.trace`` as non-mutating ops).  :class:`LockStep` uses it
             to schedule forked actor processes call by call.

Helpers: :func:`snapshot` (sorted ``(relpath, kind, bytes|target)``), :func:`norm_tmp` (``._<uuid>_x`` ->
``._TMP_x``), :func:`diff_snapshots`.
"""
import builtins
import errno as _errno
import io
import os
import re
import select
import shutil
import stat as _stat
import struct
import sys
import threading
import traceback

_UUID = re.compile(r"\._[0-9a-f]{8}-[0-9a-f]{4}-[0-9a-f]{4}-[0-9a-f]{4}-[0-9a-f]{12}_")

# originals, captured once at import time (before any patching)
_O = {
    "open": builtins.open, "os.open": os.open, "os.write": os.write, "os.close": os.close,
    "os.ftruncate": os.ftruncate, "os.replace": os.replace, "os.rename": os.rename,
    "os.remove": os.remove, "os.unlink": os.unlink, "os.rmdir": os.rmdir, "os.mkdir": os.mkdir,
    "os.symlink": os.symlink, "os.link": os.link, "os.utime": os.utime, "os.chmod": os.chmod,
    "os.truncate": os.truncate, "os.listdir": os.listdir,
}

MUTATING = ("open", "write", "truncate", "close", "mkdir", "rmdir", "unlink", "rename", "symlink",
            "link", "utime", "chmod")


def norm_tmp(name):
    """Rewrite the uuid of a synced_collections temp file name: ``._<uuid>_x`` -> ``._TMP_x``."""
    return _UUID.sub("._TMP_", name)


def snapshot(root, normalise=False):
    """Sorted list of ``(relpath, kind, content)``; kind in file/dir/link; content bytes (file), link
    target (link) or b"" (dir).  Uses the original (unpatched) functions."""
    out = []
    for dirpath, dirnames, filenames in os.walk(root):
        dirnames.sort()
        rel = os.path.relpath(dirpath, root)
        for d in list(dirnames):
            p = os.path.join(dirpath, d)
            r = os.path.normpath(os.path.join(rel, d))
            if os.path.islink(p):
                out.append((r, "link", os.readlink(p).encode()))
                dirnames.remove(d)
            else:
                out.append((r, "dir", b""))
        for f in sorted(filenames):
            p = os.path.join(dirpath, f)
            r = os.path.normpath(os.path.join(rel, f))
            if os.path.islink(p):
                out.append((r, "link", os.readlink(p).encode()))
            else:
                with _O["open"](p, "rb") as fh:
                    out.append((r, "file", fh.read()))
    if normalise:
        out = [(norm_tmp(r), k, c) for r, k, c in out]
    out.sort()
    return out


def diff_snapshots(a, b):
    """Human-readable differences between two snapshots (empty list = equal)."""
    da = {r: (k, c) for r, k, c in a}
    db = {r: (k, c) for r, k, c in b}
    out = []
    for r in sorted(set(da) | set(db)):
        if da.get(r) != db.get(r):
            x, y = da.get(r), db.get(r)
            out.append("%s: %s != %s" % (r, None if x is None else (x[0], x[1][:40]), None if y is None else (y[0], y[1][:40])))
    return out


class Op:
    """One recorded call.  ``op`` is one of MUTATING (or ``ropen``/``listdir`` when reads are observed);
    ``path``/``path2`` are relative to the interposer root; ``fid`` identifies the open file of
    open/write/truncate/close; ``data`` are the bytes of a write; ``offset`` its file position (None when
    the descriptor is in append mode); ``flags`` is a dict for ``open`` (creat/trunc/excl/append) or holds
    size/mode/times/target for truncate/chmod/utime/symlink."""

    __slots__ = ("index", "op", "path", "path2", "fid", "data", "offset", "flags", "cur")

    def __init__(self, index, op, path=None, path2=None, fid=None, data=None, offset=None, flags=None):
        self.index, self.op, self.path, self.path2 = index, op, path, path2
        self.fid, self.data, self.offset, self.flags = fid, data, offset, flags or {}
        self.cur = path      # for fid entries: the name the inode has now (set by Interposer._post)

    def mutating(self):
        return self.op in MUTATING

    def brief(self, normalise=True):
        f = norm_tmp if normalise else (lambda s: s)
        parts = [self.op]
        if self.path is not None:
            parts.append(f(self.path))
        if self.path2 is not None:
            parts.append(f(self.path2))
        if self.op == "write":
            parts.append("fid=%s len=%d" % (self.fid, len(self.data)))
        if self.fid is not None and self.op != "open" and self.cur != self.path:
            parts.append("now=%s" % (f(self.cur) if self.cur else None))
        if self.op == "open":
            parts.append("fid=%s %s" % (self.fid, "+".join(k for k, v in sorted(self.flags.items()) if v)))
        return " ".join(parts)

    def __repr__(self):
        return "<Op %d %s>" % (self.index, self.brief())


class CrashPoint:
    """A crash state: the first ``nops`` trace entries completed; if ``torn`` is not None the entry with
    index ``nops`` is a write of which only the first ``torn`` bytes reached the file."""

    __slots__ = ("nops", "torn", "torn_class")

    def __init__(self, nops, torn=None, torn_class=None):
        self.nops, self.torn, self.torn_class = nops, torn, torn_class

    def label(self):
        return "%d" % self.nops if self.torn is None else "%d+%s(%d)" % (self.nops, self.torn_class, self.torn)

    def __repr__(self):
        return "<CrashPoint %s>" % self.label()


def torn_offsets(n):
    """Classes of torn offsets of a write of n bytes: 0, 1, middle, n-1 (distinct, < n)."""
    out = []
    for cls, off in (("0", 0), ("1", 1), ("mid", n // 2), ("last", n - 1)):
        if 0 <= off < n and off not in [o for _, o in out]:
            out.append((cls, off))
    return out


class _TracedFileIO(io.FileIO):
    """FileIO whose write/truncate/close go through the interposer funnel."""

    def __init__(self, ip, file, mode, fid, rel, closefd=True):
        self._ip, self._fid, self._rel = ip, fid, rel
        self._append = "a" in mode
        self._closed_evt = False
        super().__init__(file, mode, closefd=closefd)

    def write(self, b):
        ip = self._ip
        if ip is None or not ip.active:
            return super().write(b)
        data = bytes(b)
        off = None if self._append else self.tell()
        k = ip._pre("write", self._rel, None)
        n = super().write(b)
        n = len(data) if n is None else n
        ip._post(Op(k, "write", self._rel, fid=self._fid, data=data[:n], offset=off))
        return n

    def truncate(self, size=None):
        ip = self._ip
        if ip is None or not ip.active:
            return super().truncate(size)
        size = self.tell() if size is None else size
        k = ip._pre("truncate", self._rel, None)
        r = super().truncate(size)
        ip._post(Op(k, "truncate", self._rel, fid=self._fid, flags={"size": size}))
        return r

    def close(self):
        ip = self._ip
        if self.closed or self._closed_evt or ip is None or not ip.active:
            return super().close()
        self._closed_evt = True
        try:
            k = ip._pre("close", self._rel, None)
        except OSError:
            super().close()      # an injected fault on close still releases the descriptor
            raise
        super().close()
        ip._post(Op(k, "close", self._rel, fid=self._fid))


class Interposer:
    """See the module docstring.  Parameters: ``root`` scratch directory to watch; ``faults`` mapping
    ``event index -> errno`` (or a callable ``(k, op, rel, rel2) -> errno|None``); ``before`` hook;
    ``keep_pre`` copy the pre-state at entry (needed for check_complete / crash states);
    ``observe_reads`` also hook read-only open()/listdir() under root (non-mutating trace entries)."""

    def __init__(self, root, faults=None, before=None, keep_pre=True, observe_reads=False, pre_dir=None):
        self.root = os.path.realpath(root)
        self.faults = faults or {}
        self.before = before
        self.keep_pre = keep_pre
        self.observe_reads = observe_reads
        self.pre_dir = pre_dir
        self._own_pre = False
        self.trace = []
        self.nevents = 0           # number of hooked calls so far (mutating, plus reads when observed)
        self.injected = []         # (index, op, errno) of faults actually raised
        self.active = False
        self._lock = threading.RLock()
        self._fds = {}             # os-level fd -> (fid, rel, append)
        self._fidpath = {}         # fid -> current name of the inode (None = unlinked)
        self._nfid = 0
        self._saved = {}
        self._in_hook = threading.local()

    # ------------------------------------------------------------------ paths
    def _rel(self, path, dir_fd=None):
        """Relative path under root, or None when the path is not ours."""
        try:
            if isinstance(path, int):
                return None
            p = os.fspath(path)
            if isinstance(p, bytes):
                p = os.fsdecode(p)
            if dir_fd is not None and not os.path.isabs(p):
                p = os.path.join(os.readlink("/proc/self/fd/%d" % dir_fd), p)
            if not os.path.isabs(p):
                p = os.path.join(os.getcwd(), p)
            d, b = os.path.split(os.path.normpath(p))
            p = os.path.join(os.path.realpath(d), b)      # resolve the directory part only (not a final link)
        except (TypeError, OSError):
            return None
        if p == self.root:
            return "."
        if p.startswith(self.root + os.sep):
            return p[len(self.root) + 1:]
        return None

    # ------------------------------------------------------------------ funnel
    def _pre(self, op, rel, rel2):
        """Steps 1+2 of the funnel; returns the event index."""
        with self._lock:
            k = self.nevents
            self.nevents += 1
        if self.before is not None and not getattr(self._in_hook, "on", False):
            self._in_hook.on = True
            try:
                self.before(k, op, rel, rel2)
            finally:
                self._in_hook.on = False
        e = self.faults(k, op, rel, rel2) if callable(self.faults) else self.faults.get(k)
        if e:
            self.injected.append((k, op, e))
            raise OSError(e, os.strerror(e), os.path.join(self.root, rel) if rel else None)
        return k

    def _post(self, op):
        with self._lock:
            # inode attribution: follow the names of open files through renames and unlinks
            fp = self._fidpath
            if op.op == "open":
                fp[op.fid] = op.path
            elif op.op == "rename" and op.path is not None and op.path2 is not None:
                for fid, p in list(fp.items()):
                    if p is None:
                        continue
                    if p == op.path2 or p.startswith(op.path2 + os.sep):
                        fp[fid] = None if p == op.path2 else p       # the old file at the destination loses its name
                    if p == op.path:
                        fp[fid] = op.path2
                    elif p.startswith(op.path + os.sep):
                        fp[fid] = op.path2 + p[len(op.path):]
            elif op.op == "unlink":
                for fid, p in list(fp.items()):
                    if p == op.path:
                        fp[fid] = None
            if op.fid is not None and op.op != "open":
                op.cur = fp.get(op.fid, op.path)
                if op.op == "close":
                    fp.pop(op.fid, None)
            self.trace.append(op)

    def _simple(self, name, opname, nargs):
        orig = _O[name]
        ip = self

        def patched(*args, **kw):
            if not ip.active:
                return orig(*args, **kw)
            if nargs == 2:
                a0 = args[0] if args else kw.get("src")
                a1 = args[1] if len(args) > 1 else kw.get("dst")
                args = (a0, a1) + tuple(args[2:])
                kw = {k_: v_ for k_, v_ in kw.items() if k_ not in ("src", "dst")}
                r1 = None if opname == "symlink" else ip._rel(a0, kw.get("src_dir_fd"))
                r2 = ip._rel(a1, kw.get("dir_fd") if opname == "symlink" else kw.get("dst_dir_fd"))
                if opname == "symlink":
                    # os.symlink(target, linkpath): only the link path is a location
                    if r2 is None:
                        return orig(*args, **kw)
                    k = ip._pre(opname, r2, None)
                    res = orig(*args, **kw)
                    ip._post(Op(k, opname, r2, flags={"target": os.fspath(args[0])}))
                    return res
                if r1 is None and r2 is None:
                    return orig(*args, **kw)
                k = ip._pre(opname, r1, r2)
                res = orig(*args, **kw)
                ip._post(Op(k, opname, r1, r2, flags={"abs1": os.fspath(args[0]) if r1 is None else None}))
                return res
            r1 = ip._rel(args[0], kw.get("dir_fd"))
            if r1 is None:
                return orig(*args, **kw)
            k = ip._pre(opname, r1, None)
            res = orig(*args, **kw)
            fl = {}
            if opname == "truncate":
                fl = {"size": args[1] if len(args) > 1 else kw.get("length")}
            elif opname == "chmod":
                fl = {"mode": args[1] if len(args) > 1 else kw.get("mode")}
            elif opname == "utime":
                fl = {"times": args[1] if len(args) > 1 else kw.get("times"), "ns": kw.get("ns")}
            elif opname == "mkdir":
                fl = {"mode": args[1] if len(args) > 1 else kw.get("mode", 0o777)}
            ip._post(Op(k, opname, r1, flags=fl))
            return res

        patched.__name__ = name.split(".")[-1]
        return patched

    # ------------------------------------------------------------------ open()
    def _make_open(self):
        orig = _O["open"]
        ip = self

        def traced_open(file, mode="r", buffering=-1, encoding=None, errors=None, newline=None,
                        closefd=True, opener=None):
            if not ip.active or opener is not None:
                return orig(file, mode, buffering, encoding, errors, newline, closefd, opener)
            fid = rel = None
            if isinstance(file, int):
                ent = ip._fds.get(file)
                if ent is None:
                    return orig(file, mode, buffering, encoding, errors, newline, closefd, opener)
                fid, rel, _ = ent
            else:
                rel = ip._rel(file)
                if rel is None:
                    return orig(file, mode, buffering, encoding, errors, newline, closefd, opener)
            modes = set(mode)
            writing = bool(modes & set("wax+"))
            if not writing:
                if ip.observe_reads and not isinstance(file, int):
                    k = ip._pre("ropen", rel, None)
                    f = orig(file, mode, buffering, encoding, errors, newline, closefd, opener)
                    ip._post(Op(k, "ropen", rel))
                    return f
                return orig(file, mode, buffering, encoding, errors, newline, closefd, opener)
            binary = "b" in modes
            if binary and (encoding is not None or errors is not None or newline is not None):
                raise ValueError("binary mode doesn't take an encoding/errors/newline argument")
            rawmode = "".join(c for c in mode if c in "rwax+")
            if isinstance(file, int):
                raw = _TracedFileIO(ip, file, rawmode, fid, rel, closefd=closefd)
                if closefd:
                    ip._fds.pop(file, None)
            else:
                with ip._lock:
                    ip._nfid += 1
                    fid = ip._nfid
                existed = os.path.lexists(os.fspath(file))
                k = ip._pre("open", rel, None)
                raw = _TracedFileIO(ip, file, rawmode, fid, rel)
                ip._post(Op(k, "open", rel, fid=fid, flags={
                    "creat": bool(modes & set("wax")), "trunc": "w" in modes, "excl": "x" in modes,
                    "append": "a" in modes, "existed": existed}))
            try:
                line_buffering = False
                if buffering == 1 or (buffering < 0 and raw.isatty()):
                    buffering = -1
                    line_buffering = True
                if buffering < 0:
                    buffering = io.DEFAULT_BUFFER_SIZE
                    try:
                        bs = os.fstat(raw.fileno()).st_blksize
                        if bs > 1:
                            buffering = bs
                    except (OSError, AttributeError):
                        pass
                if buffering == 0:
                    if binary:
                        return raw
                    raise ValueError("can't have unbuffered text I/O")
                if "+" in modes:
                    buf = io.BufferedRandom(raw, buffering)
                else:
                    buf = io.BufferedWriter(raw, buffering)
                if binary:
                    return buf
                text = io.TextIOWrapper(buf, encoding, errors, newline, line_buffering)
                text.mode = mode
                return text
            except BaseException:
                raw.close()
                raise

        return traced_open

    def _make_os_open(self):
        orig = _O["os.open"]
        ip = self

        def os_open(path, flags, mode=0o777, *, dir_fd=None):
            if not ip.active:
                return orig(path, flags, mode, dir_fd=dir_fd)
            rel = ip._rel(path, dir_fd)
            acc = flags & os.O_ACCMODE
            writing = acc in (os.O_WRONLY, os.O_RDWR) or flags & (os.O_CREAT | os.O_TRUNC)
            if rel is None or not writing or flags & getattr(os, "O_DIRECTORY", 0):
                return orig(path, flags, mode, dir_fd=dir_fd)
            with ip._lock:
                ip._nfid += 1
                fid = ip._nfid
            k = ip._pre("open", rel, None)
            fd = orig(path, flags, mode, dir_fd=dir_fd)
            ip._fds[fd] = (fid, rel, bool(flags & os.O_APPEND))
            ip._post(Op(k, "open", rel, fid=fid, flags={
                "creat": bool(flags & os.O_CREAT), "trunc": bool(flags & os.O_TRUNC),
                "excl": bool(flags & os.O_EXCL), "append": bool(flags & os.O_APPEND), "mode": mode}))
            return fd

        def os_write(fd, data):
            ent = ip._fds.get(fd) if ip.active else None
            if ent is None:
                return _O["os.write"](fd, data)
            fid, rel, app = ent
            data = bytes(data)
            off = None if app else os.lseek(fd, 0, os.SEEK_CUR)
            k = ip._pre("write", rel, None)
            n = _O["os.write"](fd, data)
            ip._post(Op(k, "write", rel, fid=fid, data=data[:n], offset=off))
            return n

        def os_close(fd):
            ent = ip._fds.get(fd) if ip.active else None
            if ent is None:
                return _O["os.close"](fd)
            fid, rel, _ = ent
            ip._fds.pop(fd, None)
            try:
                k = ip._pre("close", rel, None)
            except OSError:
                _O["os.close"](fd)
                raise
            _O["os.close"](fd)
            ip._post(Op(k, "close", rel, fid=fid))

        def os_ftruncate(fd, length):
            ent = ip._fds.get(fd) if ip.active else None
            if ent is None:
                return _O["os.ftruncate"](fd, length)
            fid, rel, _ = ent
            k = ip._pre("truncate", rel, None)
            _O["os.ftruncate"](fd, length)
            ip._post(Op(k, "truncate", rel, fid=fid, flags={"size": length}))

        def os_listdir(path="."):
            rel = ip._rel(path) if (ip.active and ip.observe_reads and not isinstance(path, int)) else None
            if rel is None:
                return _O["os.listdir"](path)
            k = ip._pre("listdir", rel, None)
            res = _O["os.listdir"](path)
            ip._post(Op(k, "listdir", rel))
            return res

        return os_open, os_write, os_close, os_ftruncate, os_listdir

    # ------------------------------------------------------------------ enter / exit
    def __enter__(self):
        if self.keep_pre and self.pre_dir is None:
            base = os.path.dirname(self.root)
            self.pre_dir = os.path.join(base, ".pre-%s-%d-%d" % (os.path.basename(self.root), os.getpid(), id(self)))
            shutil.copytree(self.root, self.pre_dir, symlinks=True)
            self._own_pre = True
        topen = self._make_open()
        o_open, o_write, o_close, o_ftrunc, o_listdir = self._make_os_open()
        patches = [
            (builtins, "open", topen), (io, "open", topen),
            (os, "open", o_open), (os, "write", o_write), (os, "close", o_close), (os, "ftruncate", o_ftrunc),
            (os, "replace", self._simple("os.replace", "rename", 2)),
            (os, "rename", self._simple("os.rename", "rename", 2)),
            (os, "remove", self._simple("os.remove", "unlink", 1)),
            (os, "unlink", self._simple("os.unlink", "unlink", 1)),
            (os, "rmdir", self._simple("os.rmdir", "rmdir", 1)),
            (os, "mkdir", self._simple("os.mkdir", "mkdir", 1)),
            (os, "symlink", self._simple("os.symlink", "symlink", 2)),
            (os, "link", self._simple("os.link", "link", 2)),
            (os, "utime", self._simple("os.utime", "utime", 1)),
            (os, "chmod", self._simple("os.chmod", "chmod", 1)),
            (os, "truncate", self._simple("os.truncate", "truncate", 1)),
            (shutil, "_USE_CP_SENDFILE", False), (shutil, "_HAS_FCOPYFILE", False),
        ]
        if self.observe_reads:
            patches.append((os, "listdir", o_listdir))
        if hasattr(shutil, "_USE_CP_COPY_FILE_RANGE"):
            patches.append((shutil, "_USE_CP_COPY_FILE_RANGE", False))
        if "tarfile" in sys.modules:
            patches.append((sys.modules["tarfile"], "bltn_open", topen))
        self._saved = [(m, a, getattr(m, a)) for m, a, _ in patches if hasattr(m, a)]
        for m, a, v in patches:
            if hasattr(m, a):
                setattr(m, a, v)
        self.active = True
        return self

    def __exit__(self, *exc):
        self.active = False
        for m, a, v in reversed(self._saved):
            setattr(m, a, v)
        self._saved = []
        return False

    def cleanup(self):
        """Remove the copy of the pre-state (if this interposer made it)."""
        if self._own_pre and self.pre_dir and os.path.isdir(self.pre_dir):
            shutil.rmtree(self.pre_dir, ignore_errors=True)
        self._own_pre = False

    # ------------------------------------------------------------------ replay, crash states
    def mutations(self):
        """The mutating entries of the trace, in order."""
        return [o for o in self.trace if o.mutating()]

    @staticmethod
    def _apply(dest, op, fds, torn=None):
        """Apply one recorded op below ``dest``; ``fds`` maps fid -> real descriptor kept open so that
        writes follow the inode across renames exactly as in the traced run."""
        P = lambda r: os.path.join(dest, r)   # noqa: E731
        o = op.op
        if o == "open":
            fl = os.O_RDWR
            if op.flags.get("creat"):
                fl |= os.O_CREAT
            if op.flags.get("trunc"):
                fl |= os.O_TRUNC
            if op.flags.get("excl"):
                fl |= os.O_EXCL
            if op.flags.get("append"):
                fl |= os.O_APPEND
            fds[op.fid] = _O["os.open"](P(op.path), fl, 0o666)
        elif o == "write":
            fd = fds[op.fid]
            data = op.data if torn is None else op.data[:torn]
            if op.offset is not None:
                os.lseek(fd, op.offset, os.SEEK_SET)
            while data:
                n = _O["os.write"](fd, data)
                data = data[n:]
        elif o == "truncate":
            if op.fid is not None and op.fid in fds:
                _O["os.ftruncate"](fds[op.fid], op.flags["size"])
            else:
                _O["os.truncate"](P(op.path), op.flags["size"])
        elif o == "close":
            fd = fds.pop(op.fid, None)
            if fd is not None:
                _O["os.close"](fd)
        elif o == "mkdir":
            _O["os.mkdir"](P(op.path))
        elif o == "rmdir":
            _O["os.rmdir"](P(op.path))
        elif o == "unlink":
            _O["os.unlink"](P(op.path))
        elif o == "rename":
            src = P(op.path) if op.path is not None else op.flags.get("abs1")
            _O["os.replace"](src, P(op.path2))
        elif o == "symlink":
            _O["os.symlink"](op.flags["target"], P(op.path))
        elif o == "link":
            _O["os.link"](P(op.path), P(op.path2))
        elif o in ("utime", "chmod"):
            if o == "chmod" and op.flags.get("mode") is not None:
                _O["os.chmod"](P(op.path), op.flags["mode"])

    def materialise(self, cp, dest, pre_dir=None):
        """Build crash state ``cp`` in the (not yet existing) directory ``dest`` from the pre-state."""
        shutil.copytree(pre_dir or self.pre_dir, dest, symlinks=True)
        muts = self.mutations()
        fds = {}
        try:
            for op in muts[:cp.nops]:
                self._apply(dest, op, fds)
            if cp.torn is not None:
                self._apply(dest, muts[cp.nops], fds, torn=cp.torn)
        finally:
            for fd in fds.values():
                try:
                    _O["os.close"](fd)
                except OSError:
                    pass
        return dest

    def crash_points(self, torn=True):
        """Every prefix of the mutating trace (0..n ops done) and, for every write, the torn variants."""
        muts = self.mutations()
        out = []
        for k in range(len(muts) + 1):
            out.append(CrashPoint(k))
            if torn and k < len(muts) and muts[k].op == "write":
                for cls, off in torn_offsets(len(muts[k].data)):
                    if off == 0:
                        continue        # identical to the prefix state just emitted
                    out.append(CrashPoint(k, off, cls))
        return out

    def crash_states(self, workdir, torn=True):
        """Yield ``(CrashPoint, directory)``; the directory is a fresh copy and is removed afterwards."""
        for i, cp in enumerate(self.crash_points(torn)):
            dest = os.path.join(workdir, "crash-%d" % i)
            self.materialise(cp, dest)
            try:
                yield cp, dest
            finally:
                shutil.rmtree(dest, ignore_errors=True)

    def check_complete(self, workdir=None):
        """Completeness self-check: replay(trace, pre-state) must equal the real post-state byte for byte.
        Returns a list of differences (empty = complete)."""
        base = workdir or os.path.dirname(self.root)
        dest = os.path.join(base, ".replay-%d-%d" % (os.getpid(), id(self)))
        try:
            try:
                self.materialise(CrashPoint(len(self.mutations())), dest)
            except OSError as e:
                return ["replay failed: %r" % (e,)]
            return diff_snapshots(snapshot(self.root), snapshot(dest))
        finally:
            shutil.rmtree(dest, ignore_errors=True)


# ---------------------------------------------------------------------- lock-step scheduling
class LockStep:
    """Run actors as forked processes whose interposed calls are granted one at a time.

    ``actors`` is a list of callables ``f() -> JSON-able result``; each runs in its own forked process inside
    an ``Interposer(root, before=..., observe_reads=...)`` whose hook announces the pending call on a pipe
    and blocks until the scheduler grants it.  ``run(schedule)`` takes a list of actor indices; at each
    position the named actor performs exactly one hooked call (if it has finished, or the schedule is
    exhausted, the remaining actors run to completion round-robin in index order).  Returns a dict with
    ``results`` (per actor: ("ok", value) | ("exc", class name, text)), ``steps`` (the realised schedule
    as ``(actor, op, rel, rel2)``) and ``counts`` (hooked calls per actor).  ``count_steps()`` runs the actors
    one after the other on a copy to learn how many steps each has (to enumerate schedules).
    """

    def __init__(self, root, actors, observe_reads=True, timeout=60.0):
        self.root, self.actors, self.observe_reads, self.timeout = root, list(actors), observe_reads, timeout

    @staticmethod
    def _send(fd, obj):
        import pickle
        b = pickle.dumps(obj)
        _O["os.write"](fd, struct.pack("<I", len(b)) + b)

    @staticmethod
    def _recv(fd):
        import pickle
        hdr = b""
        while len(hdr) < 4:
            c = os.read(fd, 4 - len(hdr))
            if not c:
                return None
            hdr += c
        n = struct.unpack("<I", hdr)[0]
        buf = b""
        while len(buf) < n:
            c = os.read(fd, n - len(buf))
            if not c:
                return None
            buf += c
        return pickle.loads(buf)

    def _child(self, i, up_w, down_r):
        def before(k, op, rel, rel2):
            self._send(up_w, ("step", op, rel, rel2))
            os.read(down_r, 1)

        try:
            with Interposer(self.root, before=before, keep_pre=False, observe_reads=self.observe_reads):
                val = self.actors[i]()
            self._send(up_w, ("done", ("ok", val)))
        except BaseException as e:  # noqa: BLE001
            self._send(up_w, ("done", ("exc", type(e).__name__, "".join(traceback.format_exception_only(type(e), e)).strip())))
        finally:
            os._exit(0)

    def run(self, schedule):
        n = len(self.actors)
        chans, pids = [], []
        for i in range(n):
            up_r, up_w = os.pipe()
            down_r, down_w = os.pipe()
            pid = os.fork()
            if pid == 0:
                _O["os.close"](up_r)
                _O["os.close"](down_w)
                self._child(i, up_w, down_r)
            _O["os.close"](up_w)
            _O["os.close"](down_r)
            chans.append((up_r, down_w))
            pids.append(pid)
        pending = [None] * n      # announced but not yet granted call
        results = [None] * n
        counts = [0] * n
        steps = []

        def wait_for(i):
            """Block until actor i has announced a call or finished."""
            while pending[i] is None and results[i] is None:
                r, _, _ = select.select([chans[i][0]], [], [], self.timeout)
                if not r:
                    results[i] = ("exc", "Timeout", "actor %d did not reach a step" % i)
                    return
                msg = self._recv(chans[i][0])
                if msg is None:
                    results[i] = results[i] or ("exc", "Died", "actor %d exited" % i)
                elif msg[0] == "step":
                    pending[i] = msg[1:]
                else:
                    results[i] = msg[1]

        def grant(i):
            op = pending[i]
            pending[i] = None
            counts[i] += 1
            steps.append((i,) + tuple(op))
            _O["os.write"](chans[i][1], b"g")

        try:
            for i in range(n):
                wait_for(i)
            for a in schedule:
                if results[a] is not None:
                    continue
                grant(a)
                wait_for(a)
            while any(r is None for r in results):
                for i in range(n):
                    if results[i] is None:
                        grant(i)
                        wait_for(i)
        finally:
            for (r, w), pid in zip(chans, pids):
                for fd in (r, w):
                    try:
                        _O["os.close"](fd)
                    except OSError:
                        pass
                try:
                    os.waitpid(pid, 0)
                except ChildProcessError:
                    pass
        return {"results": results, "steps": steps, "counts": counts}
