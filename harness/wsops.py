"""Executor of the Ws.v operation language on the REAL signac, and emitter of the matching Gallina
literals (ops of type `op`, observations of type `oval`).  Shared by C02 and C04 (and usable by later
workspace-level properties).

An op is a JSON-able list: ["NewSession", root] | ["OpenSp", s, typed_sp] | ["OpenId", s, id] |
["Init", h, force] | ["Sp", h] | ["Cached", h] | ["Repr", h] (= Cached, read through repr(job)) | ["IdPath", h] | ["Doc", h] | ["DocReset", h, typed_doc] |
["WriteFile", h, [rel...], hexbytes] | ["PlantDir", [path...]] | ["PlantFile", [path...], hexbytes] |
["Ids", s] | ["Len", s] | ["Contains", s, h] | ["Copy", h] | ["DeepCopy", h] | ["Pickle", h] |
["Edit", h, [steps...], act] | ["Assign", h, typed_sp] | ["UpdateSp", h, typed_u, overwrite] |
["Move", h, s] | ["Clone", s, h] | ["Tree"] | ["Quiet"] | ["MutateArg", h, key, typed_value, nested]
(MutateArg / ["MutateAssigned", h, key, typed_value, nested] are harness-only: they mutate the mapping that was
passed to open_job / to the state point setter or update_statepoint; the model has no counterpart because
Gallina values cannot alias).
steps: ["k", key] | ["i", index];  act: ["set", key, typed_v] | ["del", key] | ["seti", idx, typed_v] | ["append", typed_v]
"""
import copy
import json
import logging
import os
import pickle
import re
import time

from .common import (coq_bool, coq_json, coq_list, coq_nat, coq_opt, exn_name, floats_in, to_plain, typed,
                     untyped)

SPF = "signac_statepoint.json"
SPT = "signac_statepoint.json~"
DOCF = "signac_job_document.json"
WSN = "workspace"
DOTSIG = ".signac"
CACHEFN = "statepoint_cache.json.gz"
JSON_NAMES = (SPF, SPT, DOCF)
_TMP = re.compile(r"^\._[0-9a-f]{8}-[0-9a-f]{4}-[0-9a-f]{4}-[0-9a-f]{4}-[0-9a-f]{12}_")
_HEX32 = re.compile(r"^[0-9a-f]{32}$")


class Lit:
    """Gallina literal emitter with a per-case table of abbreviations for ids and file names."""

    def __init__(self):
        self.ids = {}
        self.floats = set()

    def s(self, text):
        if isinstance(text, bytes):
            text = text.decode("latin-1")
        if text == SPF:
            return "SPF"
        if text == SPT:
            return "SPT"
        if text == DOCF:
            return "DOCF"
        if text == WSN:
            return "WS"
        if text == DOTSIG:
            return "DOTSIG"
        if text == CACHEFN:
            return "CACHEFN"
        if _HEX32.fullmatch(text):
            if text not in self.ids:
                self.ids[text] = f"i{len(self.ids)}"
            return self.ids[text]
        if not text:
            return "(@nil N)"
        return "[" + ";".join(str(ord(c)) for c in text) + "]%N"

    def bytes_(self, b):
        if not b:
            return "(@nil N)"
        return "[" + ";".join(str(x) for x in b) + "]%N"

    def path(self, comps):
        return coq_list([self.s(c) for c in comps], "str")

    def json(self, v):
        floats_in(v, self.floats)
        return coq_json(v)

    def wrap(self, body):
        """let-bind the abbreviations around a record literal."""
        out = body
        for text, name in reversed(list(self.ids.items())):
            lit = "[" + ";".join(str(ord(c)) for c in text) + "]%N"
            out = f"(let {name} : str := {lit} in {out})"
        return out

    def ftab(self):
        acc = self.floats
        for (_, lex) in acc:
            assert lex.isascii() and any(t in lex for t in (".", "e", "inf", "nan")), lex
        assert len({me for me, _ in acc}) == len({lex for _, lex in acc}) == len(acc)
        items = [f"((({m})%Z, ({e})%Z), {Lit.plain(lex)})" for ((m, e), lex) in sorted(acc)]
        return coq_list(items, "(fl * str)")

    @staticmethod
    def plain(text):
        return "[" + ";".join(str(ord(c)) for c in text) + "]%N" if text else "(@nil N)"


def coq_step(L, st):
    return f"(PKey {L.s(st[1])})" if st[0] == "k" else f"(PIdx {coq_nat(st[1])})"


def coq_act(L, a):
    k = a[0]
    if k == "set":
        return f"(ESetKey {L.s(a[1])} {L.json(untyped(a[2]))})"
    if k == "del":
        return f"(EDelKey {L.s(a[1])})"
    if k == "seti":
        return f"(ESetIdx {coq_nat(a[1])} {L.json(untyped(a[2]))})"
    if k == "append":
        return f"(EAppend {L.json(untyped(a[1]))})"
    raise ValueError(a)


def coq_content(L, data, parse):
    """bytes + (Some parsed json | None)."""
    pj = "None"
    if parse:
        try:
            pj = f"(Some {L.json(json.loads(data))})"
        except ValueError:
            pj = "None"
    return f"(mkContent {L.bytes_(data)} {pj})"


def coq_op(L, op):
    k = op[0]
    n = coq_nat
    if k == "NewSession":
        return f"(ONewSession {L.path([op[1]])})"
    if k in ("OpenSp", "OpenSpLive", "OpenSpT"):
        # OpenSpLive: the same state point, some of whose nested values are handed over as LIVE collections of a job
        # document (the model has plain values only: open_job must take the data as it is at the time of the call)
        return f"(OOpenSp {n(op[1])} {L.json(untyped(op[2]))})"
    if k == "DocEditIn":
        # ["DocEditIn", h, key, steps, act, typed value of doc[key] afterwards]: an in-place change below document key
        # op[2] (doc[key]...[k] = v / .append(v)): the model is value based, it sets the key to the resulting value
        return f"(ODocSet {n(op[1])} {L.s(op[2])} {L.json(untyped(op[5]))})"
    if k == "OpenId":
        return f"(OOpenId {n(op[1])} {L.s(op[2])})"
    if k == "Init":
        return f"(OInit {n(op[1])} {coq_bool(op[2])})"
    if k == "Enter":
        return f"(OEnter {n(op[1])})"
    if k in ("Sp", "Cached", "IdPath", "Doc", "Copy", "DeepCopy", "Pickle"):
        return f"(O{k} {n(op[1])})"
    if k == "Repr":      # repr(job) shows cached_statepoint: the same model operation, read through another door
        return f"(OCached {n(op[1])})"
    if k == "DocReset":
        return f"(ODocReset {n(op[1])} {L.json(untyped(op[2]))})"
    if k == "DocResetLive":
        # ["DocResetLive", h, h2, typed value of H[h2].document]: job.document = <the LIVE document object of handle h2>
        # (h2 = h: `job.doc = job.doc`); the model assigns the value that document holds
        return f"(ODocReset {n(op[1])} {L.json(untyped(op[3]))})"
    if k == "WriteFile":
        return f"(OWriteFile {n(op[1])} {L.path(op[2])} {L.bytes_(bytes.fromhex(op[3]))})"
    if k == "Link":
        # a symbolic link in the job directory: links are outside the FS model - the model sees the file that is read
        # through the link (same bytes); that the implementation keeps job directories independent is observed
        return f"(OWriteFile {n(op[1])} {L.path(op[2])} {L.bytes_(bytes.fromhex(op[3]))})"
    if k == "ViaAppend":
        # bytes appended through the job's entry (open(path, 'ab')): in the model the file is rewritten with old + new
        return f"(OWriteFile {n(op[1])} {L.path(op[2])} {L.bytes_(bytes.fromhex(op[4]))})"
    if k == "PlantDir":
        return f"(OPlantDir {L.path(op[1])})"
    if k == "Wipe":
        return f"(OWipe {L.path(op[1])})"
    if k == "PlantFile":
        return f"(OPlantFile {L.path(op[1])} {coq_content(L, bytes.fromhex(op[2]), True)})"
    if k in ("Ids", "Len"):
        return f"(O{k} {n(op[1])})"
    if k == "Contains":
        return f"(OContains {n(op[1])} {n(op[2])})"
    if k == "Edit":
        return f"(OEdit {n(op[1])} {coq_list([coq_step(L, s) for s in op[2]], 'pstep')} {coq_act(L, op[3])})"
    if k == "Assign":
        return f"(OAssign {n(op[1])} {L.json(untyped(op[2]))})"
    if k == "UpdateSp":
        return f"(OUpdateSp {n(op[1])} {L.json(untyped(op[2]))} {coq_bool(op[3])})"
    if k == "Move":
        return f"(OMove {n(op[1])} {n(op[2])})"
    if k == "Clone":
        return f"(OClone {n(op[1])} {n(op[2])})"
    if k == "Tree":
        return "OTree"
    if k == "Quiet":
        return "OQuiet"
    if k in ("Remove", "Clear", "Reset", "UpdateCache", "Check"):
        return f"(O{k} {n(op[1])})"
    if k == "DocSet":
        return f"(ODocSet {n(op[1])} {L.s(op[2])} {L.json(untyped(op[3]))})"
    if k == "Snap":
        return "OSnap"
    if k == "Pickle2":
        return f"(OPickle2 {n(op[1])} {n(op[2])})"
    if k == "Fresh":
        h2 = "None" if op[2] is None else f"(Some {n(op[2])})"
        return f"(OFresh {n(op[1])} {h2} {coq_list([coq_fop(L, f) for f in op[3]], 'fop')})"
    raise ValueError(op)


def coq_fop(L, f):
    k = f[0]
    if k == "Edit":
        return f"(FEdit {coq_nat(f[1])} {coq_list([coq_step(L, s) for s in f[2]], 'pstep')} {coq_act(L, f[3])})"
    if k == "Init":
        return f"(FInit {coq_nat(f[1])})"
    if k == "DocSet":
        return f"(FDocSet {coq_nat(f[1])} {L.s(f[2])} {L.json(untyped(f[3]))})"
    if k in ("Sp", "Cached", "IdPath"):
        return f"(F{k} {coq_nat(f[1])})"
    raise ValueError(f)


CHILD = r"""
import json, logging, os, pickle, sys
logging.disable(logging.CRITICAL)
from harness.common import exn_name, to_plain, typed, untyped
blob, ops, root = sys.argv[1], json.loads(sys.argv[2]), sys.argv[3]
with open(blob, "rb") as fh:
    H = pickle.load(fh)
outs = []
for f in ops:
    try:
        k, j = f[0], H[f[1]]
        if k == "Edit":
            obj = j.statepoint
            for st in f[2]:
                obj = obj[st[1]]
            a = f[3]
            if a[0] == "set":
                obj[a[1]] = untyped(a[2])
            elif a[0] == "del":
                del obj[a[1]]
            elif a[0] == "seti":
                obj[a[1]] = untyped(a[2])
            elif a[0] == "append":
                obj.append(untyped(a[1]))
            outs.append(["unit"])
        elif k == "Init":
            j.init(); outs.append(["unit"])
        elif k == "DocSet":
            j.document[f[2]] = untyped(f[3]); outs.append(["unit"])
        elif k == "Sp":
            outs.append(["json", typed(to_plain(j.statepoint()))])
        elif k == "Cached":
            outs.append(["json", typed(to_plain(dict(j.cached_statepoint)))])
        elif k == "IdPath":
            outs.append(["idpath", j.id, os.path.relpath(j.path, root).split(os.sep)])
    except Exception as e:
        outs.append(["exn", exn_name(e)])
print("OUTS=" + json.dumps(outs))
"""


def coq_oval(L, v):
    k = v[0]
    if k == "unit":
        return "VUnit"
    if k == "bool":
        return f"(VBool {coq_bool(v[1])})"
    if k == "num":
        return f"(VNum {v[1]}%N)"
    if k == "str":
        return f"(VStr {L.s(v[1])})"
    if k == "strs":
        return f"(VStrs {coq_list([L.s(x) for x in v[1]], 'str')})"
    if k == "json":
        return f"(VJson {L.json(untyped(v[1]))})"
    if k == "idpath":
        return f"(VIdPath {L.s(v[1])} {L.path(v[2])})"
    if k == "exn":
        return f"(VExn {v[1]})"
    if k == "same":
        return "VTreeSame"
    if k == "tree":
        return f"(VTree {coq_tree(L, v[1])})"
    if k == "list":
        return "(VList " + coq_list([coq_oval(L, x) for x in v[1]], "oval") + ")"
    if k == "optnum":
        return "(VOptNum None)" if v[1] is None else f"(VOptNum (Some {v[1]}%N))"
    if k == "snapsame":
        return "VSnapSame"
    if k == "snap":
        roots = []
        for root, jobs, ok in v[2]:
            js = []
            for j in jobs:
                sp = "None" if j["sp"] is None else f"(Some {L.json(untyped(j['sp']))})"
                doc = "None" if j["doc"] is None else f"(Some {L.json(untyped(j['doc']))})"
                files = coq_list([f"({L.path(rel)}, {L.bytes_(bytes.fromhex(h))})" for rel, h in j["files"]],
                                 "(path * list N)")
                js.append(f"(mkJV {L.s(j['id'])} {sp} {doc} {files})")
            roots.append(f"({L.path([root])}, {coq_list(js, 'jview')}, {coq_bool(ok)})")
        return f"(VSnap {coq_tree(L, v[1])} {coq_list(roots, '(path * list jview * bool)')})"
    raise ValueError(v)


def coq_tree(L, entries):
    items = []
    for comps, kind, hexdata in entries:
        if kind == "dir":
            items.append(f"({L.path(comps)}, Dir)")
        elif kind == "cache":
            # the persistent cache: gzip bytes are not compared, the node carries the decoded mapping
            items.append(f"({L.path(comps)}, File (mkContent (@nil N) (Some {L.json(untyped(hexdata))})))")
        else:
            data = bytes.fromhex(hexdata)
            items.append(f"({L.path(comps)}, File {coq_content(L, data, comps[-1] in JSON_NAMES)})")
    return coq_list(items, "(path * node)")


# names of project directories and of their parent directory: valid directory names with glob / shell / regex / URL
# metacharacters, spaces and non-ASCII characters (the model names the roots A, B; it does not care)
DIRNAMES = ["A", "runs[v2]", "a?b", "x*", "{a,b}", "~t", "sp ace", "#h%20", "$d'q\"(p)", "é中", "[a-z]", "a.b+c^", "-dash", "w\\x"]


def provenance(rng, roots=("A",)):
    """the dimensions the model does not contain: directory names, how Project objects are obtained, cwd changes"""
    return {"names": {r: rng.choice(DIRNAMES) for r in roots}, "parent": rng.choice(DIRNAMES),
            "seed": rng.randint(0, 10 ** 9), "auto": True}


def provenance_world(d, prov, **kw):
    """A World below scratch directory `d` with varied provenance.  Everything lives EIGHT levels below `d`: a relative
    project path (a few '..') evaluated from any working directory the harness - or a `with job:` block - switches to
    stays inside the scratch directory, also when a changed implementation keeps such a path unresolved."""
    top = os.path.join(d, *(["_"] * 8))
    base = os.path.join(top, "P" + prov["parent"])
    names, used = {}, set()
    for m, r in sorted(prov["names"].items()):
        while r in used:
            r += "2"
        used.add(r)
        names[m] = r
    first = names[sorted(names)[0]]
    cwds = [base, os.path.join(top, "c0", "x"), os.path.join(top, "c1", "y", "z"), os.path.join(base, first),
            os.path.join(top, "c2 [g]*", "q")]
    for c in cwds:
        os.makedirs(c, exist_ok=True)
    os.chdir(cwds[prov["seed"] % len(cwds)])
    return World(base, names=names, cwds=cwds, prov_seed=prov["seed"], auto_chdir=bool(prov.get("auto")), **kw)


EXT = "_ext"      # directory (next to the projects) for link targets outside every project


def link_mark(path, jobdir):
    """suffix for the observed name of a symbolic link that is NOT self-contained: its target lies in another job
    directory / project (or nowhere).  Links to files of the own job directory and to files outside every project
    read like plain files."""
    if not os.path.islink(path):
        return ""
    real = os.path.realpath(path)
    if not os.path.exists(real):
        return "@dangling-link"
    jd = os.path.realpath(jobdir)
    if real.startswith(jd + os.sep):
        return ""
    if (os.sep + WSN + os.sep) in real:
        return "@link-into-another-job"
    return ""


class World:
    """Runs ops on the real signac inside directory `root`."""

    def __init__(self, root, same_trees=True, names=None, cwds=None, prov_seed=None, auto_chdir=False):
        """names: model root name -> real directory name below `root` (default: the same); cwds: directories (all
        inside the case's scratch directory) the harness-only op ChDir switches between; prov_seed: if given, Project
        objects after the first are obtained in varying ways (constructor / get_project / init_project, absolute /
        relative to the current working directory / with '..' / with a trailing slash).  The model identifies a project
        by its canonical root, so none of this exists in the model."""
        import random
        import signac  # noqa: F401  (import here: PYTHONPATH decides which signac)

        self.names = dict(names or {})
        self.unnames = {v: k for k, v in self.names.items()}
        self.cwds = list(cwds or [])
        self.prov_rng = random.Random(prov_seed) if prov_seed is not None else None
        self.prov_log = []
        self.auto_chdir = auto_chdir     # the process changes its working directory on its own between operations
        self.proj_names = {}     # id(Project object) -> model root name (the objects stay alive in self.sessions)
        self.entered = []        # handles inside a `with job:` block (harness ops Enter / Exit)

        logging.disable(logging.CRITICAL)
        self.root = root
        self.sessions = []
        self.handles = []
        self.args = {}
        self.assigned = {}     # handle -> the mapping the caller last passed to the setter / update_statepoint
        self.inited = set()
        self.prev_tree = None
        self.prev_snap = None
        self.roots = []
        self.prev_sig = self.signature()
        self.same_trees = same_trees

    def root_of(self, obj):
        """model root name of a Project object / of a job handle's project (never computed from a possibly relative path)"""
        p = getattr(obj, "_project", obj)
        name = self.proj_names.get(id(p))
        if name is None:
            rel = os.path.relpath(p.path, self.root)
            name = self.unnames.get(rel, rel)
        return name

    def leave_one(self):
        """end of a `with job:` block.  The working directory is outside the model; that the block restores it is
        recorded (self.cwd_leaks) and repaired here: a state point change inside the block makes Job.close() forget
        the saved directory (_initialize_lazy_properties resets _cwd) - reported in notes/C03.md."""
        job, here = self.entered.pop()
        try:
            job.close()
        except Exception:  # noqa: BLE001
            pass
        try:
            now = os.getcwd()
        except OSError:
            now = None
        if now != here:
            self.cwd_leaks = getattr(self, "cwd_leaks", 0) + 1
            os.chdir(here)

    def leave_all(self):
        """close every `with job:` block that is still open (end of a case)"""
        while self.entered:
            self.leave_one()

    def real(self, name):
        return self.names.get(name, name)

    def model_comps(self, comps):
        return [self.unnames.get(comps[0], comps[0])] + list(comps[1:]) if comps else comps

    def project(self, name, first=False, mode=None):
        """A Project object for model root `name`, obtained the way the provenance policy says (or the way the op asks
        for: ["NewSession", root, mode])."""
        import signac
        path = os.path.join(self.root, self.real(name))
        if self.prov_rng is None:
            return signac.init_project(path=path) if first else signac.Project(path)
        try:
            here = os.getcwd()
        except OSError:             # the working directory (a job directory) was removed
            os.chdir(self.cwds[0])
            here = os.getcwd()
        rel = os.path.relpath(path, here)
        modes = ["init-abs", "init-rel"] if first else ["ctor-abs", "get-abs", "get-rel", "ctor-rel", "ctor-rel", "dotdot",
                                                         "slash", "init-rel", "rel-slash", "ctor-none", "get-none"]
        mode = self.prov_rng.choice(modes) if mode is None or first else mode
        self.prov_log.append([name, mode, os.path.relpath(os.getcwd(), os.path.dirname(self.root))])
        if mode in ("ctor-none", "get-none"):
            # no path argument at all: the project of the current working directory (Project.__init__: path = os.getcwd())
            os.chdir(path)
            try:
                return signac.Project() if mode == "ctor-none" else signac.get_project()
            finally:
                os.chdir(here)
        if mode == "init-abs":
            return signac.init_project(path=path)
        if mode == "init-rel":
            return signac.init_project(path=rel)
        if mode == "ctor-abs":
            return signac.Project(path)
        if mode == "get-abs":
            return signac.get_project(path)
        if mode == "get-rel":
            return signac.get_project(rel)
        if mode == "ctor-rel":
            return signac.Project(rel)
        if mode == "dotdot":
            return signac.Project(os.path.join(path, os.pardir, os.path.basename(path)))
        if mode == "slash":
            return signac.Project(path + os.sep)
        return signac.Project(rel + os.sep)

    # ---- observations of the file system
    def tree(self):
        out = []
        for proj in sorted(os.listdir(self.root)):
            if proj == EXT:
                continue
            ws = os.path.join(self.root, proj, WSN)
            if not os.path.isdir(ws):
                continue
            for dirpath, dirnames, filenames in os.walk(ws):
                dirnames.sort()
                rel = self.model_comps(os.path.relpath(dirpath, self.root).split(os.sep))
                for d in dirnames:
                    out.append((rel + [d], "dir", ""))
                for f in sorted(filenames):
                    fp = os.path.join(dirpath, f)
                    jd = os.path.join(ws, os.path.relpath(dirpath, ws).split(os.sep)[0])
                    mark = link_mark(fp, jd)
                    data = b""
                    if mark != "@dangling-link":
                        with open(fp, "rb") as fh:
                            data = fh.read()
                    out.append((rel + [_TMP.sub("._TMP_", f) + mark], "file", data.hex()))
            cf = os.path.join(self.root, proj, DOTSIG, CACHEFN)
            if os.path.isfile(cf):
                import gzip
                with gzip.open(cf, "rb") as fh:
                    out.append(([self.unnames.get(proj, proj), DOTSIG, CACHEFN], "cache", typed(json.loads(fh.read().decode()))))
        for sp in self.strays():
            comps = self.model_comps([c for c in sp.split(os.sep) if c != "."])
            out.append((comps, "dir" if os.path.isdir(os.path.join(self.root, sp)) else "file", ""))
        out.sort(key=lambda e: (e[0], e[1]))
        return out

    def strays(self):
        """Anything in the project directories that is neither the workspace, the config nor the cache file."""
        bad = []
        for proj in sorted(os.listdir(self.root)):
            if proj == EXT:
                continue
            base = os.path.join(self.root, proj)
            for dirpath, dirnames, filenames in os.walk(base):
                rel = os.path.relpath(dirpath, base)
                if rel == ".":
                    dirnames[:] = [d for d in dirnames if d != WSN]
                    extra = [d for d in dirnames if d != DOTSIG] + list(filenames)
                elif rel == DOTSIG:
                    extra = list(dirnames) + [f for f in filenames if f not in ("config", CACHEFN)]
                else:
                    extra = list(dirnames) + list(filenames)
                bad += [os.path.join(proj, rel, x) for x in extra]
        return sorted(bad)

    def fresh_view(self, proj):
        """ids, statepoint(), document(), recursive file listing through a brand-new Project, and check()."""
        import signac
        from signac.errors import JobsCorruptedError
        p = signac.Project(os.path.join(self.root, self.real(proj)))
        jobs = []
        for job in p:
            try:
                sp = typed(to_plain(job.statepoint()))
            except Exception:  # noqa: BLE001
                sp = None
            try:
                doc = typed(to_plain(job.document()))
            except Exception:  # noqa: BLE001
                doc = None
            files = []
            for dirpath, dirnames, filenames in os.walk(job.path):
                dirnames.sort()
                rel = os.path.relpath(dirpath, job.path)
                for f in sorted(filenames):
                    comps = ([] if rel == "." else rel.split(os.sep)) + [_TMP.sub("._TMP_", f)]
                    if comps in ([SPF], [DOCF]):
                        continue
                    mark = link_mark(os.path.join(dirpath, f), job.path)
                    data = b""
                    if mark != "@dangling-link":
                        with open(os.path.join(dirpath, f), "rb") as fh:
                            data = fh.read()
                    if mark:
                        comps = comps[:-1] + [comps[-1] + mark]
                    files.append([comps, data.hex()])
            jobs.append({"id": job.id, "sp": sp, "doc": doc, "files": files})
        try:
            p.check()
            ok = True
        except JobsCorruptedError:
            ok = False
        return [proj, sorted(jobs, key=lambda j: j["id"]), ok]

    def signature(self):
        sig = []
        for dirpath, dirnames, filenames in os.walk(self.root):
            dirnames.sort()
            for n in [""] + dirnames + sorted(filenames):
                p = os.path.join(dirpath, n) if n else dirpath
                st = os.lstat(p)
                sig.append((os.path.relpath(p, self.root), st.st_ino, st.st_mtime_ns, st.st_ctime_ns, st.st_size))
        return sorted(set(sig))

    # ---- one op
    def run(self, op):
        """Returns the observation (JSON-able), or None for harness-only ops."""
        import signac

        k = op[0]
        H = self.handles
        if self.auto_chdir and self.cwds and k not in ("Snap", "Tree", "Quiet", "ChDir", "Exit") and self.prov_rng.random() < 0.3:
            # harness-level: the working directory changes between two operations (always inside the scratch area)
            os.chdir(self.prov_rng.choice(self.cwds))
        try:
            if k == "NewSession":
                path = os.path.join(self.root, self.real(op[1]))
                if path not in self.inited:
                    os.makedirs(path, exist_ok=True)
                    p = self.project(op[1], first=not os.path.isdir(os.path.join(path, ".signac")))
                    self.inited.add(path)
                    # the config directory is not part of the model: its creation must not count as a mutation
                    self.prev_sig = None
                else:
                    p = self.project(op[1], mode=op[2] if len(op) > 2 else None)
                self.sessions.append(p)
                self.proj_names[id(p)] = op[1]
                if op[1] not in self.roots:
                    self.roots.append(op[1])
                return ["unit"]
            if k == "ChDir":
                # harness-only: the process changes its working directory (always to a directory inside the scratch area)
                os.chdir(self.cwds[op[1] % len(self.cwds)])
                return None
            if k == "OpenSp":
                arg = untyped(op[2])
                j = self.sessions[op[1]].open_job(arg)
                self.args[len(H)] = arg
                H.append(j)
                return ["str", j.id]
            if k == "OpenSpT":
                # the same state point with every list VALUE of the mapping (and of its nested mappings) handed over as a
                # TUPLE - the containers inside the tuple stay mutable (JSON has no tuples: the model sees lists)
                def tup(v, top=True):
                    if isinstance(v, dict):
                        return {kk: tup(x) for kk, x in v.items()}
                    if isinstance(v, list):
                        return tuple(v) if top else v
                    return v
                arg = tup(untyped(op[2]))
                j = self.sessions[op[1]].open_job(arg)
                self.args[len(H)] = arg
                H.append(j)
                return ["str", j.id]
            if k == "OpenSpLive":
                # ["OpenSpLive", s, typed_sp, h, [[steps into sp, steps into H[h].document], ...]]
                arg = untyped(op[2])
                for sp_steps, doc_steps in op[4]:
                    live = H[op[3]].document
                    for st in doc_steps:
                        live = live[st[1]]
                    obj = arg
                    for st in sp_steps[:-1]:
                        obj = obj[st[1]]
                    if to_plain(live) != obj[sp_steps[-1][1]]:
                        raise RuntimeError("generator: the live value differs from the state point's value")
                    obj[sp_steps[-1][1]] = live
                j = self.sessions[op[1]].open_job(arg)
                H.append(j)
                return ["str", j.id]
            if k == "DocEditIn":
                obj = H[op[1]].document[op[2]]
                for st in op[3]:
                    obj = obj[st[1]]
                a = op[4]
                if a[0] in ("set", "seti"):
                    obj[a[1]] = untyped(a[2])
                elif a[0] == "append":
                    obj.append(untyped(a[1]))
                elif a[0] == "del":
                    del obj[a[1]]
                return ["unit"]
            if k == "MutateArg":
                arg = self.args[op[1]]

                def first_mutable(v):
                    """the first dict / list at or (through tuples) below v"""
                    if isinstance(v, (dict, list)):
                        return v
                    if isinstance(v, tuple):
                        for x in v:
                            m = first_mutable(x)
                            if m is not None:
                                return m
                    return None
                if op[4]:   # nested: mutate inside the first container value (looking through tuples)
                    for key, val in arg.items():
                        val = first_mutable(val)
                        if isinstance(val, dict):
                            val[op[2]] = untyped(op[3])
                            break
                        if isinstance(val, list):
                            val.append(untyped(op[3]))
                            break
                    else:
                        arg[op[2]] = untyped(op[3])
                else:
                    arg[op[2]] = untyped(op[3])
                return None
            if k == "OpenId":
                j = self.sessions[op[1]].open_job(id=op[2])
                H.append(j)
                return ["str", j.id]
            if k == "Init":
                H[op[1]].init(force=op[2])
                return ["unit"]
            if k == "Enter":
                # `with job:` - Job.open(): init(validate_statepoint=False) and chdir into the job directory (model: OEnter);
                # left again by the harness-only Exit
                here = os.getcwd()
                H[op[1]].open()
                self.entered.append((H[op[1]], here))
                return ["unit"]
            if k == "Exit":
                if self.entered:
                    self.leave_one()
                return None
            if k == "Sp":
                return ["json", typed(to_plain(H[op[1]].statepoint()))]
            if k == "Cached":
                return ["json", typed(to_plain(dict(H[op[1]].cached_statepoint)))]
            if k == "Repr":
                text = repr(H[op[1]])
                import ast
                at = text.index(", statepoint=") + len(", statepoint=")
                return ["json", typed(to_plain(ast.literal_eval(text[at:-1])))]
            if k == "IdPath":
                j = H[op[1]]
                return ["idpath", j.id, self.model_comps(os.path.relpath(j.path, self.root).split(os.sep))]
            if k == "Doc":
                return ["json", typed(to_plain(H[op[1]].document()))]
            if k == "DocReset":
                H[op[1]].document = untyped(op[2])
                return ["unit"]
            if k == "DocResetLive":
                H[op[1]].document = H[op[2]].document
                return ["unit"]
            if k == "WriteFile":
                fn = os.path.join(H[op[1]].path, *op[2])
                os.makedirs(os.path.dirname(fn), exist_ok=True)
                with open(fn, "wb") as fh:
                    fh.write(bytes.fromhex(op[3]))
                return ["unit"]
            if k == "Link":
                # ["Link", h, rel, hex-of-the-content-seen-through-it, kind, target-rel]
                fn = os.path.join(H[op[1]].path, *op[2])
                os.makedirs(os.path.dirname(fn), exist_ok=True)
                kind = op[4]
                if kind == "abs":        # absolute target inside the job (job.fn(...))
                    target = os.path.abspath(os.path.join(H[op[1]].path, *op[5]))
                elif kind == "rel":      # relative target inside the job
                    target = os.path.relpath(os.path.join(H[op[1]].path, *op[5]), os.path.dirname(fn))
                else:                    # a file outside every project (inside the scratch area)
                    ext = os.path.join(self.root, EXT)
                    os.makedirs(ext, exist_ok=True)
                    target = os.path.join(ext, "ext%d.bin" % len(os.listdir(ext)))
                    with open(target, "wb") as fh:
                        fh.write(bytes.fromhex(op[3]))
                if os.path.lexists(fn):
                    os.remove(fn)
                os.symlink(target, fn)
                return ["unit"]
            if k == "ViaAppend":
                with open(os.path.join(H[op[1]].path, *op[2]), "ab") as fh:
                    fh.write(bytes.fromhex(op[3]))
                return ["unit"]
            if k == "PlantDir":
                os.makedirs(os.path.join(self.root, self.real(op[1][0]), *op[1][1:]), exist_ok=True)
                return ["unit"]
            if k == "Wipe":
                # a directory tree (e.g. the whole workspace) is removed behind signac's back
                import shutil
                shutil.rmtree(os.path.join(self.root, self.real(op[1][0]), *op[1][1:]))
                return ["unit"]
            if k == "PlantFile":
                with open(os.path.join(self.root, self.real(op[1][0]), *op[1][1:]), "wb") as fh:
                    fh.write(bytes.fromhex(op[2]))
                return ["unit"]
            if k == "Ids":
                return ["strs", sorted(j.id for j in self.sessions[op[1]])]
            if k == "Len":
                return ["num", len(self.sessions[op[1]])]
            if k == "Contains":
                return ["bool", bool(H[op[2]] in self.sessions[op[1]])]
            if k == "Copy":
                j = copy.copy(H[op[1]])
                H.append(j)
                return ["str", j.id]
            if k == "DeepCopy":
                j = copy.deepcopy(H[op[1]])
                H.append(j)
                self.sessions.append(j._project)
                self.proj_names[id(j._project)] = self.root_of(H[op[1]])
                return ["str", j.id]
            if k == "Pickle":
                j = pickle.loads(pickle.dumps(H[op[1]]))
                H.append(j)
                self.sessions.append(j._project)
                self.proj_names[id(j._project)] = self.root_of(H[op[1]])
                return ["str", j.id]
            if k == "Pickle2":
                a, b = pickle.loads(pickle.dumps([H[op[1]], H[op[2]]]))
                H.extend([a, b])
                self.sessions.append(a._project)
                self.proj_names[id(a._project)] = self.root_of(H[op[1]])
                return ["strs", [a.id, b.id]]
            if k == "Fresh":
                import subprocess
                import sys
                import tempfile
                hs = [H[op[1]]] + ([] if op[2] is None else [H[op[2]]])
                data = pickle.dumps(hs)            # in this process (may raise)
                with tempfile.NamedTemporaryFile(dir=os.path.dirname(self.root), suffix=".pkl", delete=False) as fh:
                    fh.write(data)
                try:
                    p = subprocess.run([sys.executable, "-c", CHILD, fh.name, json.dumps(op[3]), self.root],
                                       capture_output=True, text=True, timeout=120)
                finally:
                    os.unlink(fh.name)
                line = [x for x in p.stdout.splitlines() if x.startswith("OUTS=")]
                if not line:
                    raise RuntimeError("fresh process failed: " + p.stderr[-300:])
                return ["list", [([o[0], o[1], self.model_comps(o[2])] if o[0] == "idpath" else o)
                                 for o in json.loads(line[0][5:])]]
            if k == "Edit":
                obj = H[op[1]].statepoint
                for st in op[2]:
                    obj = obj[st[1]]
                a = op[3]
                if a[0] == "set":
                    obj[a[1]] = untyped(a[2])
                elif a[0] == "del":
                    del obj[a[1]]
                elif a[0] == "seti":
                    obj[a[1]] = untyped(a[2])
                elif a[0] == "append":
                    obj.append(untyped(a[1]))
                return ["unit"]
            if k == "Assign":
                self.assigned[op[1]] = untyped(op[2])
                H[op[1]].statepoint = self.assigned[op[1]]
                return ["unit"]
            if k == "UpdateSp":
                self.assigned[op[1]] = untyped(op[2])
                H[op[1]].update_statepoint(self.assigned[op[1]], overwrite=op[3])
                return ["unit"]
            if k == "MutateAssigned":
                # harness-only: the caller keeps using (mutating in place) the mapping it assigned
                arg = self.assigned.get(op[1])
                if arg is not None:
                    done = False
                    if op[4]:
                        for key, val in arg.items():
                            if isinstance(val, dict):
                                val[op[2]] = untyped(op[3]); done = True; break
                            if isinstance(val, list):
                                val.append(untyped(op[3])); done = True; break
                    if not done:
                        arg[op[2]] = untyped(op[3])
                return None
            if k == "Move":
                H[op[1]].move(self.sessions[op[2]])
                return ["unit"]
            if k == "Clone":
                j = self.sessions[op[1]].clone(H[op[2]])
                H.append(j)
                return ["str", j.id]
            if k == "Tree":
                t = self.tree()
                if self.same_trees and t == self.prev_tree:
                    return ["same"]
                self.prev_tree = t
                return ["tree", t]
            if k == "Remove":
                H[op[1]].remove()
                return ["unit"]
            if k == "Clear":
                H[op[1]].clear()
                return ["unit"]
            if k == "Reset":
                H[op[1]].reset()
                return ["unit"]
            if k == "DocSet":
                H[op[1]].document[op[2]] = untyped(op[3])
                return ["unit"]
            if k == "UpdateCache":
                return ["optnum", self.sessions[op[1]].update_cache()]
            if k == "Check":
                self.sessions[op[1]].check()
                return ["unit"]
            if k == "Snap":
                t = self.tree()
                views = [self.fresh_view(r) for r in self.roots]
                snap = [t, views]
                self.prev_tree = t
                if self.same_trees and snap == self.prev_snap:
                    return ["snapsame"]
                self.prev_snap = snap
                return ["snap", t, views]
            if k == "Quiet":
                sig = self.signature()
                q = self.prev_sig is not None and sig == self.prev_sig
                self.prev_sig = sig
                return ["bool", q]
        except Exception as e:  # noqa: BLE001 - the exception class is the observation
            return ["exn", exn_name(e)]
        raise ValueError(op)


def settle():
    """Make sure a later mutation gets a different timestamp than earlier ones (coarse kernel clocks)."""
    time.sleep(0.012)
