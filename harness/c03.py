"""C03 — the workspace equals a simple model after any history of API operations."""
import itertools
import json
import os

from . import wsops
from .common import Case, coq_list, scratch_dir, typed, untyped

PROP = "C03"
IMPORTS = "Base Json MD5 Canon FS Ws CorrC02 CorrC03"
CASE_TYPE = "case_C03"
MISMATCHES = "mismatches_C03"
VIOLATIONS = "violations_C03"
KNOWN = "known_C03"
SHARD = 12
RULE = ("op sequences over {open_job(sp), open_job(id | prefix | unknown id), init, remove, clear, reset, sp[k]=v, "
        "del sp[k], list append / item set, whole assignment, update_statepoint +-overwrite, move, clone, "
        "doc[k]=v, document = {...}, file creation (incl. nested), update_cache, new Project session, copy.copy, "
        "deepcopy, pickle round trip, statepoint(), ids, len, in, planting a '<id>.bak' directory} on two projects; "
        "universe: keys a,b,c,d with <=3 values each (ints, a string, lists), 3 file names, 2 document keys; several "
        "live handles (the generator prefers recent ones but keeps using old, possibly stale ones); 12% of the steps are composite "
        "patterns: multi-key update_statepoint with a neighbour job at a partially updated state point; the caller mutates "
        "(in place, nested) the mapping it passed to open_job before the handle is first used; copy.copy + move through the "
        "copy + state point change through the one left behind. After EVERY op: "
        "raw walk of both workspaces (+ persistent cache file), the view through a brand-new Project of every root "
        "(ids, statepoint(), document(), recursive file listing) and check(); harness also asserts that nothing "
        "but workspace/, .signac/config and the cache file exists in a project directory. quick: 150 random "
        "sequences of length <=25 + corpus; thorough: all words of length <=3 over a 14-letter alphabet after a fixed "
        "prologue + 1500 random sequences of length <=60. non-trivial: the sequence changes the set of jobs at "
        "least twice and contains a state point change or move/clone; distinct by op list")
TRUSTED = [
    "float.__repr__ as oracle table (no floats are generated here)",
    "json.loads(json.dumps(v)) = v is built into the file node written by the model (bytes, Some v)",
    "synced_collections 1.0.1 and the copy/pickle protocol are modelled, not verified",
    "gzip framing of the persistent cache file: only the decoded mapping is compared",
]
ASSUMPTIONS = ["values that compare == in Python but differ in type (1 / 1.0 / True) are not mixed (C04's finding 3)",
               "open_job(id=...) is only asked for ids that exist in the workspace or never existed",
                              "files are written only into initialised jobs; names never clash with signac's own files"]

KEYS = ["a", "b", "c", "d"]
VALS = {"a": [0, 1, 2], "b": [0, None, "x"], "c": [[1, 2], [1, 3], 0], "d": [{"n": [0]}, "y", [7]]}
FILES = [["data.txt"], ["sub", "x.bin"], ["a.out"]]
DOCKEYS = ["p", "q"]
DOCVALS = [1, "v", [1, {"z": None}]]
HEX = "0123456789abcdef"


def rand_sp(rng):
    ks = rng.sample(KEYS, rng.choice([1, 1, 2, 2, 3]))
    return {k: rng.choice(VALS[k]) for k in sorted(ks)}


# fixed scenarios replaying the witnesses / examples of props/C03.v on the real code in every run (kind "script")
SCRIPTS = {
    # F2 (fixed, 5a38a4a): foreign directory names next to real jobs never count as jobs
    "exact-id-names": [["NewSession", "A"], ["OpenSp", 0, typed({"a": 0})], ["Init", 0, False],
                       ["OpenSp", 0, typed({"a": 1})], ["Init", 1, False],
                       ["PlantDir", ["A", "workspace", "9bfd29df07674bc4aa960cf661b5acd2.bak"]],
                       ["PlantDir", ["A", "workspace", "9bfd29df07674bc4aa960cf661b5acd2x"]],
                       ["PlantDir", ["A", "workspace", "9bfd29df07674bc4aa960cf661b5acd"]],
                       ["PlantDir", ["A", "workspace", "9bfd29df07674bc4aa960cf661b5acd2f"]],
                       ["PlantDir", ["A", "workspace", "42B7B4F2921788EA14DAC5566E6F06D0"]],
                       ["PlantDir", ["A", "workspace", "42b7b4f2921788ea14dac5566e6f06d0~"]],
                       ["Ids", 0], ["Len", 0], ["Contains", 0, 0], ["NewSession", "A"], ["OpenId", 1, "9bfd29"],
                       ["OpenId", 1, "9bfd29df07674bc4aa960cf661b5acd2"], ["OpenId", 1, "42b7"],
                       ["OpenId", 1, "9bfd29df07674bc4aa960cf661b5acd2.bak"], ["UpdateCache", 1], ["Check", 1],
                       ["Edit", 0, [], ["set", "b", typed(0)]], ["Remove", 1]],
    "rollback-after-conflict": [["NewSession", "A"], ["OpenSp", 0, typed({"a": 0})], ["Init", 0, False],
                             ["OpenSp", 0, typed({"a": 1})], ["Init", 1, False],
                             ["Edit", 0, [], ["set", "a", typed(1)]], ["Sp", 0], ["Edit", 0, [], ["set", "b", typed(0)]]],
    "stale-document": [["NewSession", "A"], ["OpenSp", 0, typed({"a": 0})], ["Init", 0, False],
                       ["DocSet", 0, "p", typed(1)], ["OpenSp", 0, typed({"a": 0})], ["Doc", 1],
                       ["Remove", 0], ["Init", 0, False], ["DocSet", 1, "q", typed("v")]],
    "stale-directory-known": [["NewSession", "A"], ["OpenSp", 0, typed({"a": 0})], ["Init", 0, False],
                              ["OpenSp", 0, typed({"a": 0})], ["Doc", 1], ["Remove", 0],
                              ["DocSet", 1, "q", typed("v")]],
    "lock-registry": [["NewSession", "A"], ["OpenSp", 0, typed({"a": 0})], ["Init", 0, False],
                      ["OpenSp", 0, typed({"a": 0})], ["Sp", 1], ["Edit", 0, [], ["set", "a", typed(1)]],
                      ["Edit", 1, [], ["set", "b", typed(0)]]],
    "lock-registry-deepcopy": [["NewSession", "A"], ["OpenSp", 0, typed({"d": [7]})], ["Init", 0, False],
                               ["DeepCopy", 0], ["Edit", 1, [], ["del", "d"]], ["Edit", 0, [], ["del", "d"]]],
    "lazy-handle-gone-no-effect": [["NewSession", "A"], ["OpenSp", 0, typed({"a": 0})], ["Init", 0, False], ["NewSession", "A"],
                         ["OpenId", 1, "9bfd29df07674bc4aa960cf661b5acd2"], ["Remove", 0], ["Init", 1, False]],
    "moved-handle-copy-independent": [["NewSession", "A"], ["NewSession", "B"], ["OpenSp", 0, typed({"a": 0})], ["Init", 0, False],
                          ["Sp", 0], ["Copy", 0], ["Move", 0, 1], ["Init", 1, False],
                          ["Edit", 1, [], ["set", "a", typed(2)]]],
    # update_statepoint with several changing keys while other jobs sit at the partially updated state points
    "update-multikey-neighbours": [["NewSession", "A"], ["OpenSp", 0, typed({"a": 0, "b": 0})], ["Init", 0, False],
                                   ["DocSet", 0, "p", typed(1)],
                                   ["OpenSp", 0, typed({"a": 1, "b": 0})], ["Init", 1, False],
                                   ["OpenSp", 0, typed({"a": 0, "b": "x"})], ["Init", 2, False],
                                   ["UpdateSp", 0, typed({"a": 1, "b": "x"}), True],
                                   ["OpenSp", 0, typed({"a": 2, "b": None})], ["Init", 3, False],
                                   ["UpdateSp", 3, typed({"b": "x", "a": 1}), True],
                                   ["UpdateSp", 1, typed({"b": None}), False], ["UpdateSp", 1, typed({"c": 0, "a": 1}), False]],
    # update_statepoint WITHOUT overwrite on existing keys that hold falsy values (None, 0, [] ...): KeyError, no effect
    "update-existing-falsy": [["NewSession", "A"], ["OpenSp", 0, typed({"a": 0, "b": None})], ["Init", 0, False],
                              ["DocSet", 0, "p", typed(1)],
                              ["UpdateSp", 0, typed({"b": "x"}), False], ["UpdateSp", 0, typed({"b": 0, "c": 0}), False],
                              ["UpdateSp", 0, typed({"a": 1}), False], ["UpdateSp", 0, typed({"b": None, "c": 0}), False],
                              ["UpdateSp", 0, typed({"c": [1, 2]}), False], ["Sp", 0],
                              ["UpdateSp", 0, typed({"b": "x"}), True], ["UpdateSp", 0, typed({"b": None}), False]],
    # the document is assigned a LIVE view of a job document: of itself, of a shallow copy, of a second handle of the same
    # job, of another job
    "document-assigned-live": [["NewSession", "A"], ["OpenSp", 0, typed({"a": 0})], ["Init", 0, False],
                               ["DocSet", 0, "p", typed([1, {"z": None}])], ["DocSet", 0, "q", typed("v")],
                               ["DocResetLive", 0, 0, typed({"p": [1, {"z": None}], "q": "v"})], ["Doc", 0],
                               ["Copy", 0], ["DocResetLive", 1, 0, typed({"p": [1, {"z": None}], "q": "v"})], ["Doc", 0],
                               ["OpenSp", 0, typed({"a": 0})], ["DocResetLive", 2, 0, typed({"p": [1, {"z": None}], "q": "v"})],
                               ["Doc", 2], ["OpenSp", 0, typed({"a": 1})], ["Init", 3, False],
                               ["DocResetLive", 3, 0, typed({"p": [1, {"z": None}], "q": "v"})], ["DocSet", 0, "q", typed(1)],
                               ["Doc", 3]],
    # the caller keeps (and mutates in place) the mapping it passed to open_job before the handle is first used
    "caller-mutates-nested": [["NewSession", "A"], ["OpenSp", 0, typed({"a": 0, "c": [1, 2]})],
                              ["MutateArg", 0, "x", typed(9), True], ["Init", 0, False],
                              ["OpenSp", 0, typed({"a": 0, "c": [1, 2]})], ["MutateArg", 1, "x", typed(5), True],
                              ["Edit", 1, [], ["set", "b", typed("x")]],
                              ["OpenSp", 0, typed({"d": {"n": [0]}, "a": 1})], ["MutateArg", 2, "m", typed(1), True],
                              ["UpdateSp", 2, typed({"b": 0}), False], ["Sp", 2],
                              ["OpenSp", 0, typed({"a": 2})], ["MutateArg", 3, "a", typed(7), False], ["Init", 3, False]],
    # move() through a shallow copy, then a state point change through the original
    "move-through-copy": [["NewSession", "A"], ["NewSession", "B"], ["OpenSp", 0, typed({"a": 0})], ["Init", 0, False],
                          ["DocSet", 0, "p", typed(1)], ["Sp", 0], ["Copy", 0], ["Move", 1, 1],
                          ["Edit", 0, [], ["set", "a", typed(2)]], ["IdPath", 1], ["Contains", 1, 1],
                          ["Init", 0, False], ["Edit", 0, [], ["set", "b", typed("x")]], ["DocSet", 1, "q", typed("v")]],
    # the caller mutates the mapping it assigned; open by id in the same session and in a fresh one after update_cache
    "caller-mutates-assigned": [["NewSession", "A"], ["OpenSp", 0, typed({"a": 0})], ["Init", 0, False],
                                ["Assign", 0, typed({"a": 1, "c": [1, 2]})], ["MutateAssigned", 0, "x", typed(9), True],
                                ["OpenId", 0, "21487dbdb7d184e96ed39a4c6f303841"], ["Sp", 1], ["UpdateCache", 0],
                                ["UpdateSp", 0, typed({"d": {"n": [0]}}), False], ["MutateAssigned", 0, "m", typed(1), True],
                                ["UpdateCache", 0], ["NewSession", "A"], ["Ids", 1]],
    # a shallow copy taken before the state point was ever accessed follows (fix 0894ce6; C04's former finding 2)
    "early-copy-follows": [["NewSession", "A"], ["OpenSp", 0, typed({"a": 0})], ["Init", 0, False], ["NewSession", "A"],
                           ["OpenId", 1, "9bfd29df07674bc4aa960cf661b5acd2"], ["Copy", 1],
                           ["Edit", 1, [], ["set", "a", typed(1)]], ["IdPath", 2], ["Sp", 2], ["DocSet", 2, "p", typed(1)]],
    # pickling handles that have live shallow copies (fix cefd325): alone, the copy, both in one pickle
    "pickle-with-shallow-copy": [["NewSession", "A"], ["OpenSp", 0, typed({"a": 0})], ["Init", 0, False], ["Sp", 0],
                                 ["Copy", 0], ["Pickle", 0], ["Pickle", 1], ["Pickle2", 0, 1],
                                 ["Edit", 4, [], ["set", "a", typed(1)]], ["IdPath", 5], ["Sp", 5], ["Cached", 5],
                                 ["DocSet", 5, "p", typed(1)], ["Init", 2, False], ["Sp", 3]],
    # ... and restored in a freshly started process (finding 8: no lock-registry entry there)
    "pickle-fresh-process": [["NewSession", "A"], ["OpenSp", 0, typed({"a": 0})], ["Init", 0, False], ["Copy", 0],
                             ["Fresh", 0, 1, [["Sp", 0], ["IdPath", 1], ["DocSet", 1, "p", typed(1)], ["Init", 0]]],
                             ["Fresh", 1, None, [["Cached", 0], ["Edit", 0, [], ["set", "a", typed(1)]], ["IdPath", 0]]],
                             ["Doc", 0]],
    # reset() / init() / clear() through a handle whose job was removed through ANOTHER live handle: they look at the
    # file system (reset re-creates the job) - checked exactly, not part of finding 3
    "sibling-remove-then-reset": [["NewSession", "A"], ["OpenSp", 0, typed({"a": 0})], ["Init", 0, False],
                                  ["OpenSp", 0, typed({"a": 0})], ["Remove", 1], ["Reset", 0], ["Len", 0], ["Contains", 0, 0],
                                  ["OpenId", 0, "9bfd29df07674bc4aa960cf661b5acd2"], ["Remove", 0], ["Reset", 2],
                                  ["NewSession", "A"], ["OpenId", 1, "9bfd29df07674bc4aa960cf661b5acd2"], ["Remove", 2],
                                  ["Clear", 3], ["Init", 0, False], ["Remove", 3], ["Init", 0, False], ["Ids", 1]],
    # a handle opened by id on a fresh Project (cache miss, state point never read): rejected assignment, then an edit
    "byid-fresh-rejected-assignment": [["NewSession", "A"], ["OpenSp", 0, typed({"a": 0, "b": 0})], ["Init", 0, False],
                                       ["OpenSp", 0, typed({"a": 1, "b": 0})], ["Init", 1, False], ["NewSession", "A"],
                                       ["OpenId", 1, "7f9fb369851609ce9cb91404549393f3"],
                                       ["Assign", 2, typed({"a": 1, "b": 0})], ["Edit", 2, [], ["set", "c", typed(0)]],
                                       ["Sp", 2], ["IdPath", 2]],
    # cached_statepoint / repr read before and after a re-key, through the handle and its shallow copy
    "read-rekey-read": [["NewSession", "A"], ["OpenSp", 0, typed({"a": 0})], ["Init", 0, False], ["Copy", 0],
                        ["Cached", 0], ["Repr", 1], ["Edit", 0, [], ["set", "a", typed(1)]], ["Cached", 0], ["Repr", 1],
                        ["Cached", 1], ["Repr", 0], ["IdPath", 1]],
    # two independent by-id handles of one job on one Project object; re-key through one; the other and a re-opened old id
    "byid-twins-rekey": [["NewSession", "A"], ["OpenSp", 0, typed({"a": 0})], ["Init", 0, False],
                         ["OpenId", 0, "9bfd29df07674bc4aa960cf661b5acd2"], ["OpenId", 0, "9bfd29df07674bc4aa960cf661b5acd2"],
                         ["Cached", 1], ["Edit", 1, [], ["set", "a", typed(1)]], ["IdPath", 2], ["Cached", 2], ["Repr", 2],
                         ["OpenId", 0, "9bfd29df07674bc4aa960cf661b5acd2"], ["Cached", 3], ["IdPath", 3],
                         ["NewSession", "A"], ["OpenId", 1, "42b7b4f2921788ea14dac5566e6f06d0"],
                         ["OpenId", 1, "42b7b4f2921788ea14dac5566e6f06d0"], ["Cached", 4],
                         ["Edit", 5, [], ["set", "b", typed(0)]], ["Cached", 4], ["IdPath", 4], ["Sp", 4]],
    # a shallow copy taken after the document access shares the document object: remove() through one empties it
    "shared-document-after-remove": [["NewSession", "A"], ["OpenSp", 0, typed({"a": 0})], ["Init", 0, False],
                                     ["DocSet", 0, "p", typed(1)], ["Copy", 0], ["Remove", 0], ["Init", 0, False],
                                     ["DocSet", 1, "q", typed("v")], ["Doc", 1], ["Remove", 1], ["Init", 1, False], ["Doc", 1]],
    # in-place edits that change only the type of a value (top level and nested), and back
    "type-only-edits": [["NewSession", "A"], ["OpenSp", 0, typed({"a": 1, "d": {"n": [0]}})], ["Init", 0, False],
                        ["DocSet", 0, "p", typed(1)], ["Sp", 0], ["Copy", 0],
                        ["Edit", 0, [], ["set", "a", typed(1.0)]], ["IdPath", 1], ["Cached", 1],
                        ["Edit", 1, [["k", "d"], ["k", "n"]], ["seti", 0, typed(False)]], ["Sp", 0],
                        ["Edit", 0, [], ["set", "a", typed(True)]], ["Edit", 0, [], ["set", "a", typed(1)]],
                        ["Edit", 0, [["k", "d"], ["k", "n"]], ["seti", 0, typed(0)]], ["IdPath", 1], ["Doc", 1]],
    # a clone of a job with symbolic links in its payload is independent of the source
    "clone-with-links": [["NewSession", "A"], ["NewSession", "B"], ["OpenSp", 0, typed({"a": 0})], ["Init", 0, False],
                         ["WriteFile", 0, ["t.dat"], "6869"], ["Link", 0, ["l_out"], "6f7574", "out", []],
                         ["Link", 0, ["sub", "l_rel"], "6869", "rel", ["t.dat"]], ["Clone", 1, 0],
                         ["ViaAppend", 1, ["l_out"], "21", "6f757421"], ["ViaAppend", 1, ["sub", "l_rel"], "21", "686921"],
                         ["Edit", 0, [], ["set", "a", typed(1)]], ["Remove", 0]],
    "lifecycle-clean": [["NewSession", "A"], ["NewSession", "B"], ["OpenSp", 0, typed({"a": 0, "c": [1, 2]})],
                        ["Init", 0, False], ["DocSet", 0, "p", typed([1, {"z": None}])],
                        ["WriteFile", 0, ["sub", "x.bin"], "00ff10"], ["Sp", 0], ["Copy", 0],
                        ["Assign", 1, typed({"a": 0, "c": [1, 3, 4]})], ["Clone", 1, 0], ["UpdateCache", 0],
                        ["Move", 0, 1], ["NewSession", "A"], ["OpenId", 2, "0"], ["Reset", 2], ["Remove", 2],
                        ["UpdateCache", 0], ["UpdateCache", 2]],
}


def gen_inputs(tier, rng):
    descs = [{"kind": "script", "name": k} for k in sorted(SCRIPTS)]
    descs += [{"kind": "script", "name": k, "prov": wsops.provenance(rng, ("A", "B"))} for k in sorted(SCRIPTS)]
    if tier == "quick":
        for _ in range(150):
            descs.append({"kind": "random", "pseed": rng.randint(0, 10 ** 9), "len": rng.randint(8, 25), "plant": rng.random() < 0.15,
                          "prov": wsops.provenance(rng, ("A", "B")) if rng.random() < 0.6 else None})
    else:
        for _ in range(1500):
            descs.append({"kind": "random", "pseed": rng.randint(0, 10 ** 9), "len": rng.randint(10, 60), "plant": rng.random() < 0.15,
                          "prov": wsops.provenance(rng, ("A", "B")) if rng.random() < 0.6 else None})
        for n in range(1, 4):
            for word in itertools.product(ALPHA, repeat=n):
                descs.append({"kind": "word", "word": list(word),
                              "prov": wsops.provenance(rng, ("A", "B")) if rng.random() < 0.5 else None})
    return descs


# reduced alphabet for the bounded-exhaustive tier: acts on a fixed prologue
# (project A with jobs {a:0} (h0, doc+file) and {a:1} (h1); project B; h2 = copy.copy(h0))
ALPHA = ["set01", "set02", "del", "assign", "update", "remove0", "remove2", "init0", "doc2", "move0", "move2", "clone0",
         "reset0", "cache", "session"]


def word_ops(word):
    ops = [["NewSession", "A"], ["NewSession", "B"], ["OpenSp", 0, typed({"a": 0, "b": 0})], ["Init", 0, False],
           ["DocSet", 0, "p", typed(1)], ["WriteFile", 0, ["data.txt"], b"hello".hex()],
           ["OpenSp", 0, typed({"a": 1, "b": 0})], ["Init", 1, False], ["Sp", 0], ["Copy", 0]]
    table = {
        "set01": ["Edit", 0, [], ["set", "a", typed(1)]],
        "set02": ["Edit", 2, [], ["set", "a", typed(2)]],
        "del": ["Edit", 0, [], ["del", "b"]],
        "assign": ["Assign", 2, typed({"a": 2, "c": [1, 2]})],
        "update": ["UpdateSp", 0, typed({"a": 1, "d": "y"}), True],
        "remove0": ["Remove", 0], "remove2": ["Remove", 2], "init0": ["Init", 0, False],
        "doc2": ["DocSet", 2, "q", typed("v")], "move0": ["Move", 0, 1], "move2": ["Move", 2, 1], "clone0": ["Clone", 1, 0],
        "reset0": ["Reset", 0], "cache": ["UpdateCache", 0], "session": ["NewSession", "A"],
    }
    return ops + [table[w] for w in word]


def random_ops(desc, W):
    """Generator: looks at the real world to pick sensible arguments."""
    import random
    rng = random.Random(desc["pseed"])
    yield ["NewSession", "A"]
    yield ["NewSession", "B"]
    sess_root = ["A", "B"]
    groups = {}          # handle -> cell group id (shallow copies share)
    copies = {}          # group -> number of handles
    planted = not desc.get("plant", False)
    shared = set()       # handles that are or were in a cell with shallow copies: pickling them recurses

    def new_group(h):
        g = len(groups) + 1000 * len(copies)
        groups[h] = g
        copies[g] = copies.get(g, 0) + 1

    dirty = set()        # handles whose in-memory state point was left modified by a failed re-key
    orphaned = set()     # shallow copies of a handle that was moved to another project

    def doc_safe(i):
        """the handle's lazily cached document object / _directory_known agree with the disk"""
        j = W.handles[i]
        if os.path.isdir(j.path):
            return (j._document is None or os.path.isfile(os.path.join(j.path, wsops.DOCF))
                    or not j._document._data)
        return not j._directory_known and j._document is None

    def sp_safe(i):
        """a state point change through the handle will find its lock and start from clean data"""
        j = W.handles[i]
        if j._statepoint_requires_init:
            return True
        return j._statepoint.filename in type(j._statepoint)._locks

    def pick_handle(pred=None):
        n = len(W.handles)
        if n == 0:
            return None
        cands = list(range(max(0, n - 4), n)) if rng.random() < 0.7 else list(range(n))
        if pred is not None and rng.random() < 0.92:
            good = [i for i in cands if pred(i)] or [i for i in range(n) if pred(i)]
            if good:
                return rng.choice(good)
        return rng.choice(cands)

    def other_session(h):
        root = W.root_of(W.handles[h])
        cands = [i for i, r in enumerate(sess_root) if r != root]
        return rng.choice(cands) if cands else None

    for _ in range(desc["len"]):
        if desc.get("plant") and _ == desc["len"] - 2:
            ws = W.sessions[0].workspace
            present = sorted(x for x in os.listdir(ws) if len(x) == 32)
            base = rng.choice(present) if present else "".join(rng.choice(HEX) for _ in range(32))
            name = rng.choice([base + ".bak", base + "~", base + "0", base[:31], base.upper(), "x" + base[1:]])
            yield ["PlantDir", ["A", "workspace", name]]
            continue
        if W.handles and rng.random() < 0.12:
            # ---- composite patterns (classes of histories that single random ops rarely compose)
            pat = rng.choice(["multikey", "mutate", "copymove", "mutate-assigned", "pickle-shared", "pickle-shared",
                              "sibling-remove", "sibling-remove", "byid-rejected", "byid-rejected", "read-rekey-read",
                              "byid-twins", "byid-twins", "shared-doc", "shared-doc", "type-only", "with-job", "with-job", "link-clone",
                              "update-falsy", "update-falsy", "doc-live", "doc-live"])
            if pat == "sibling-remove":
                # two independent live handles of one job (second open_job(sp), open_job(id=...) in the same or a fresh
                # session): the job is (re-)initialised through one, removed through the other, and then the first one
                # - which still believes the directory exists - is used: reset / init / clear / remove / document
                h = pick_handle(sp_safe)
                j = W.handles[h]
                root = W.root_of(j)
                si = [i for i, r_ in enumerate(sess_root) if r_ == root][0]
                yield ["Init", h, False]
                if W.last_out == ["unit"]:
                    before = len(W.handles)
                    how = rng.random()
                    if how < 0.4:
                        sp = j._statepoint._to_base() if not j._statepoint_requires_init else dict(j._cached_statepoint or {})
                        yield ["OpenSp", si, typed(sp)]
                    elif how < 0.7:
                        yield ["OpenId", si, W.handles[h].id]
                    else:
                        yield ["NewSession", root]
                        sess_root.append(root)
                        yield ["OpenId", len(sess_root) - 1, W.handles[h].id]
                    if len(W.handles) > before:
                        new_group(before)
                        first, second = (h, before) if rng.random() < 0.6 else (before, h)
                        if rng.random() < 0.3:
                            yield ["DocSet", first, rng.choice(DOCKEYS), typed(rng.choice(DOCVALS))]
                        if rng.random() < 0.3:
                            yield ["Init", second, False]
                        yield ["Remove", second]
                        yield rng.choice([["Reset", first], ["Reset", first], ["Init", first, False], ["Clear", first],
                                          ["Remove", first], ["Doc", first], ["Sp", first],
                                          ["Edit", first, [], ["set", "b", typed(rng.choice(VALS["b"]))]]])
                        yield rng.choice([["Contains", si, first], ["Len", si], ["Ids", si], ["Reset", second],
                                          ["Init", second, False]])
            elif pat == "update-falsy":
                # update_statepoint without overwrite on an EXISTING key that holds a falsy value (None / 0): KeyError and
                # no effect for a differing value (alone, or together with a new key), success for the same value
                h = pick_handle(sp_safe)
                if h not in dirty:
                    k = rng.choice(["a", "b", "b", "c"])
                    falsy = None if k == "b" and rng.random() < 0.7 else 0
                    yield ["Edit", h, [], ["set", k, typed(falsy)]]
                    if W.last_out == ["unit"]:
                        if rng.random() < 0.5:
                            yield ["Init", h, False]
                        other = rng.choice([v for v in VALS[k] if v != falsy or type(v) is not type(falsy)])
                        yield ["UpdateSp", h, typed({k: other}), False]
                        k2 = rng.choice([x for x in KEYS if x != k])
                        yield ["UpdateSp", h, typed({k2: rng.choice(VALS[k2]), k: other}), False]
                        yield rng.choice([["Sp", h], ["IdPath", h], ["UpdateSp", h, typed({k: falsy}), False]])
            elif pat == "doc-live":
                # job.document = <a live document object>: its own (`job.doc = job.doc`), that of a shallow copy, of a
                # second handle of the same job
                h = pick_handle(doc_safe)
                if h not in orphaned and doc_safe(h):
                    yield ["Init", h, False]
                    if W.last_out == ["unit"]:
                        yield ["DocSet", h, rng.choice(DOCKEYS), typed(rng.choice(DOCVALS))]
                        yield ["Doc", h]
                        if W.last_out[0] == "json":
                            val = W.last_out[1]
                            how = rng.random()
                            src, dst = h, h
                            if how >= 0.4:
                                before = len(W.handles)
                                if how < 0.7:
                                    yield ["Copy", h]
                                    if len(W.handles) > before:
                                        g = groups.get(h)
                                        if g is None:
                                            new_group(h)
                                            g = groups[h]
                                        groups[before] = g
                                        copies[g] = copies.get(g, 0) + 1
                                        shared.update(i for i, gg in groups.items() if gg == g)
                                else:
                                    j = W.handles[h]
                                    sp = j._statepoint._to_base() if not j._statepoint_requires_init else dict(j._cached_statepoint or {})
                                    yield ["OpenSp", [i for i, r_ in enumerate(sess_root) if r_ == W.root_of(j)][0], typed(sp)]
                                    if len(W.handles) > before:
                                        new_group(before)
                                if len(W.handles) > before:
                                    src, dst = (h, before) if rng.random() < 0.5 else (before, h)
                            yield ["DocResetLive", dst, src, val]
                            yield ["Doc", rng.choice([src, dst])]
            elif pat == "link-clone":
                # a job whose payload holds symbolic links (target outside every project / relative target inside the job;
                # links are outside the FS model, the model sees the file read through the link) is cloned; then bytes are
                # written through the CLONE's entries: the clone must be independent of the source
                h = pick_handle(sp_safe)
                s2 = other_session(h)
                if s2 is not None and h not in orphaned:
                    yield ["Init", h, False]
                    if W.last_out == ["unit"]:
                        nlink = getattr(W, "nlink", 0)      # fresh names: a link must not alias a file written later
                        W.nlink = nlink + 1
                        tname, lout, lrel = "t%d.dat" % nlink, "l_out%d" % nlink, "l_rel%d" % nlink
                        data = bytes(rng.randrange(256) for _ in range(rng.randint(1, 5))).hex()
                        # (the target of the relative link is a name no other operation writes to: in the model the
                        # link is a file of its own)
                        yield ["WriteFile", h, [tname], data]
                        out = bytes(rng.randrange(256) for _ in range(rng.randint(1, 5))).hex()
                        yield ["Link", h, [lout], out, "out", []]
                        if rng.random() < 0.6:
                            yield ["Link", h, ["sub", lrel], data, "rel", [tname]]
                        before = len(W.handles)
                        yield ["Clone", s2, h]
                        if len(W.handles) > before:
                            new_group(before)
                            yield ["ViaAppend", before, [lout], "21", out + "21"]
                            if rng.random() < 0.5:
                                yield ["ViaAppend", before, [tname], "7a", data + "7a"]
                            k = rng.choice(KEYS)
                            yield rng.choice([["Edit", h, [], ["set", k, typed(rng.choice(VALS[k]))]], ["Remove", h],
                                              ["Move", before, [i for i, r_ in enumerate(sess_root) if r_ == W.root_of(W.handles[h])][0]]])
            elif pat == "with-job":
                # a `with job:` block (init + chdir into the job directory; left again by the harness): operations of the
                # same and of other projects run while the working directory is a job directory
                h = pick_handle(sp_safe)
                if h not in orphaned and h not in dirty:
                    yield ["Enter", h]
                    if W.last_out == ["unit"]:
                        for _w in range(rng.randint(1, 3)):
                            r3 = rng.random()
                            k = rng.choice(KEYS)
                            if r3 < 0.35:
                                yield ["Edit", h, [], ["set", k, typed(rng.choice(VALS[k]))]]
                                if W.last_out == ["exn", "EDestinationExists"]:
                                    g = groups.get(h)
                                    dirty.update([h] + [i for i, gg in groups.items() if gg == g and g is not None])
                            elif r3 < 0.5:
                                yield ["DocSet", h, rng.choice(DOCKEYS), typed(rng.choice(DOCVALS))]
                            elif r3 < 0.8:
                                si = rng.randrange(len(sess_root))
                                if rng.random() < 0.5:
                                    yield ["NewSession", sess_root[si]]
                                    sess_root.append(sess_root[si])
                                    si = len(sess_root) - 1
                                before = len(W.handles)
                                yield ["OpenSp", si, typed(rand_sp(rng))]
                                if len(W.handles) > before:
                                    new_group(before)
                                    yield ["Init", before, False]
                            else:
                                yield rng.choice([["Ids", rng.randrange(len(sess_root))], ["IdPath", h], ["Sp", h]])
                        yield ["Exit", h]
                        yield ["IdPath", h]
            elif pat == "shared-doc":
                # a shallow copy taken AFTER the document was accessed shares the document object (taken before, it gets
                # its own): remove() through one, (re-)init, then a document write / read through the other
                h = pick_handle(doc_safe)
                if h not in orphaned:
                    yield ["Init", h, False]
                    if W.last_out == ["unit"]:
                        early = rng.random() < 0.25
                        c = None
                        if not early:
                            yield ["DocSet", h, rng.choice(DOCKEYS), typed(rng.choice(DOCVALS))]
                        before = len(W.handles)
                        yield ["Copy", h]
                        if len(W.handles) > before:
                            g = groups.get(h)
                            if g is None:
                                new_group(h)
                                g = groups[h]
                            groups[before] = g
                            copies[g] = copies.get(g, 0) + 1
                            shared.update(i for i, gg in groups.items() if gg == g)
                            c = before
                        if c is not None:
                            if early:
                                yield ["DocSet", h, rng.choice(DOCKEYS), typed(rng.choice(DOCVALS))]
                                if rng.random() < 0.5:
                                    yield ["Doc", c]
                            remover, other = (h, c) if rng.random() < 0.5 else (c, h)
                            yield ["Remove", remover]
                            if rng.random() < 0.8:
                                yield ["Init", rng.choice([remover, other]), False]
                            yield rng.choice([["DocSet", other, rng.choice(DOCKEYS), typed(rng.choice(DOCVALS))],
                                              ["DocSet", other, rng.choice(DOCKEYS), typed(rng.choice(DOCVALS))],
                                              ["Doc", other], ["DocReset", other, typed({"q": 1})]])
                            yield ["Doc", remover]
            elif pat == "type-only":
                # an in-place edit that changes only the TYPE of a value (1 -> 1.0 / True, nested 0 -> False): a new id;
                # then the edit back (whole assignments of ==-equal values are C04's finding 3 and stay excluded)
                h = pick_handle(sp_safe)
                j = W.handles[h]
                if h not in dirty:
                    yield ["Init", h, False]
                    sp = j._statepoint._to_base() if not j._statepoint_requires_init else dict(j._cached_statepoint or {})
                    cands = []
                    for k in sorted(sp):
                        v = sp[k]
                        if type(v) is int:
                            cands.append(([], "set", k, v, [float(v)] + ([bool(v)] if v in (0, 1) else [])))
                        elif isinstance(v, list) and v and type(v[0]) is int:
                            cands.append(([["k", k]], "seti", 0, v[0], [float(v[0])] + ([bool(v[0])] if v[0] in (0, 1) else [])))
                        elif isinstance(v, dict) and isinstance(v.get("n"), list) and v["n"] and type(v["n"][0]) is int:
                            cands.append(([["k", k], ["k", "n"]], "seti", 0, v["n"][0], [False, 0.0]))
                    if cands and W.last_out == ["unit"]:
                        path, act, key, orig, variants = rng.choice(cands)
                        yield ["Edit", h, path, [act, key, typed(rng.choice(variants))]]
                        ok = W.last_out == ["unit"]
                        yield rng.choice([["Sp", h], ["IdPath", h], ["Cached", h], ["Ids", 0]])
                        if ok:
                            yield ["Edit", h, path, [act, key, typed(orig)]]
            elif pat == "byid-twins":
                # two INDEPENDENT by-id handles of one job on one Project object (both served from / reading through the
                # same entry of its state point cache); a re-key through one; then id / cached_statepoint / statepoint of
                # the other, and the old id opened once more: an independent handle need not follow, but it must never
                # show a state point that does not hash to its id
                h = pick_handle(sp_safe)
                j = W.handles[h]
                root = W.root_of(j)
                si = [i for i, r_ in enumerate(sess_root) if r_ == root][0]
                yield ["Init", h, False]
                if W.last_out == ["unit"]:
                    old_id = W.handles[h].id
                    if rng.random() < 0.5:
                        yield ["NewSession", root]
                        sess_root.append(root)
                        si = len(sess_root) - 1
                    b1 = len(W.handles)
                    yield ["OpenId", si, old_id]
                    if len(W.handles) > b1:
                        new_group(b1)
                        if rng.random() < 0.7:
                            yield [rng.choice(["Cached", "Repr", "Sp"]), b1]
                        b2 = len(W.handles)
                        yield ["OpenId", si, old_id]
                        if len(W.handles) > b2:
                            new_group(b2)
                            if rng.random() < 0.4:
                                yield [rng.choice(["Cached", "Repr"]), b2]
                            k = rng.choice(KEYS)
                            mover, other = (b1, b2) if rng.random() < 0.6 else (b2, b1)
                            yield rng.choice([["Edit", mover, [], ["set", k, typed(rng.choice(VALS[k]))]],
                                              ["UpdateSp", mover, typed({k: rng.choice(VALS[k])}), True]])
                            if W.last_out == ["exn", "EDestinationExists"]:
                                dirty.add(mover)
                            yield ["IdPath", other]
                            yield ["Cached", other]
                            yield rng.choice([["Repr", other], ["Sp", other], ["IdPath", mover]])
                            b3 = len(W.handles)
                            yield ["OpenId", si, old_id]
                            if len(W.handles) > b3:
                                new_group(b3)
                                yield ["Cached", b3]
                                yield ["IdPath", b3]
            elif pat == "byid-rejected":
                # a handle obtained by id on a FRESH Project object (no persistent cache unless the history wrote one),
                # state point never read through it; a whole assignment / update that collides with another initialised
                # job is rejected; then a further edit through the same handle
                h = pick_handle(sp_safe)
                j = W.handles[h]
                root = W.root_of(j)
                si = [i for i, r_ in enumerate(sess_root) if r_ == root][0]
                yield ["Init", h, False]
                if W.last_out == ["unit"]:
                    sp = j._statepoint._to_base() if not j._statepoint_requires_init else dict(j._cached_statepoint or {})
                    k = rng.choice(KEYS)
                    other = {**sp, k: rng.choice([v for v in VALS[k] if k not in sp or sp[k] != v])}
                    before = len(W.handles)
                    yield ["OpenSp", si, typed(other)]
                    if len(W.handles) > before:
                        new_group(before)
                        yield ["Init", before, False]
                    yield ["NewSession", root]
                    sess_root.append(root)
                    before = len(W.handles)
                    yield ["OpenId", len(sess_root) - 1, W.handles[h].id]
                    if len(W.handles) > before:
                        new_group(before)
                        g = before
                        r2 = rng.random()
                        if r2 < 0.15:
                            yield ["Cached", g]
                        elif r2 < 0.25:
                            yield ["Sp", g]
                        if rng.random() < 0.6:
                            yield ["Assign", g, typed(other)]
                        else:
                            yield ["UpdateSp", g, typed({k: other[k]}), True]
                        k2 = rng.choice([x for x in KEYS if x != k])
                        yield ["Edit", g, [], ["set", k2, typed(rng.choice(VALS[k2]))]]
                        yield rng.choice([["Sp", g], ["IdPath", g], ["Cached", g]])
            elif pat == "read-rekey-read":
                # cached_statepoint / repr read BEFORE a state point change, through the handle and a shallow copy, and
                # again afterwards (anything memoised by a read must follow the re-key)
                h = pick_handle(sp_safe)
                if h not in orphaned:
                    if rng.random() < 0.7:
                        yield ["Init", h, False]
                    before = len(W.handles)
                    yield ["Copy", h]
                    c = None
                    if len(W.handles) > before:
                        g = groups.get(h)
                        if g is None:
                            new_group(h)
                            g = groups[h]
                        groups[before] = g
                        copies[g] = copies.get(g, 0) + 1
                        shared.update(i for i, gg in groups.items() if gg == g)
                        c = before
                    readers = [x for x in (h, c) if x is not None]
                    for x in readers:
                        yield [rng.choice(["Cached", "Repr"]), x]
                    k = rng.choice(KEYS)
                    yield ["Edit", rng.choice(readers), [], ["set", k, typed(rng.choice(VALS[k]))]]
                    if W.last_out == ["exn", "EDestinationExists"]:
                        g = groups.get(h)
                        dirty.update([h] + [i for i, gg in groups.items() if gg == g and g is not None])
                    for x in readers:
                        yield [rng.choice(["Cached", "Repr"]), x]
                        yield ["IdPath", x]
            elif pat == "multikey":
                h = pick_handle(sp_safe)
                j = W.handles[h]
                sp = j._statepoint._to_base() if not j._statepoint_requires_init else dict(j._cached_statepoint or {})
                ks = rng.sample(KEYS, rng.choice([2, 2, 3]))
                u = {}
                for k in ks:
                    cands = [v for v in VALS[k] if k not in sp or sp[k] != v]
                    u[k] = rng.choice(cands)
                # a neighbour at a partially updated state point (any proper non-empty subset of the keys, in the
                # order the update is written) or at the final one
                order = list(u)
                cut = rng.randint(1, len(order))
                partial = {**sp, **{k: u[k] for k in order[:cut]}}
                if rng.random() < 0.8:
                    before = len(W.handles)
                    yield ["OpenSp", [i for i, r_ in enumerate(sess_root) if r_ == W.root_of(j)][0],
                           typed(partial)]
                    if len(W.handles) > before:
                        new_group(before)
                        yield ["Init", before, False]
                if rng.random() < 0.3 and os.path.isdir(j.path) is False:
                    yield ["Init", h, False]
                yield ["UpdateSp", h, typed(u), rng.random() < 0.8]
                if W.last_out == ["exn", "EDestinationExists"]:
                    g = groups.get(h)
                    dirty.update([h] + [i for i, gg in groups.items() if gg == g and g is not None])
            elif pat == "pickle-shared":
                # pickle (same process / freshly started process) of a handle that HAS a live shallow copy, of the
                # copy itself, or of both in one pickle; then operations through the restored handle(s)
                h = pick_handle(sp_safe)
                g = groups.get(h)
                mates = [i for i, gg in groups.items() if gg == g and i != h and g is not None and i not in orphaned]
                if not mates and h not in orphaned:
                    if rng.random() < 0.6:
                        yield ["Init", h, False]
                    before = len(W.handles)
                    yield ["Copy", h]
                    if len(W.handles) > before:
                        if g is None:
                            new_group(h)
                            g = groups[h]
                        groups[before] = g
                        copies[g] = copies.get(g, 0) + 1
                        mates = [before]
                if mates:
                    c = rng.choice(mates)
                    k = rng.choice(KEYS)
                    edit = [[], ["set", k, typed(rng.choice(VALS[k]))]]
                    mode = rng.choice(["one", "copy", "pair", "fresh-one", "fresh-pair"])
                    if mode in ("one", "copy"):
                        before, ns = len(W.handles), len(W.sessions)
                        yield ["Pickle", h if mode == "one" else c]
                        if len(W.handles) > before:
                            new_group(before)
                            if len(W.sessions) > ns:
                                sess_root.append(W.root_of(W.sessions[-1]))
                            yield rng.choice([["Edit", before] + edit, ["Init", before, False], ["Sp", before]])
                            yield ["IdPath", before]
                    elif mode == "pair":
                        before, ns = len(W.handles), len(W.sessions)
                        yield ["Pickle2", h, c]
                        if len(W.handles) > before:
                            new_group(before)
                            groups[before + 1] = groups[before]
                            copies[groups[before]] = 2
                            if len(W.sessions) > ns:
                                sess_root.append(W.root_of(W.sessions[-1]))
                            first, second = (before, before + 1) if rng.random() < 0.5 else (before + 1, before)
                            if rng.random() < 0.5:
                                yield ["Init", first, False]
                            yield ["Edit", first] + edit
                            yield ["IdPath", second]
                            yield ["Sp", second]
                    else:
                        fops = [["Sp", 0], ["IdPath", 0]]
                        two = mode == "fresh-pair"
                        r2 = rng.random()
                        if r2 < 0.35:
                            fops.append(["Init", 0])
                        if r2 < 0.7:
                            fops.append(["DocSet", 1 if two else 0, rng.choice(DOCKEYS), typed(rng.choice(DOCVALS))])
                        if rng.random() < 0.5:
                            fops.append(["Edit", 0] + edit)
                            fops.append(["IdPath", 1 if two else 0])
                        yield ["Fresh", h, c if two else None, fops]
            elif pat == "mutate-assigned":
                # the caller keeps mutating the mapping it assigned / passed to update_statepoint; the job is then
                # opened by id in the same session and, after update_cache, in a fresh one (fix 64999d6)
                h = pick_handle(sp_safe)
                j = W.handles[h]
                si = [i for i, r_ in enumerate(sess_root) if r_ == W.root_of(j)][0]
                k = rng.choice(["c", "d"])
                val = rng.choice([v for v in VALS[k] if isinstance(v, (list, dict))])
                yield ["Init", h, False]
                if rng.random() < 0.5:
                    yield ["Assign", h, typed({**rand_sp(rng), k: val})]
                else:
                    yield ["UpdateSp", h, typed({k: val, "a": rng.choice(VALS["a"])}), True]
                if W.last_out == ["unit"]:
                    yield ["MutateAssigned", h, rng.choice(["x", "n"]), typed(rng.choice([9, "z"])), rng.random() < 0.85]
                    jid = W.handles[h].id
                    before = len(W.handles)
                    yield ["OpenId", si, jid]
                    if len(W.handles) > before:
                        new_group(before)
                        yield ["Sp", before]
                    yield ["UpdateCache", si]
                    yield ["NewSession", sess_root[si]]
                    sess_root.append(sess_root[si])
                    before = len(W.handles)
                    yield ["OpenId", len(sess_root) - 1, jid]
                    if len(W.handles) > before:
                        new_group(before)
                        yield ["Sp", before]
                        yield ["Cached", before]
                elif W.last_out == ["exn", "EDestinationExists"]:
                    g = groups.get(h)
                    dirty.update([h] + [i for i, gg in groups.items() if gg == g and g is not None])
            elif pat == "mutate":
                sp = rand_sp(rng)
                nested = [k for k in sp if isinstance(sp[k], (list, dict))]
                if not nested:
                    k = rng.choice(["c", "d"])
                    sp[k] = rng.choice([v for v in VALS[k] if isinstance(v, (list, dict))])
                before = len(W.handles)
                yield ["OpenSp", rng.randrange(len(sess_root)), typed(sp)]
                if len(W.handles) > before:
                    new_group(before)
                    for _m in range(rng.randint(1, 2)):
                        yield ["MutateArg", before, rng.choice(["x", "n", "a"]), typed(rng.choice([9, "z", [1]])), rng.random() < 0.85]
                    k = rng.choice(KEYS)
                    yield rng.choice([["Init", before, False],
                                      ["Edit", before, [], ["set", k, typed(rng.choice(VALS[k]))]],
                                      ["UpdateSp", before, typed({k: rng.choice(VALS[k])}), True],
                                      ["DocSet", before, rng.choice(DOCKEYS), typed(1)],
                                      ["Sp", before], ["Cached", before]])
                    if rng.random() < 0.5:
                        yield ["Init", before, False]
            else:
                h = pick_handle(sp_safe)
                s2 = other_session(h)
                if s2 is not None and h not in orphaned:
                    if rng.random() < 0.7:
                        yield ["Init", h, False]
                    if rng.random() < 0.5:
                        yield ["Sp", h]
                    before = len(W.handles)
                    yield ["Copy", h]
                    if len(W.handles) > before:
                        g = groups.get(h)
                        if g is None:
                            new_group(h)
                            g = groups[h]
                        groups[before] = g
                        copies[g] = copies.get(g, 0) + 1
                        shared.update(i for i, gg in groups.items() if gg == g)
                        mover, stayer = (before, h) if rng.random() < 0.7 else (h, before)
                        yield ["Move", mover, s2]
                        if W.last_out == ["unit"]:
                            orphaned.update(i for i, gg in groups.items() if gg == g and i != mover)
                            groups.pop(mover, None)
                            new_group(mover)
                            if rng.random() < 0.4:
                                yield ["Init", stayer, False]
                            k = rng.choice(KEYS)
                            yield ["Edit", stayer, [], ["set", k, typed(rng.choice(VALS[k]))]]
                            yield rng.choice([["IdPath", mover], ["Contains", s2, mover], ["DocSet", mover, "q", typed("v")]])
            continue
        r = rng.random()
        nh = len(W.handles)
        if 0.24 <= r < 0.40:
            h = pick_handle(sp_safe)
        elif 0.40 <= r < 0.63:
            h = pick_handle(doc_safe)
        else:
            h = pick_handle()
        if r < 0.14 or h is None:
            before = len(W.handles)
            yield ["OpenSp", rng.randrange(len(sess_root)), typed(rand_sp(rng))]
            if len(W.handles) > before:
                new_group(before)
        elif r < 0.24:
            yield ["Init", h, False]
        elif r < 0.40:
            # a state point edit through h
            j = W.handles[h]       # peek without side effects (job.statepoint would create the _StatePointDict)
            if not j._statepoint_requires_init:
                sp = j._statepoint._to_base()
            else:
                sp = dict(j._cached_statepoint or {})
            k = rng.choice(KEYS)
            choice = rng.random()
            if choice < 0.5:
                yield ["Edit", h, [], ["set", k, typed(rng.choice(VALS[k]))]]
            elif choice < 0.65 and sp:
                yield ["Edit", h, [], ["del", rng.choice(sorted(sp))]]
            elif choice < 0.8:
                lists = [x for x in sorted(sp) if isinstance(sp[x], list)]
                if lists:
                    x = rng.choice(lists)
                    if rng.random() < 0.5:
                        yield ["Edit", h, [["k", x]], ["append", typed(rng.choice([3, 9]))]]
                    else:
                        yield ["Edit", h, [["k", x]], ["seti", 0, typed(rng.choice([5, 1]))]]
                else:
                    yield ["Edit", h, [], ["set", k, typed(rng.choice(VALS[k]))]]
            elif choice < 0.9:
                yield ["Assign", h, typed(rand_sp(rng))]
            else:
                u = {k: rng.choice(VALS[k])}
                if rng.random() < 0.5:
                    u[rng.choice(KEYS)] = 0
                yield ["UpdateSp", h, typed(u), rng.random() < 0.5]
            if W.last_out == ["exn", "EDestinationExists"]:
                g = groups.get(h)
                dirty.update([h] + [i for i, gg in groups.items() if gg == g and g is not None])
        elif r < 0.47:
            yield ["Remove", h]
        elif r < 0.50:
            yield ["Clear", h]
        elif r < 0.53:
            yield ["Reset", h]
        elif r < 0.63:
            if rng.random() < 0.7:
                yield ["DocSet", h, rng.choice(DOCKEYS), typed(rng.choice(DOCVALS))]
            else:
                yield ["DocReset", h, typed({rng.choice(DOCKEYS): rng.choice(DOCVALS)})]
        elif r < 0.69:
            if os.path.isfile(os.path.join(W.handles[h].path, wsops.SPF)):
                yield ["WriteFile", h, rng.choice(FILES), bytes(rng.randrange(256) for _ in range(rng.randint(0, 6))).hex()]
            else:
                yield ["Init", h, False]
        elif r < 0.74:
            s = other_session(h)
            if s is not None:
                g = groups.get(h)
                yield ["Move", h, s]
                if W.last_out == ["unit"]:
                    orphaned.update(i for i, gg in groups.items() if gg == g and i != h)
                    groups.pop(h, None)
                    new_group(h)
        elif r < 0.79:
            s = other_session(h)
            if s is not None:
                before = len(W.handles)
                yield ["Clone", s, h]
                if len(W.handles) > before:
                    new_group(before)
        elif r < 0.84:
            if rng.random() < 0.5:       # since fix 0894ce6 a copy taken before the state point was accessed follows too
                yield ["Sp", h]
            before = len(W.handles)
            yield ["Copy", h]
            if len(W.handles) > before:
                g = groups.get(h)
                if g is None:
                    new_group(h)
                    g = groups[h]
                groups[before] = g
                copies[g] = copies.get(g, 0) + 1
                shared.update(i for i, gg in groups.items() if gg == g)
        elif r < 0.87:
            before = len(W.handles)
            ns = len(W.sessions)
            if rng.random() < 0.5:
                yield ["DeepCopy", h]
            else:
                yield ["Pickle", h]
            if len(W.handles) > before:
                new_group(before)
                if h in shared:          # the deep copy owns a copy of the cell with all its _jobs
                    shared.add(before)
                if h in orphaned:        # ... including the copy of a handle that was moved away
                    orphaned.add(before)
            if len(W.sessions) > ns:
                sess_root.append(W.root_of(W.sessions[-1]))
        elif r < 0.90:
            s = rng.randrange(len(sess_root))
            yield ["NewSession", sess_root[s]]
            sess_root.append(sess_root[s])
        elif r < 0.93:
            yield ["UpdateCache", rng.randrange(len(sess_root))]
        elif r < 0.97:
            s = rng.randrange(len(sess_root))
            ws = W.sessions[s].workspace
            present = sorted(d for d in os.listdir(ws) if len(d) == 32) if os.path.isdir(ws) else []
            before = len(W.handles)
            if present and rng.random() < 0.8:
                t = rng.choice(present)
                yield ["OpenId", s, t[:rng.choice([32, 32, 8, 4])]]
            else:
                yield ["OpenId", s, "".join(rng.choice(HEX) for _ in range(32))]
            if len(W.handles) > before:
                new_group(before)
        elif r < 0.985 or planted or _ < desc["len"] - 3:
            yield rng.choice([["Ids", rng.randrange(len(sess_root))], ["Len", rng.randrange(len(sess_root))],
                              ["Contains", rng.randrange(len(sess_root)), h], ["Sp", h]])
        elif not planted and _ >= desc["len"] - 3:
            planted = True
            ws = W.sessions[0].workspace
            present = sorted(d for d in os.listdir(ws) if len(d) == 32)
            base = rng.choice(present) if present else "".join(rng.choice(HEX) for _ in range(32))
            yield ["PlantDir", ["A", "workspace", base + rng.choice([".bak", "~", "_old"])]]
        else:
            yield ["Sp", h]


def run_case(desc):
    L = wsops.Lit()
    steps, log = [], []
    kinds = {desc["kind"]}
    changes, rekeys = 0, 0
    cwd0 = os.getcwd()
    W = None
    with scratch_dir("c03") as d:
        try:
            W = wsops.provenance_world(d, desc["prov"]) if desc.get("prov") else wsops.World(d)
            if desc["kind"] == "word":
                gen = word_ops(desc["word"])
            elif desc["kind"] == "script":
                gen = SCRIPTS[desc["name"]]
            else:
                gen = random_ops(desc, W)
            prev_ids = None
            for op in gen:
                out = W.run(op)
                W.last_out = out
                if out is None:          # harness-only op (the caller mutates the mapping it passed to open_job)
                    log.append([op, None, "same"])
                    kinds.add(op[0])
                    continue
                snap = W.run(["Snap"])
                steps.append("(mkStep3 %s %s %s)" % (wsops.coq_op(L, op), wsops.coq_oval(L, out), wsops.coq_oval(L, snap)))
                log.append([op, out, "same" if snap[0] == "snapsame" else
                            [[r, [(j["id"], j["sp"], j["doc"], [f[0] for f in j["files"]]) for j in js], ok]
                             for r, js, ok in snap[2]]])
                kinds.add(op[0])
                if out[0] == "exn":
                    kinds.add(out[1])
                if snap[0] == "snap":
                    ids = [(r, [j["id"] for j in js]) for r, js, _ in snap[2]]
                    if ids != prev_ids:
                        changes += 1
                    prev_ids = ids
                if op[0] in ("Edit", "Assign", "UpdateSp", "Move", "Clone") and out == ["unit"] or out[0] == "str" and op[0] == "Clone":
                    rekeys += 1
        finally:
            if W is not None:
                W.leave_all()
            os.chdir(cwd0)      # before the scratch directory is removed
    if W is not None and getattr(W, "cwd_leaks", 0):
        kinds.add("cwd-not-restored-after-with-job")
    body = "(mkCase3 %s %s)" % (L.ftab(), coq_list(steps, "step_C03"))
    return Case(L.wrap(body), desc, obs=log, nontrivial=(changes >= 2 and rekeys >= 1),
                key=json.dumps([l[0] for l in log], sort_keys=True), kinds=sorted(kinds))


def search(desc):
    out = []
    if desc.get("kind") == "random":
        n = desc["len"]
        while n > 1:
            n = n * 2 // 3
            out.append({**desc, "len": n})
    elif desc.get("kind") == "word":
        w = desc["word"]
        for i in range(len(w)):
            out.append({**desc, "word": w[:i] + w[i + 1:]})
    return out
