"""Developer aid: evaluate the individual oracle clauses of C13 / C14 / C15 on one scenario.

usage (environment as in bin/check):  python -m harness.sync_debug C15 <replay-or-desc.json> ['extra Coq term' ...]
Inside the terms: cc : case_sync, c := cs_case cc, fr := cs_frepr cc.
"""
import json
import os
import subprocess
import sys

from . import sync_gen
from .common import COQ  # noqa

CLAUSES = {
    "C13": ["ob_rest_ok (c_obs c)", "proj_eqb fr (i_src (c_in c)) (ob_src (c_obs c))", "wants_again (c_in c) (c_obs c)",
            "superset fr (c_in c) (c_obs c)", "dst_only fr (c_in c) (c_obs c)", "nothing_else fr (c_in c) (c_obs c)",
            "idempotent fr c", "schema_ok fr (c_in c) (c_obs c)", "holds_C13 fr c", "perm_mismatch cc", "perm_frame_ok cc"],
    "C14": ["files_ok fr (c_in c) (c_obs c)", "docs_ok fr (c_in c) (c_obs c)", "no_backup_left (c_in c) (c_obs c)", "holds_C14 fr c", "perm_mismatch cc", "perm_frame_ok cc"],
    "C15": ["dry_ok fr c", "deep_ok fr (c_in c) (c_obs c)", "exclude_ok fr (c_in c) (c_obs c)", "selection_ok fr (c_in c) (c_obs c)",
            "parallel_ok fr c", "holds_C15 fr c", "perm_mismatch cc", "perm_dry_ok cc"],
}


def main():
    prop, path = sys.argv[1], sys.argv[2]
    payload = json.load(open(path))
    desc = payload.get("input", payload)
    case = sync_gen.run_scenario(desc, prop)
    import tempfile

    out = os.path.join(tempfile.mkdtemp(prefix="sync-debug."), "debug_%s.v" % prop)
    with open(out, "w") as fh:
        fh.write("From SV Require Import Base Json Canon Sync SyncObs CorrC13 Corr%s.\nLocal Open Scope N_scope.\n" % prop)
        fh.write("Definition cc : case_sync := %s.\nDefinition c := cs_case cc.\nDefinition fr := cs_frepr cc.\n" % case.coq)
        fh.write("Eval vm_compute in (mismatch_case cc).\n")
        fh.write("Eval vm_compute in (ob_exn (model_call fr cfg_current (i_opts (c_in c)) (i_entry (c_in c)) (i_src (c_in c)) (i_dst (c_in c))), ob_exn (c_obs c)).\n")
        for cl in CLAUSES[prop]:
            fh.write("Eval vm_compute in (%s).\n" % cl)
        for extra in sys.argv[3:]:
            fh.write("Eval vm_compute in (%s).\n" % extra)
    p = subprocess.run(["coqc", "-Q", os.path.join(COQ, "theories"), "SV", out], stdout=subprocess.PIPE, stderr=subprocess.STDOUT, text=True)
    outs = [x.strip() for x in p.stdout.split("\n     = ")]
    names = ["mismatch", "exn model/impl"] + CLAUSES[prop] + sys.argv[3:]
    print(json.dumps(case.obs)[:1500])
    if p.returncode:
        print(p.stdout[-3000:])
    for n, o in zip(names, [x for x in p.stdout.replace("\n", " ").split("     = ") if x.strip()]):
        print(f"{n:60s} {o[:300]}")


main()
