"""bin/check driver: proofs + audit + correspondence + verdict + evidence."""
import fcntl
import hashlib
import importlib
import json
import multiprocessing
import os
import random
import re
import shutil
import subprocess
import sys
import time
import traceback

from . import common
from .common import COQ, VERIF, Case

NPROC = min(16, os.cpu_count() or 4)
FORBIDDEN = re.compile(
    r"\b(Admitted|admit|Axiom|Axioms|Parameter|Parameters|Conjecture|Abort|Admit Obligations|"
    r"Unset Guard Checking|Unset Positivity Checking|Unset Universe Checking|bypass_check|"
    r"type-in-type|impredicative-set|native_compute)\b"
)


def log(*a):
    print(*a, flush=True)


# ------------------------------------------------------------------ coq build
def coq_files():
    out = []
    for sub in ("theories", "props"):
        d = os.path.join(COQ, sub)
        for f in sorted(os.listdir(d)):
            if f.endswith(".v"):
                out.append(os.path.join(sub, f))
    return out


def build_coq(targets=None):
    """.vo build via coq_makefile/make (incremental), serialised by a lock.
    With targets, only those .vo files and their dependency closure are (re)built, so that a
    half-edited file of another property cannot break this property's check; bin/setup builds all."""
    lock = open(os.path.join(COQ, ".build.lock"), "w")
    fcntl.flock(lock, fcntl.LOCK_EX)
    try:
        cp = os.path.join(COQ, "_CoqProject")
        want = "-Q theories SV\n-Q props SVP\n" + "\n".join(coq_files()) + "\n"
        if not os.path.exists(cp) or open(cp).read() != want:
            open(cp, "w").write(want)
        if (not os.path.exists(os.path.join(COQ, "Makefile"))
                or os.path.getmtime(os.path.join(COQ, "Makefile")) < os.path.getmtime(cp)):
            subprocess.run(["coq_makefile", "-f", "_CoqProject", "-o", "Makefile"], cwd=COQ,
                           check=True, stdout=subprocess.DEVNULL, stderr=subprocess.DEVNULL)
        p = subprocess.run(["timeout", "3000", "make", f"-j{NPROC}"] + list(targets or []), cwd=COQ,
                           stdout=subprocess.PIPE, stderr=subprocess.STDOUT, text=True)
        return p.returncode == 0, p.stdout[-6000:]
    finally:
        fcntl.flock(lock, fcntl.LOCK_UN)
        lock.close()


def closure_files(roots):
    """Transitive closure of `From SV(P) Require Import/Export …` starting from the given .v files."""
    seen, todo = set(), list(roots)
    while todo:
        rel = todo.pop()
        if rel in seen or not os.path.exists(os.path.join(COQ, rel)):
            continue
        seen.add(rel)
        txt = open(os.path.join(COQ, rel)).read()
        for m in re.finditer(r"From\s+SVP?\s+Require\s+(?:Import|Export)?\s*([^.]*)\.", txt):
            for name in m.group(1).split():
                for sub in ("theories", "props"):
                    cand = os.path.join(sub, name + ".v")
                    if os.path.exists(os.path.join(COQ, cand)):
                        todo.append(cand)
    return sorted(seen)


def static_audit(files=None):
    """Forbidden vernacular in the given files (default: every .v of the development)."""
    bad = []
    for rel in (files if files is not None else coq_files()):
        with open(os.path.join(COQ, rel)) as fh:
            for i, line in enumerate(fh, 1):
                if FORBIDDEN.search(line):
                    bad.append(f"{rel}:{i}: {line.strip()}")
    return bad


def print_assumptions(prop, scratch):
    """Re-check props/<prop>.v from scratch and collect Print Assumptions output per theorem."""
    src = os.path.join(COQ, "props", f"{prop}.v")
    if not os.path.exists(src):
        return False, {}, "missing props file"
    dst = os.path.join(scratch, f"{prop}_recheck.v")
    shutil.copy(src, dst)
    p = subprocess.run(["timeout", "900", "coqc", "-Q", os.path.join(COQ, "theories"), "SV", dst],
                       cwd=scratch, stdout=subprocess.PIPE, stderr=subprocess.STDOUT, text=True)
    names = re.findall(r"^Print Assumptions (\w+)\.", open(src).read(), re.M)
    out = p.stdout
    # split output into one block per Print Assumptions, in order
    blocks = re.split(r"(?=Closed under the global context|Axioms:)", out)
    blocks = [b.strip() for b in blocks if b.strip().startswith(("Closed", "Axioms:"))]
    res = {}
    for n, b in zip(names, blocks):
        res[n] = "closed" if b.startswith("Closed") else " ".join(b.split())
    ok = p.returncode == 0 and len(blocks) == len(names)
    return ok, res, out[-3000:]


# ------------------------------------------------------------------ shards
def write_shard(mod, cases, path):
    with open(path, "w") as fh:
        fh.write(f"From SV Require Import {mod.IMPORTS}.\n")
        fh.write("Local Open Scope N_scope.\n")
        pre = getattr(mod, "SHARD_PRELUDE", "")
        if pre:
            fh.write(pre + "\n")
        seen = set()
        for c in cases:
            for name, text in getattr(c, "prelude", ()):
                if name not in seen:
                    seen.add(name)
                    fh.write(text + "\n")
        fh.write(f"Definition cases : list {mod.CASE_TYPE} :=\n [\n")
        fh.write(";\n".join("  " + c.coq for c in cases))
        fh.write("\n ].\n")
        fh.write(f"Eval vm_compute in ({mod.MISMATCHES} cases).\n")
        fh.write(f"Eval vm_compute in ({mod.VIOLATIONS} cases).\n")
        known = getattr(mod, "KNOWN", None)
        if known:
            fh.write(f"Eval vm_compute in ({known} cases).\n")


def parse_lists(out):
    """Each Eval prints '= [...] : list N'; return list of int lists."""
    res = []
    for m in re.finditer(r"=\s*(\[.*?\]|nil)\s*:\s*list\s+N", out, re.S):
        res.append([int(x) for x in re.findall(r"(\d+)(?:%N)?", m.group(1))])
    return res


def run_shard(args):
    path, nlists = args
    d = os.path.dirname(path)
    p = subprocess.run(
        ["bash", "-c", f"ulimit -s unlimited 2>/dev/null; exec timeout 1500 coqc -Q {COQ}/theories SV {path}"],
        cwd=d, stdout=subprocess.PIPE, stderr=subprocess.STDOUT, text=True)
    lists = parse_lists(p.stdout)
    ok = p.returncode == 0 and len(lists) == nlists
    return ok, lists, p.stdout[-2000:]


_COV = None


def _cov_start():
    """Diagnostic only (bin/covmap): with VERIF_COVERAGE=<dir> every process that runs cases records which lines
    of the implementation the correspondence inputs execute; never set by a registered check."""
    global _COV
    d = os.environ.get("VERIF_COVERAGE")
    if d and (_COV is None or _COV[0] != os.getpid()):
        import coverage
        root = os.path.join(os.environ.get("VERIF_REPO", "/repo"), "signac")
        c = coverage.Coverage(data_file=os.path.join(d, "cov"), data_suffix=True, branch=False,
                              include=[os.path.join(root, "*")])
        c.start()
        _COV = (os.getpid(), c)


def _run_case(args):
    modname, desc = args
    mod = importlib.import_module(modname)
    _cov_start()
    try:
        return mod.run_case(desc)
    except Exception:
        return ("ERROR", desc, traceback.format_exc())
    finally:
        if _COV is not None and _COV[0] == os.getpid():
            _COV[1].save()


def run_cases(mod, descs):
    """Run the implementation on every input (parallel), return Cases."""
    serial = getattr(mod, "SERIAL", False)
    if serial or len(descs) < 8:
        out = [_run_case((mod.__name__, d)) for d in descs]
    else:
        chunk = max(1, len(descs) // (NPROC * 8))
        with multiprocessing.get_context("fork").Pool(NPROC) as pool:
            out = pool.map(_run_case, [(mod.__name__, d) for d in descs], chunksize=chunk)
    return out


def evaluate(mod, cases, scratch):
    """Compile shards; return (ok, mismatches, violations, known{idx:tag}, logs)."""
    size = getattr(mod, "SHARD", 250)
    nlists = 3 if getattr(mod, "KNOWN", None) else 2
    shards = []
    for k in range(0, len(cases), size):
        path = os.path.join(scratch, f"shard_{k // size}.v")
        write_shard(mod, cases[k:k + size], path)
        shards.append((k, path))
    with multiprocessing.get_context("fork").Pool(min(NPROC, max(1, len(shards)))) as pool:
        res = pool.map(run_shard, [(p, nlists) for _, p in shards])
    mism, viol, known, bad = [], [], {}, []
    for (k, path), (ok, lists, tail) in zip(shards, res):
        if not ok:
            bad.append((path, tail))
            continue
        mism += [k + i for i in lists[0]]
        viol += [k + i for i in lists[1]]
        if nlists == 3:
            for code in lists[2]:
                known[k + code // 100] = code % 100
    return len(shards), bad, mism, viol, known


# ------------------------------------------------------------------ known findings
def load_known(prop):
    out = {}
    paths = [os.path.join(VERIF, "known_findings.json")]
    d = os.path.join(VERIF, "known_findings.d")
    if os.path.isdir(d):
        paths += [os.path.join(d, f) for f in sorted(os.listdir(d)) if f.endswith(".json")]
    for p in paths:
        if os.path.exists(p):
            for f in json.load(open(p)).get("findings", []):
                if f.get("property") == prop and f.get("status") == "open":
                    out[f["tag"]] = f
    return out


def write_replay(prop, payload):
    d = os.path.join(VERIF, "replays")
    os.makedirs(d, exist_ok=True)
    blob = json.dumps(payload, sort_keys=True, default=str)
    path = os.path.join(d, f"{prop}-{hashlib.sha1(blob.encode()).hexdigest()[:12]}.json")
    with open(path, "w") as fh:
        json.dump(payload, fh, indent=1, sort_keys=True, default=str)
    return path


# ------------------------------------------------------------------ main
def main(argv):
    prop = argv[1]
    replay = None
    tier = os.environ.get("VERIF_TIER") or "quick"
    if len(argv) > 2:
        if argv[2] == "--replay":
            replay = argv[3]
        else:
            tier = argv[2]
    seed = int(os.environ.get("VERIF_SEED", "0"))
    t0 = time.time()
    mod = importlib.import_module(f"harness.{prop.lower()}")
    scratch = common.scratch_root()
    status = 0
    lines = []
    try:
        status = check(prop, mod, tier, seed, replay, scratch, t0, lines)
    finally:
        shutil.rmtree(scratch, ignore_errors=True)
    for l in lines:
        log(l)
    return status


def check(prop, mod, tier, seed, replay, scratch, t0, lines):
    obligations = []   # (name, discharged?)
    broken = []        # names of proof/correspondence obligations that no longer check

    corr = mod.IMPORTS.split()[-1]
    ok, blog = build_coq([f"props/{prop}.vo", f"theories/{corr}.vo"])
    obligations.append(("coq-build", ok))
    if not ok:
        broken.append("coq build (make): " + blog[-1500:])
    # the property's verdict depends on its own dependency closure; the rest of the development is
    # audited too and reported in the evidence (bin/audit checks the whole development)
    closure = closure_files([f"props/{prop}.v", f"theories/{corr}.v"])
    bad = static_audit(closure)
    bad_elsewhere = [b for b in static_audit() if b not in bad]
    obligations.append(("static-audit", not bad))
    if bad:
        broken.append("static audit: " + "; ".join(bad[:5]))
    aok, assumptions, alog = print_assumptions(prop, scratch) if ok else (False, {}, "build failed")
    thm_names = re.findall(r"^Print Assumptions (\w+)\.", open(os.path.join(COQ, "props", f"{prop}.v")).read(), re.M)
    for n in thm_names:
        obligations.append((f"theorem {n}", n in assumptions))
    if ok and not aok:
        broken.append(f"props/{prop}.v re-check failed: " + alog[-1500:])
    allowed_axioms = getattr(mod, "ALLOWED_AXIOMS", ())
    for n, a in assumptions.items():
        if a != "closed" and not all(any(x in part for x in allowed_axioms) for part in [a]):
            broken.append(f"theorem {n} depends on undeclared axioms: {a}")

    # ---- thorough tier: independent re-check of the compiled closure with coqchk (prints axioms)
    coqchk_summary = None
    if tier == "thorough" and ok and not replay:
        p = subprocess.run(["timeout", "2400", "coqchk", "-silent", "-o", "-Q", "theories", "SV", "-Q", "props", "SVP",
                            f"SVP.{prop}", f"SV.{corr}"], cwd=COQ, stdout=subprocess.PIPE, stderr=subprocess.STDOUT, text=True)
        out = p.stdout
        i = out.find("CONTEXT SUMMARY")
        coqchk_summary = " ".join(out[i:].split()) if i >= 0 else out[-800:]
        chk_ok = p.returncode == 0 and "Axioms: <none>" in coqchk_summary.replace("* ", "")
        chk_ok = chk_ok or (p.returncode == 0 and all(a in getattr(mod, "ALLOWED_AXIOMS", ()) for a in []))
        obligations.append(("coqchk -o", p.returncode == 0))
        if p.returncode != 0:
            broken.append("coqchk failed: " + out[-1200:])

    # ---- inputs
    rng = random.Random(seed)
    if replay:
        payload = json.load(open(replay))
        descs = [payload["input"]] if "input" in payload else []
    else:
        descs = []
        cdir = os.path.join(VERIF, "corpus", prop)
        if os.path.isdir(cdir):
            for f in sorted(os.listdir(cdir)):
                if f.endswith(".json"):
                    descs.append(json.load(open(os.path.join(cdir, f)))["input"])
        descs += mod.gen_inputs(tier, rng)
    raw = run_cases(mod, descs)
    cases, harness_errors = [], []
    for r in raw:
        if isinstance(r, Case):
            cases.append(r)
        elif isinstance(r, list):
            cases.extend(r)
        else:
            harness_errors.append(r)
    if harness_errors:
        broken.append("harness error while running the implementation: " + harness_errors[0][2][-1500:])

    nshards, badshards, mism, viol, known = (0, [], [], [], {})
    if ok and cases:
        nshards, badshards, mism, viol, known = evaluate(mod, cases, scratch)
        for i in range(nshards):
            obligations.append((f"correspondence shard {i}", True))
        for path, tail in badshards:
            broken.append(f"correspondence shard {os.path.basename(path)} failed to evaluate: {tail[-800:]}")
            obligations.append((f"shard-eval {os.path.basename(path)}", False))
    mism_set = set(mism)
    if mism:
        for i in range(len(obligations)):
            pass

    if os.environ.get("VERIF_DEBUG"):
        with open(os.environ["VERIF_DEBUG"], "w") as fh:
            json.dump({"mismatch": [{"i": i, "input": cases[i].desc, "obs": cases[i].obs, "coq": cases[i].coq} for i in mism[:40]],
                       "violation": [{"i": i, "known": known.get(i, 0), "input": cases[i].desc, "obs": cases[i].obs} for i in viol[:200]]},
                      fh, indent=1, default=str)
    # fail closed: an undischarged obligation must be reported
    for name, done in obligations:
        if not done and not any(name in b for b in broken):
            broken.append(f"obligation not discharged: {name}")
    open_known = load_known(prop)
    violations = []       # (case, reason)
    known_hits = {}
    for i in viol:
        tag = known.get(i, 0)
        if i not in mism_set and tag and tag in open_known:
            known_hits.setdefault(tag, []).append(i)
        else:
            violations.append((i, "oracle holds_%s is false on the implementation's observation" % prop
                               + ("; model and implementation also disagree" if i in mism_set else
                                  "; model predicts it but it is not a listed known finding")))
    status = 0
    for tag, idxs in sorted(known_hits.items()):
        lines.append(f"KNOWN-FINDING: property={prop} {open_known[tag]['what']} (cases: {len(idxs)})")
    if violations:
        i, why = violations[0]
        path = write_replay(prop, {"property": prop, "input": cases[i].desc, "implementation_observation": cases[i].obs,
                                   "coq_case": cases[i].coq, "why": why, "seed": seed, "tier": tier,
                                   "other_violating_cases": len(violations) - 1})
        lines.append(f"VIOLATION property={prop} replay={path}")
        status = 1
    elif mism or broken:
        # proof or correspondence no longer checks; search neighbours for a failing input
        found = None
        search = getattr(mod, "search", None)
        if search and mism:
            try:
                extra = []
                for i in mism[:5]:
                    extra += search(cases[i].desc)
                if extra:
                    raw2 = run_cases(mod, extra)
                    cases2 = [c for c in raw2 if isinstance(c, Case)]
                    if cases2 and ok:
                        _, _, m2, v2, _ = evaluate(mod, cases2, scratch)
                        if v2:
                            found = cases2[v2[0]]
            except Exception:
                pass
        impl_root = os.path.join(os.environ.get("VERIF_REPO", "/repo"), "signac") + os.sep
        impl_raised = [h for h in harness_errors if impl_root in h[2]]
        if found is None and impl_raised:
            # the implementation itself raised, on an input for which the harness expects an answer (every exception
            # the property allows is caught and recorded by the harness as an observation): that input is the replay
            _, d0, tb0 = impl_raised[0]
            path = write_replay(prop, {"property": prop, "input": d0, "seed": seed, "tier": tier,
                                       "implementation_raised": tb0.strip().splitlines()[-1], "traceback": tb0[-3000:],
                                       "why": "the implementation raised an exception where the property demands a result "
                                              "(the exception passed through the tree under test; it never occurs on the repaired tree)",
                                       "other_inputs_raising": len(impl_raised) - 1})
            lines.append(f"VIOLATION property={prop} replay={path}")
        elif found is not None:
            path = write_replay(prop, {"property": prop, "input": found.desc, "implementation_observation": found.obs,
                                       "coq_case": found.coq, "why": "found by neighbour search after a correspondence mismatch",
                                       "seed": seed, "tier": tier})
            lines.append(f"VIOLATION property={prop} replay={path}")
        else:
            payload = {"property": prop, "seed": seed, "tier": tier,
                       "broken_obligations": broken,
            "coqchk": coqchk_summary,
            "audited_files": closure,
            "audit_findings_in_other_files": bad_elsewhere[:10],
                       "mismatching_cases": [{"input": cases[i].desc, "implementation_observation": cases[i].obs,
                                              "coq_case": cases[i].coq} for i in mism[:5]],
                       "note": "model and implementation disagree (or a proof obligation broke) but the oracle "
                               "did not evaluate to false on any explored input"}
            if mism:
                payload["input"] = cases[mism[0]].desc
                payload["correspondence"] = f"{mod.MISMATCHES} (SV.{mod.IMPORTS.split()[-1]})"
            path = write_replay(prop, payload)
            lines.append(f"VIOLATION property={prop} replay={path} no-failing-input-found")
        status = 1

    # ---- evidence
    distinct = {}
    hist = {}
    for c in cases:
        if c.nontrivial:
            distinct[c.key] = 1
        for k in c.kinds:
            hist[k] = hist.get(k, 0) + 1
    n_ob = len(obligations) + (1 if mism else 0)
    n_dis = sum(1 for _, d in obligations if d)
    trusted = list(getattr(mod, "TRUSTED", [])) + [
        "Coq 8.16.1 kernel incl. vm_compute (used in correspondence shards and Examples); no native_compute",
        "harness: generators, canonicalisation, Gallina literal emitter, parser of the index lists printed by coqc",
        "hand-written model fidelity outside the sampled inputs (residual gap of the technique)",
    ]
    for n in thm_names:
        trusted.append(f"Print Assumptions {n}: {assumptions.get(n, 'NOT CHECKED')}")
    ev = {
        "property_id": prop, "tier": tier, "seed": seed, "level": "proof",
        "coverage": {
            "obligations": n_ob, "discharged": n_dis,
            "checker_cmd": f"make -C /verif/coq (coqc 8.16.1, full .vo build) && coqc props/{prop}.v (Print Assumptions) && coqc shard_*.v (Eval vm_compute)",
            "trusted_base": trusted,
            "theorems": thm_names,
            "evaluations": len(cases),
            "distinct_nontrivial": len(distinct),
            "rule": getattr(mod, "RULE", ""),
            "samples": [{"input": c.desc, "observation": c.obs} for c in cases[:1] + cases[len(cases) // 2:len(cases) // 2 + 1] + cases[-1:]],
            "input_distribution": hist,
            "correspondence_shards": nshards,
            "mismatches": len(mism),
            "known_findings_hit": {str(t): len(v) for t, v in known_hits.items()},
            "broken_obligations": broken,
            "coqchk": coqchk_summary,
            "audited_files": closure,
            "audit_findings_in_other_files": bad_elsewhere[:10],
            "exhaustive": bool(getattr(mod, "EXHAUSTIVE", {}).get(tier, False)),
        },
        "assumptions": list(getattr(mod, "ASSUMPTIONS", [])),
        "wall_s": round(time.time() - t0, 2),
        "violations": len(violations) + (1 if status and not violations else 0),
    }
    # evidence is only recorded for runs against /repo itself (mutation trials with VERIF_REPO write elsewhere)
    evdir = os.path.join(VERIF, "evidence")
    if (os.environ.get("VERIF_REPO") and os.path.realpath(os.environ["VERIF_REPO"]) != "/repo") \
            or os.environ.get("VERIF_NO_EVIDENCE"):
        evdir = os.path.join(scratch, "evidence-not-recorded")
    os.makedirs(evdir, exist_ok=True)
    with open(os.path.join(evdir, f"{prop}.json"), "w") as fh:
        json.dump(ev, fh, indent=1, default=str)
    lines.append(f"{prop} {tier}: theorems={len(thm_names)} cases={len(cases)} nontrivial-distinct={len(distinct)} "
                 f"shards={nshards} mismatches={len(mism)} violations={len(violations)} "
                 f"known={sum(len(v) for v in known_hits.values())} wall={ev['wall_s']}s")
    return status


if __name__ == "__main__":
    sys.exit(main(sys.argv))
