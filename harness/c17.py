"""C17 — a linked view is an exact, self-healing picture of the selected jobs."""
import json
import os
import re
import shutil
import zlib

from .common import (Case, coq_bool, coq_json, coq_list, coq_N, coq_opt, coq_str, float_me, scratch_dir, typed,
                     untyped)

PROP = "C17"
IMPORTS = "Base Json MD5 Canon Export View CorrC17"
CASE_TYPE = "case_C17"
MISMATCHES = "mismatches_C17"
VIOLATIONS = "violations_C17"
KNOWN = "known_C17"
SHARD = 40
RULE = ("histories over real workspaces: a universe (homogeneous / heterogeneous / nested / textually colliding / "
        "awkward strings: spaces, dots, unicode, empty, '.', '..', the leaf name 'job', separators, also inside list elements) of 0..7 initial jobs, "
        "key names that are string prefixes of one another with custom specs naming one key next to {{auto}}, values that vanish under normpath ('.', '') with two-key format paths, then 1..4 create_linked_view calls (job_ids None / subsets incl. empty / path None, False, format strings with "
        "{{auto}}, invalid specs / job_ids naming a job twice / absolute or cwd-relative prefix, prefix=None (default name in the working directory), prefix below a symbolic link to a directory at another depth, project opened through a symbolic link / two alternating prefixes) interleaved with add, remove "
        "and re-key of jobs and with moving the view directory to another depth (stale but well-named links).  Every create_linked_view call is one case: world snapshot before, the call, snapshot after, "
        "the same call again (mutating syscalls counted), and a from-scratch build under a fresh sibling prefix; the model "
        "is run in Coq on the same input and must reproduce result class, returned mapping and all three trees; the oracle "
        "(exactness, no dangling link, no empty directory, nothing touched outside the prefix, second run no-op, equals "
        "from-scratch, rejected => byte-identical world, representable => accepted) is evaluated in Coq on the "
        "implementation's observation.  non-trivial: >=2 selected jobs or a non-empty previous view; distinct by the "
        "emitted case literal")
TRUSTED = [
    "job -> path map: computed in Coq by SV.Export.path_function from the state points, the spec and str/format/repr tables; "
    "signac's own path function is never fed to the model (harness safety screen and replay text only)",
    "POSIX semantics of mkdir/symlink/unlink/rmdir/lstat/readlink and CPython 3.12 os.makedirs/os.path.realpath/"
    "relpath/normpath as transcribed in View.v (validated by the correspondence on every case)",
    "iteration order of Python sets inside _analyze_view is taken from the observed order of attempted system calls "
    "(tie-break hint); theorems hold for every hint",
    "32-hex job ids are abbreviated consistently to a unique prefix in all emitted strings",
]
ASSUMPTIONS = [
    "the parent directory of the view prefix exists (it may lie below a symbolic link: the oracle speaks about physical directories)",
    "the prefix contains only what earlier create_linked_view calls left (directories and links); otherwise no claim",
    "path specs do not start with the separator",
    "the case directory lies 16 levels below '/', so '..' chains of link targets never clamp at the file system root",
]

JOB = "job"


# ------------------------------------------------------------------------------------------------ generation
STR_PLAIN = ["x", "y", "abc", "B"]
STR_AWK = ["x y", " lead", "1.5", "a.b", "é", "中文", "\U0001F600", "a b.c", "", "1", "True", "None"]
ROOTMARK = "@ROOT@"   # replaced by the case directory at run time: absolute values stay inside the scratch area
STR_EVIL = [".", "..", JOB, "a/b", ROOTMARK + "/a/esc", "job/x", "x/"]
LIST_SEP = [["x/y"], [1, "a/b"], [["x/y"], 1], ["x", ["y", ["z/"]]], ["/"]]
KEYS = ["a", "b", "c", "k k", "é", "B"]


def rand_scalar(rng, evil):
    r = rng.random()
    if r < 0.35:
        return rng.choice([0, 1, 2, 3, 10, -1])
    if r < 0.5:
        return rng.choice(STR_PLAIN)
    if r < 0.7:
        return rng.choice(STR_AWK)
    if r < 0.7 + evil:
        return rng.choice(STR_EVIL)
    if r < 0.85:
        return rng.choice([1.0, 0.5, 1e-3, 2.5])
    if r < 0.92:
        return rng.choice([True, False, None])
    if rng.random() < 0.25 + 2 * evil:
        return rng.choice(LIST_SEP)          # a separator inside a list element (f6f949e)
    return [rng.choice([1, 2, "x"]) for _ in range(rng.randint(0, 2))]


def gen_universe(rng):
    """Returns (name, list of state points)."""
    kind = rng.choice(["homog", "homog", "homog2", "hetero", "nested", "collide", "jobkey", "single", "empty",
                       "vanish", "vanish", "prefixkeys", "prefixkeys"])
    evil = rng.choice([0.0, 0.0, 0.04, 0.12])
    n = rng.choice([0, 1, 2, 2, 3, 3, 4, 5, 7])
    sps = []
    if kind == "empty":
        n = 0
    if kind == "single":
        n = 1
    if kind == "homog":
        k = rng.choice(KEYS)
        const = {rng.choice(["z", "const"]): rng.choice([0, "c"])} if rng.random() < 0.5 else {}
        for _ in range(n):
            sps.append({k: rand_scalar(rng, evil), **const})
    elif kind == "homog2":
        ks = rng.sample(KEYS, 2)
        for _ in range(n):
            sps.append({ks[0]: rand_scalar(rng, evil), ks[1]: rand_scalar(rng, evil)})
    elif kind == "hetero":
        for _ in range(n):
            ks = rng.sample(KEYS, rng.randint(1, 3))
            sps.append({k: rand_scalar(rng, evil) for k in ks})
    elif kind == "nested":
        for _ in range(n):
            sp = {"a": {"b": rand_scalar(rng, evil)}}
            if rng.random() < 0.6:
                sp["a"]["c"] = {"d": rand_scalar(rng, evil)}
            if rng.random() < 0.5:
                sp["e"] = rand_scalar(rng, evil)
            sps.append(sp)
    elif kind == "collide":
        pool = [1, "1", 1.0, True, "1.0", "True", 0, False, "0", 0.0, None, "None", [1], "(1,)"]
        for _ in range(n):
            sps.append({"a": rng.choice(pool), **({"b": rng.choice(pool)} if rng.random() < 0.4 else {})})
    elif kind == "jobkey":
        # the leaf name of the view used as a key or value
        for _ in range(max(n, 2)):
            sp = {"a": rng.choice([1, 2, JOB, "x"])}
            if rng.random() < 0.6:
                sp[JOB] = rng.choice([5, 6, "x", JOB])
            if rng.random() < 0.3:
                sp["x"] = rng.choice([1, 2])
            sps.append(sp)
    elif kind in ("single", "empty"):
        for _ in range(n):
            sps.append({rng.choice(KEYS): rand_scalar(rng, evil)})
    elif kind == "prefixkeys":
        # key names that are string prefixes of one another (a / ab / a_b / alpha, nested a.b vs ab): the keys
        # named in a custom spec must be excluded from {{auto}} by exact name only
        stem, longer = rng.choice(PREFIX_KEYS)
        others = rng.sample(longer, rng.randint(1, min(2, len(longer))))
        extra = ["z"] if rng.random() < 0.5 else []
        grid = rng.random() < 0.4
        vals = [1, 2, 3, "x", "x y", 10, 0.5]
        if grid:
            va, vb = rng.sample(vals, 2), rng.sample(vals, 2)
            for x in va:
                for y in vb:
                    sp = {}
                    set_dotted(sp, stem, x)
                    set_dotted(sp, others[0], y)
                    sps.append(sp)
        else:
            for i in range(max(n, 2)):
                sp = {}
                set_dotted(sp, stem, rng.choice(vals) if rng.random() < 0.5 else i)
                for k in others:
                    set_dotted(sp, k, rng.choice(vals))
                for k in extra:
                    sp[k] = i % 2
                if rng.random() < 0.5:
                    sp["const"] = "c"
                sps.append(sp)
        return "prefixkeys:" + stem, sps
    elif kind == "vanish":
        # two keys whose values may vanish under normpath: different format-path strings, one link location
        for _ in range(max(n, 2)):
            sps.append({"a": rng.choice(VANISH), "b": rng.choice(VANISH)})
    return kind, sps


PREFIX_KEYS = [("a", ["ab", "alpha", "a_b", "abc"]), ("T", ["Tc", "T2"]), ("a.b", ["a.bc", "ab"]), ("ab", ["abc", "a.b"]),
               ("a", ["a2", "aa"])]


def set_dotted(sp, key, v):
    ks = key.split(".")
    d = sp
    for k in ks[:-1]:
        d = d.setdefault(k, {})
        if not isinstance(d, dict):
            return
    if isinstance(d.get(ks[-1]), dict):
        return
    d[ks[-1]] = v


def prefix_specs(stem):
    f = "{" + stem + "}"
    return ["x/" + f + "/{{auto}}", f + "/{{auto}}", "{{auto}}/" + stem + "_" + f, f + "/{{auto:_}}", "{{auto}}",
            "s/{job.sp." + stem + "}/{{auto}}", None, f]


VANISH = [".", "", "q", "x"]
VANISH_SPECS = ["v/{a}/{b}", "{a}/{b}", "{a}/x/{b}", "v/{a}/{b}", None]

PATH_SPECS = [None, None, None, None, None, None, False, "{{auto}}", "x/{{auto}}", "{a}", "a/{a}", "p/{a}/q",
              "{a}/{{auto}}", "id/{job.id}", "c_{a}", "{zz}", "{{auto:_}}", 5, "a/{a}/b/{b}", "{job.sp.a}"]


def gen_history(rng):
    kind, sps = gen_universe(rng)
    steps = []
    nviews = rng.choice([1, 2, 2, 3, 3, 4])
    def pick_path():
        if kind == "vanish":
            return rng.choice(VANISH_SPECS)
        if kind.startswith("prefixkeys:"):
            return rng.choice(prefix_specs(kind.split(":", 1)[1]))
        return rng.choice(PATH_SPECS)
    path = pick_path()
    live = len(sps)
    moved = False
    # where the view lives: 'v'/'w' plain directories, 'l' below a symbolic link to a directory at another depth,
    # 'n' = prefix=None (the default name 'view' in the working directory)
    main = rng.choice(["v"] * 8 + ["l", "l", "n"])
    for v in range(nviews):
        if v > 0:
            for _ in range(rng.choice([0, 1, 1, 2, 3])):
                r = rng.random()
                _, extra = gen_universe(rng) if rng.random() < 0.3 else (None, [])
                if r < 0.4 or live == 0:
                    base = rng.choice(sps) if sps and rng.random() < 0.7 else None
                    if base is not None:
                        sp = dict(base)
                        k = rng.choice(list(sp) + KEYS[:3])
                        sp[k] = rand_scalar(rng, 0.03)
                    elif extra:
                        sp = extra[0]
                    else:
                        sp = {rng.choice(KEYS): rand_scalar(rng, 0.03)}
                    steps.append({"op": "add", "sp": typed(sp)})
                    live += 1
                elif r < 0.65:
                    steps.append({"op": "remove", "i": rng.randrange(64)})
                    live = max(0, live - 1)
                else:
                    mode = rng.choice(["set", "set", "addkey", "delkey"])
                    steps.append({"op": "rekey", "i": rng.randrange(64), "mode": mode,
                                  "key": rng.choice(KEYS[:3] + [JOB] * (kind == "jobkey")),
                                  "val": typed(rand_scalar(rng, 0.03))})
        if rng.random() < 0.25:
            path = pick_path()
        r = rng.random()
        if r < 0.6:
            ids = None
        elif r < 0.68:
            ids = []
        else:
            ids = sorted(rng.sample(range(64), rng.randint(1, 4)))
        pname = rng.choice([main, main, main, "w"]) if not moved else "d"
        steps.append({"op": "view", "ids": ids, "path": path, "prefix": pname})
        if ids and rng.random() < 0.12:
            steps[-1]["dup"] = True      # job_ids names one job twice
        if not moved and pname == "v" and v + 1 < nviews and rng.random() < 0.15:
            steps.append({"op": "mvview", "src": "v", "dst": "d"})
            moved = True
    return {"universe": kind, "jobs": [typed(sp) for sp in sps], "steps": steps,
            "rel": rng.random() < 0.3, "plink": rng.random() < 0.1}


# hand written histories for the input classes the design names (run first in every tier)
def fixed_histories():
    V = {"op": "view", "ids": None, "path": None, "prefix": "v"}
    H = []

    def h(name, jobs, steps, rel=False, plink=False):
        H.append({"universe": name, "jobs": [typed(j) for j in jobs], "steps": steps, "rel": rel, "plink": plink})

    h("fix-empty", [], [V, V])
    h("fix-one", [{"a": 1}], [V, V])
    h("fix-two", [{"a": 1}, {"a": 2}], [V, V], rel=True)
    h("fix-grow-shrink", [{"a": 1, "b": "x y"}, {"a": 2, "b": "x y"}],
      [V, {"op": "add", "sp": typed({"a": 3, "b": "é"})}, V, {"op": "remove", "i": 0}, {"op": "remove", "i": 0}, V,
       {"op": "remove", "i": 0}, V])
    h("fix-rekey", [{"a": 1, "b": 0}, {"a": 2, "b": 0}],
      [dict(V, path="a/{a}"), {"op": "rekey", "i": 0, "mode": "set", "key": "b", "val": typed(5)}, dict(V, path="a/{a}"),
       {"op": "rekey", "i": 1, "mode": "set", "key": "a", "val": typed(7)}, dict(V, path="a/{a}")])
    h("fix-subsets", [{"a": 1, "c": 0}, {"a": 2, "c": 0}, {"a": 1, "c": 5}, {"a": 2, "c": 5}],
      [dict(V, ids=[0, 1]), dict(V, ids=[2, 3]), dict(V, ids=[0, 3]), dict(V, ids=[]), V])
    h("fix-branch-dies", [{"a": 1, "b": 1}, {"a": 1, "b": 2}, {"a": 2, "b": 1}],
      [V, {"op": "remove", "i": 2}, V, {"op": "remove", "i": 0}, V])
    h("fix-nested", [{"a": {"b": "x.y"}, "c": 1}, {"a": {"b": "z"}, "c": 2}], [V, dict(V, path=False), V])
    h("fix-sep", [{"a": 1}, {"a": 2}], [V, {"op": "add", "sp": typed({"a": "x/y"})}, V])
    h("fix-list-sep", [{"a": ["z"]}, {"a": [1, "x"]}], [V, {"op": "add", "sp": typed({"a": ["x/y"]})}, V,
                                                       {"op": "remove", "i": 2}, {"op": "add", "sp": typed({"a": [["p/q"], 1]})}, V])
    h("fix-list-sep-nested", [{"a": {"b": [1, "a/b"]}, "c": 1}, {"a": {"b": [2]}, "c": 2}], [V, dict(V, path="c/{c}")])
    h("fix-hetero", [{"a": 1}, {"a": 2}], [V, {"op": "add", "sp": typed({"a": 1, "b": 2})}, V])
    h("fix-dup", [{"a": 1}, {"a": "1"}], [V])
    h("fix-leafnode", [{"a": 1}, {"a": 1, JOB: 5}, {"a": 2, JOB: 6}], [V])
    for n in range(12):   # which of the orders the listing produces is file system dependent: cover several
        h("fix-leafnode-%d" % n, [{"a": n}, {"a": n, JOB: 5}, {"a": n + 100, JOB: 6}], [V])
    h("fix-jobkey-root", [{"x": 1}, {"x": 1, JOB: 5}, {"x": 2}], [V, V])
    h("fix-link-to-dir", [{"a": "x"}, {"a": "y"}, {"a": "x", JOB: 1}, {"a": "y", JOB: 2}],
      [dict(V, ids=[0, 1]), dict(V, ids=[2, 3])])
    h("fix-dir-to-link", [{"a": "x"}, {"a": "y"}, {"a": "x", JOB: 1}, {"a": "y", JOB: 2}],
      [dict(V, ids=[2, 3]), dict(V, ids=[0, 1])])
    h("fix-dotdot", [{"a": ".."}, {"a": "x"}], [dict(V, path="{a}"), dict(V, path="{a}")])
    h("fix-emptyval", [{"a": ""}, {"a": "x"}], [dict(V, path="p/{a}/q"), dict(V, path="p/{a}/q")])
    h("fix-nested-abs", [{"a": {"b": ROOTMARK + "/a/esc"}}, {"a": {"b": "x"}}], [V, V])
    h("fix-nested-sep", [{"a": {"b": "x/y"}}, {"a": {"b": "x"}}], [V, V])
    MV = {"op": "mvview", "src": "v", "dst": "d"}
    h("fix-moved-view", [{"a": 1}, {"a": 2}, {"a": 3}], [V, MV, dict(V, prefix="d"), dict(V, prefix="d")])
    h("fix-moved-view-changed", [{"a": 1, "b": "x"}, {"a": 2, "b": "x"}],
      [dict(V, path="a/{a}"), MV, {"op": "add", "sp": typed({"a": 3, "b": "y"})}, dict(V, path="a/{a}", prefix="d")], rel=True)
    VA = dict(V, path="a/{a}/{{auto}}")
    h("fix-prefixkey-dropped", [{"a": i, "ab": 10 * i, "z": i % 2, "c": "x y"} for i in range(4)], [VA, VA])
    h("fix-prefixkey-grid", [{"a": a, "alpha": al} for a in (1, 2) for al in ("x", "y")], [VA, dict(V, path="{a}/{{auto:_}}")])
    h("fix-prefixkey-nested", [{"a": {"b": i}, "ab": 10 * i, "z": i % 2} for i in range(3)],
      [dict(V, path="n/{a.b}/{{auto}}"), dict(V, path="n/{ab}/{{auto}}")])
    h("fix-prefixkey-jobsp", [{"T": i, "Tc": i % 2, "T2": "x"} for i in range(4)], [dict(V, path="T/{job.sp.T}/{{auto}}")])
    VS = dict(V, path="v/{a}/{b}")
    base3 = [{"a": "x y", "b": "1.5"}, {"a": "x y", "b": "été"}, {"a": "z", "b": "1.5"}]
    h("fix-vanish-dot", base3 + [{"a": ".", "b": "q"}], [VS, {"op": "add", "sp": typed({"a": "q", "b": "."})}, VS])
    h("fix-vanish-empty", base3 + [{"a": "", "b": "q"}], [VS, {"op": "add", "sp": typed({"a": "q", "b": ""})}, VS])
    h("fix-vanish-mixed", [{"a": ".", "b": "q"}, {"a": "", "b": "q"}, {"a": "q", "b": "x"}], [VS, dict(V, path="{a}/{b}")])
    h("fix-two-prefixes", [{"a": 1}, {"a": 2}, {"a": 3}],
      [V, dict(V, prefix="w", ids=[0, 1]), {"op": "remove", "i": 1}, V, dict(V, prefix="w")], rel=True)
    # the spelling of a directory is not its location: view prefix below a symbolic link to a directory at another
    # depth; project opened through a symbolic link
    VL = dict(V, prefix="l")
    h("fix-symlink-prefix", [{"a": 1}, {"a": 2}], [VL, {"op": "add", "sp": typed({"a": 3})}, VL])
    h("fix-symlink-prefix-rel", [{"a": 1, "b": "x y"}, {"a": 2, "b": "x y"}], [dict(VL, ids=[0]), VL, dict(VL, path="a/{a}")],
      rel=True)
    h("fix-symlink-project", [{"a": 1}, {"a": 2}], [V, {"op": "add", "sp": typed({"a": 3})}, V, dict(V, ids=[1])], plink=True)
    h("fix-symlink-both", [{"a": 1}, {"a": 2}], [VL, {"op": "remove", "i": 0}, VL], rel=True, plink=True)
    # prefix=None: the view is 'view' in the working directory
    VN = dict(V, prefix="n")
    h("fix-default-prefix", [{"a": 1}, {"a": 2}],
      [VN, {"op": "add", "sp": typed({"a": 3, "b": "é"})}, VN, dict(VN, ids=[0, 2]), {"op": "remove", "i": 0}, VN, dict(VN, ids=[])])
    # the leaf name as the only key: the root link of the one-job view has to become a directory (finding 5b)
    h("fix-jobkey-grow", [{JOB: 1}], [V, {"op": "add", "sp": typed({JOB: 2})}, V])
    # selections on which a key that varies in the project is constant, and one-job selections: the expected paths
    # spell the keys that distinguish the SELECTED jobs
    grid = [{"a": a, "b": b, "c": "k"} for a in (1, 2) for b in ("x", "y y")]
    h("fix-repeated-id", [{"a": 1}, {"a": 2}, {"a": 3}],
      [dict(V, ids=[0], dup=True), V, dict(V, ids=[1], dup=True), dict(V, ids=[0, 1], dup=True), dict(V, ids=[2, 0], path="a/{a}", dup=True),
       dict(V, ids=[1, 2], path=False, dup=True)])
    h("fix-selection-paths", grid,
      [dict(V, ids=[0]), dict(V, ids=[0, 1]), dict(V, ids=[0, 2]), dict(V, ids=[3]), V, dict(V, ids=[1, 2]), dict(V, ids=[2])])
    h("fix-selection-paths-spec", grid,
      [dict(V, ids=[0, 1], path="a/{a}/{{auto}}"), dict(V, ids=[1], path="a/{a}/{{auto}}"), dict(V, ids=[0, 2], path="{{auto}}"),
       dict(V, ids=[2, 3], path="c_{c}/{{auto:_}}")], rel=True)
    return H


def gen_inputs(tier, rng):
    descs = fixed_histories()
    n = 170 if tier == "quick" else 4200
    for _ in range(n):
        descs.append(gen_history(rng))
    return descs


# ------------------------------------------------------------------------------------------------ observation
HEX32 = re.compile(r"[0-9a-f]{32}")


LINKDIR = ["a", "lk"]                 # a symbolic link ...
LINKDIR_TARGET = ["a", "b", "x", "k"]  # ... to a directory two levels deeper (relative target 'b/x/k')


def loc(name):
    """Components (below the case directory) of a view prefix as it is SPELLED: 'v', 'w' at depth 3, 'd' one level
    deeper, 'l' below the symbolic link a/lk, 'n' = the default prefix 'view' in the working directory a/."""
    if name == "d":
        return ["a", "b", "x", name]
    if name == "l":
        return LINKDIR + [name]
    if name == "n":
        return ["a", "view"]
    return ["a", "b", name]


def phys_loc(comps):
    """Where a spelled location lies in the snapshot."""
    return LINKDIR_TARGET + comps[2:] if comps[:2] == LINKDIR else comps


SPEC_TOKEN = re.compile(r"\{\{auto(?::([^{}]*))?\}\}|\{job\.id\}|\{job\.sp\.([^{}]+)\}|\{([^{}]+)\}")


def parse_spec(path):
    """My own generated path specs -> the pathspec of SV.Export (None = not None/False/str)."""
    if path is None:
        return "(Some PNone)"
    if path is False:
        return "(Some PFalse)"
    if not isinstance(path, str):
        return "None"
    segs, pos = [], 0
    for m in SPEC_TOKEN.finditer(path):
        if m.start() > pos:
            segs.append("(SLit %s)" % coq_str(path[pos:m.start()]))
        t = m.group(0)
        if t.startswith("{{auto"):
            segs.append("(SAuto %s)" % coq_str(m.group(1) or ""))
        elif t == "{job.id}":
            segs.append("SJobId")
        elif m.group(2) is not None:
            segs.append("(SJobSp %s)" % coq_list([coq_str(k) for k in m.group(2).split(".")], "str"))
        else:
            segs.append("(SKey %s)" % coq_list([coq_str(k) for k in m.group(3).split(".")], "str"))
        pos = m.end()
    if pos < len(path):
        segs.append("(SLit %s)" % coq_str(path[pos:]))
    return "(Some (PFmt %s))" % coq_list(segs, "seg")


def library_tables(sps):
    """repr(float), str(tuple(list)), format(list, '') for every value of the state points: behaviour of the
    Python library, not of signac."""
    ftab, text = {}, []

    def walk(v):
        if isinstance(v, float):
            ftab[float_me(v)] = repr(v)
        elif isinstance(v, list):
            def tup(x):
                return tuple(tup(y) for y in x) if isinstance(x, list) else x
            text.append((True, v, str(tup(v))))
            text.append((False, v, format(v, "")))
            for x in v:
                walk(x)
        elif isinstance(v, dict):
            for x in v.values():
                walk(x)
    for sp in sps:
        walk(sp)
    return ("{| o_asc := true; o_frepr := %s; o_text := %s; o_parse := (@nil (str * json)); o_rel := false; o_origin := (@nil N) |}" % (
        coq_list(["((%d)%%Z, (%d)%%Z, %s)" % (m, e, coq_str(r)) for (m, e), r in sorted(ftab.items())], "(fl * str)"),
        coq_list(["(%s, %s, %s)" % (coq_bool(k), coq_json(v), coq_str(t)) for k, v, t in text], "(bool * json * str)")))


def has_brace(v):
    if isinstance(v, str):
        return "{" in v or "}" in v
    if isinstance(v, list):
        return any(has_brace(x) for x in v)
    if isinstance(v, dict):
        return any(has_brace(k) or has_brace(x) for k, x in v.items())
    return False


class Abbrev:
    """Consistent abbreviation of 32-hex job ids to a unique prefix."""

    def __init__(self):
        self.seen = set()

    def note(self, s):
        self.seen.update(HEX32.findall(s))

    def finish(self):
        n = 6
        while len({i[:n] for i in self.seen}) < len(self.seen):
            n += 1
        self.n = n

    def __call__(self, s):
        return HEX32.sub(lambda m: m.group(0)[: self.n], s)


def snapshot(root):
    """Nested snapshot: ('dir', {name: node}) | ('lnk', target) | ('file', crc)."""
    def go(p):
        if os.path.islink(p):
            return ("lnk", os.readlink(p))
        if os.path.isdir(p):
            return ("dir", {n: go(os.path.join(p, n)) for n in os.listdir(p)})
        with open(p, "rb") as fh:
            return ("file", zlib.crc32(fh.read()))
    return go(root)


def strings_of(node, acc):
    if node[0] == "dir":
        for n, x in node[1].items():
            acc.append(n)
            strings_of(x, acc)
    elif node[0] == "lnk":
        acc.append(node[1])


def coq_node(node, ab):
    if node[0] == "file":
        return f"(File {coq_N(node[1])})"
    if node[0] == "lnk":
        return f"(Lnk {coq_str(ab(node[1]))})"
    items = sorted(((ab(n), x) for n, x in node[1].items()), key=lambda e: [ord(c) for c in e[0]])
    return "(Dir " + coq_list([f"({coq_str(n)}, {coq_node(x, ab)})" for n, x in items], "(str * node)") + ")"


def plain_node(node, ab):
    if node[0] == "dir":
        return {ab(n): plain_node(x, ab) for n, x in sorted(node[1].items())}
    if node[0] == "lnk":
        return "-> " + ab(node[1])
    return "file"


def coq_path(comps):
    return coq_list([coq_str(c) for c in comps], "str")


def exn_class(e):
    from .common import exn_name
    return exn_name(e)


class Tracer:
    """Counts successful mutating calls and records the order of attempted unlink/rmdir/symlink."""
    NAMES = ("unlink", "rmdir", "symlink", "mkdir", "remove", "rename", "replace")

    def __init__(self, root):
        self.attempts = []
        self.ops = 0
        self.root = root
        self.escaped = False

    def _contained(self, p):
        p = os.fspath(p)
        parent = os.path.realpath(os.path.dirname(os.path.abspath(p)))
        return parent == self.root or parent.startswith(self.root + os.sep)

    def __enter__(self):
        self.saved = {n: getattr(os, n) for n in self.NAMES}
        for n in self.NAMES:
            setattr(os, n, self._wrap(n, self.saved[n]))
        return self

    def _wrap(self, name, fn):
        def w(*a, **kw):
            # safety net: the code under test (or a mutant of it) must never touch anything outside the case directory
            targets = [a[1]] if name == "symlink" else ([a[0], a[1]] if name in ("rename", "replace") else [a[0]])
            if not all(self._contained(t) for t in targets):
                self.escaped = True
                raise PermissionError(13, "verification harness: path outside the case directory", os.fspath(targets[0]))
            if name in ("unlink", "rmdir", "remove"):
                self.attempts.append(os.fspath(a[0]))
            elif name == "symlink":
                self.attempts.append(os.fspath(a[1]))
            elif name == "mkdir":
                self.attempts.append(("mkdir", os.fspath(a[0])))
            r = fn(*a, **kw)
            self.ops += 1
            return r
        return w

    def __exit__(self, *exc):
        for n, f in self.saved.items():
            setattr(os, n, f)
        return False


def rel_to_root(root, p):
    """absolute path below root -> component list from root."""
    assert p == root or p.startswith(root + os.sep), (root, p)
    rest = p[len(root):]
    return [c for c in rest.split(os.sep) if c != ""]


def run_case(desc):
    import signac
    from signac.import_export import _make_path_function

    cases = []
    with scratch_dir("c17") as d0:
        # deep enough that no relative link target of a case can climb to "/" (where ".." clamps)
        root = os.path.join(os.path.realpath(d0), *(["z"] * 16))
        os.makedirs(root)
        os.makedirs(os.path.join(root, *LINKDIR_TARGET))
        os.symlink(os.path.join(*LINKDIR_TARGET[1:]), os.path.join(root, *LINKDIR))
        signac.init_project(path=os.path.join(root, "p"))
        os.symlink("p", os.path.join(root, "pl"))
        # the project as the user spells it: through the symbolic link pl -> p in some histories
        pdir = os.path.join(root, "pl" if desc.get("plink") else "p")
        project = signac.get_project(pdir)
        live = []   # state points of live jobs in creation order

        def subst(v):
            if isinstance(v, str):
                return v.replace(ROOTMARK, root)
            if isinstance(v, list):
                return [subst(x) for x in v]
            if isinstance(v, dict):
                return {k: subst(x) for k, x in v.items()}
            return v

        def add(sp):
            try:
                job = project.open_job(subst(sp))
                if job in project:
                    return
                job.init()
                live.append(job.id)
            except Exception:
                return

        for sp in desc["jobs"]:
            add(untyped(sp))
        oldcwd = os.getcwd()
        try:
            os.chdir(os.path.join(root, "a"))
            for si, step in enumerate(desc["steps"]):
                op = step["op"]
                if op == "add":
                    add(untyped(step["sp"]))
                elif op == "remove":
                    if live:
                        jid = live.pop(step["i"] % len(live))
                        project.open_job(id=jid).remove()
                elif op == "rekey":
                    if live:
                        k = step["i"] % len(live)
                        job = signac.get_project(pdir).open_job(id=live[k])
                        sp = job.statepoint()
                        if step["mode"] == "delkey":
                            if len(sp) > 1:
                                sp.pop(sorted(sp)[step["i"] % len(sp)])
                        else:
                            key = step["key"]
                            if step["mode"] == "set" and key not in sp:
                                key = sorted(sp)[step["i"] % len(sp)]
                            sp[key] = subst(untyped(step["val"]))
                        try:
                            job.reset_statepoint(sp)
                            live[k] = job.id
                        except Exception:
                            pass
                elif op == "mvview":
                    # the view directory is moved to another depth: same link paths, same ids, dangling targets
                    src, dst = os.path.join(root, *loc(step["src"])), os.path.join(root, *loc(step["dst"]))
                    if os.path.isdir(src) and not os.path.lexists(dst):
                        os.rename(src, dst)
                elif op == "view":
                    c = one_view(signac, _make_path_function, root, pdir, live, step, desc, si)
                    if c is None:      # the call would have left (or tried to leave) the case directory: not executed further
                        break
                    cases.append(c)
        finally:
            os.chdir(oldcwd)
    return cases


def one_view(signac, _make_path_function, root, pdir, live, step, desc, si):
    name = step["prefix"]
    rel = desc.get("rel", False) or name == "n"
    cwd = os.path.join(root, "a")
    lc = loc(name)
    slc = lc[:-1] + ["s"]
    prefix = os.path.join(*lc[1:]) if rel else os.path.join(root, *lc)
    sprefix = os.path.join(*slc[1:]) if rel else os.path.join(root, *slc)
    shutil.rmtree(os.path.join(root, *slc), ignore_errors=True)
    path = step["path"]
    ids = step["ids"]
    job_ids = None if ids is None else ([live[i % len(live)] for i in ids] if live else [])
    if job_ids is not None:
        job_ids = list(dict.fromkeys(job_ids))
        if step.get("dup") and job_ids:
            job_ids = job_ids + job_ids[:1]      # an iterable of ids may name a job twice: still that set of jobs

    # ---- the job list.  The real path function is called ONLY for the safety screen below and for the
    # replay file; the paths the model uses are computed in Coq (SV.Export.path_function) from the state points.
    project = signac.get_project(pdir)
    jobs = list(project) if job_ids is None else [project.open_job(id=i) for i in job_ids]
    pfmake = None
    pf = None
    try:
        pf = _make_path_function(jobs, path)
    except Exception as e:   # noqa: BLE001
        pfmake = exn_class(e)
    jrecs = []
    for job in jobs:
        sp = job.statepoint()
        items = []

        def flat(d, key=None):   # dotted keys and str leaves at every nesting level
            if isinstance(d, dict):
                if d:
                    for k in d:
                        flat(d[k], k if key is None else key + "." + k)
                elif key is not None:
                    items.append(key)
            else:
                items.append(key)
                if isinstance(d, str):
                    items.append(d)
        flat(sp)
        if pf is None:
            r = ("Err", "EOther")
        else:
            try:
                r = ("Ok", pf(job))
            except Exception as e:   # noqa: BLE001
                r = ("Err", exn_class(e))
        jrecs.append({"dir": job.path, "items": items, "pf": r, "id": job.id, "sp": sp})
    allp = [j.path for j in project.find_jobs()]
    for j in jrecs:
        if j["pf"][0] == "Ok":
            q = os.path.normpath(os.path.join(root, *lc, j["pf"][1], "job"))
            if not q.startswith(os.path.join(root, "a") + os.sep):
                return None

    cand_keys = [os.path.normpath(os.path.join(j["pf"][1], "job")) for j in jrecs if j["pf"][0] == "Ok"]

    def call(pref):
        p = signac.get_project(pdir)
        with Tracer(root) as tr:
            try:
                r = p.create_linked_view(prefix=None if (name == "n" and pref == prefix) else pref,
                                         job_ids=None if job_ids is None else list(job_ids), path=path)
                res = ("Ok", [[k, v] for k, v in r.items()])
            except Exception as e:   # noqa: BLE001
                res = ("Err", exn_class(e))
        # the system calls name the view by its physical location (or, before that repair, as spelled)
        bases = [os.path.realpath(pref) + os.sep, pref + os.sep]

        def below(x):
            for b in bases:
                if x.startswith(b):
                    return x[len(b):]
            return None
        hint = []
        for a in tr.attempts:
            if isinstance(a, tuple):
                # a directory made for some link: tie-break hint = the wanted keys below it (a failing mkdir is the
                # only trace of which link was being made); the model only uses hint entries that are keys
                q = below(a[1])
                if q:
                    hint.extend(k for k in cand_keys if k.startswith(q + os.sep) and k not in hint)
            else:
                hint.append(a if below(a) is None else below(a))
        escaped[0] = escaped[0] or tr.escaped
        return res, hint, tr.ops

    escaped = [False]

    pre = snapshot(root)
    res1, hint1, _ = call(prefix)
    post = snapshot(root)
    res2, hint2, ops2 = call(prefix)
    post2 = snapshot(root)
    res3, hint3, _ = call(sprefix)
    post3 = snapshot(root)
    shutil.rmtree(os.path.join(root, *slc), ignore_errors=True)
    if escaped[0]:
        return None

    # ---- canonicalise
    ab = Abbrev()
    acc = []
    for n in (pre, post, post2, post3):
        strings_of(n, acc)
    for s in acc:
        ab.note(s)
    for j in jrecs:
        ab.note(j["dir"])
        if j["pf"][0] == "Ok":
            ab.note(j["pf"][1])
    ab.finish()
    ab0 = ab

    def ab(x):   # noqa: F811  -- the case directory is the root of the model's world
        return ab0(x[len(root):] if x.startswith(root + os.sep) else x)

    def rp(p):   # absolute path -> abbreviated components from the root
        return [ab(c) for c in rel_to_root(root, p)]

    def raw(p):  # prefix string as given -> raw component list the model splits itself
        s = p
        if os.path.isabs(s):
            s = os.sep + os.sep.join(rel_to_root(root, s))
        return s.split(os.sep)

    def coq_res(r):
        if r[0] == "Err":
            return f"(Err {r[1]})"
        return "(Ok " + coq_list([f"({coq_str(ab(k))}, {coq_path(rp(v))})" for k, v in r[1]], "(str * path)") + ")"

    def coq_oexn(r):
        return "None" if r[0] == "Ok" else f"(Some {r[1]})"

    def coq_hint(h):
        return coq_list([coq_path(ab(x).split(os.sep)) for x in h], "path")

    def absp(v):   # state point with the case directory stripped from absolute strings, ids abbreviated
        if isinstance(v, str):
            return ab(v)
        if isinstance(v, list):
            return [absp(x) for x in v]
        if isinstance(v, dict):
            return {ab(k): absp(x) for k, x in v.items()}
        return v

    # j_items / j_pf / c_pfmake are placeholders: CorrC17.fill_call computes the guard items and the paths in Coq
    # from the state points
    jobs_coq = coq_list([
        "{| j_dir := %s; j_items := (@nil str); j_pf := (Err EOther) |}" % coq_path(rp(j["dir"]))
        for j in jrecs], "View.job")
    call_coq = "{| c_cwd := %s; c_prefix := %s; c_jobs := %s; c_pfmake := None; c_all := %s |}" % (
        coq_path(rp(cwd)), coq_path(raw(prefix)), jobs_coq,
        coq_list([coq_path(rp(p)) for p in allp], "path"))
    sps_abs = [absp(j["sp"]) for j in jrecs]
    xjobs = coq_list(["{| j_id := %s; j_sp := %s; j_files := (@nil (fpath * fnode)) |}" % (coq_str(ab(j["id"])), coq_json(sp))
                      for j, sp in zip(jrecs, sps_abs)], "Export.job")
    in_domain = not (any(has_brace(sp) for sp in sps_abs) or (isinstance(path, str) and has_brace(SPEC_TOKEN.sub("", path))))
    coq = ("{| k_xjobs := %s; k_xoracle := %s; k_spec := %s; " % (xjobs, library_tables(sps_abs), parse_spec(path))) + ("k_pre := %s; k_call := %s; k_hint := %s; k_res := %s; k_post := %s; k_hint2 := %s; k_res2 := %s; "
           "k_ops2 := %s; k_post2 := %s; k_sprefix := %s; k_hint3 := %s; k_res3 := %s; k_post3 := %s |}" % (
               coq_node(pre, ab), call_coq, coq_hint(hint1), coq_res(res1), coq_node(post, ab), coq_hint(hint2),
               coq_oexn(res2), coq_N(ops2), coq_node(post2, ab), coq_path(raw(sprefix)), coq_hint(hint3),
               coq_oexn(res3), coq_node(post3, ab)))

    def view_of(n, name):
        try:
            for c in phys_loc(slc if name == "s" else loc(name)):
                n = n[1][c]
            return plain_node(n, ab)
        except (KeyError, TypeError):
            return None

    obs = {"step": si, "prefix": prefix if rel else "/" + "/".join(lc), "path": repr(path),
           "selected": [{"id": ab(j["id"]), "pf": [j["pf"][0], ab(str(j["pf"][1]))]} for j in jrecs],
           "pfmake": pfmake,
           "result": res1[0] if res1[0] == "Ok" else res1,
           "returned": [[ab(k), ab(os.path.basename(v))] for k, v in res1[1]] if res1[0] == "Ok" else None,
           "view_before": view_of(pre, name), "view_after": view_of(post, name),
           "rerun": [res2[0] if res2[0] == "Ok" else res2, ops2, view_of(post2, name) == view_of(post, name)],
           "scratch": [res3[0] if res3[0] == "Ok" else res3, view_of(post3, "s")],
           "outside_changed": plain_without(pre, name, ab) != plain_without(post, name, ab)}
    nontrivial = len(jrecs) >= 2 or bool(view_of(pre, name))
    kinds = ["universe:" + desc["universe"], "path:" + ("None" if path is None else type(path).__name__),
             "result:" + (res1[0] if res1[0] == "Ok" else res1[1]),
             "pre:" + ("existing" if view_of(pre, name) else "fresh"),
             "sel:" + ("all" if job_ids is None else ("empty" if not job_ids else ("repeated-id" if len(set(job_ids)) < len(job_ids) else "one" if len(job_ids) == 1 else "subset"))),
             "prefix:" + {"l": "below-symlink", "n": "None"}.get(name, "plain") + ("/project-through-symlink" if desc.get("plink") else ""),
             "pf:" + ("computed-in-coq" if in_domain else "OUT-OF-DOMAIN")]
    d = dict(desc)
    d["case_step"] = si
    return Case(coq, d, obs=obs, nontrivial=nontrivial, key=str(zlib.crc32(coq.encode())) + ":" + str(len(coq)),
                kinds=kinds)


def plain_without(n, name, ab):
    p = plain_node(n, ab)
    try:
        d = p
        pl = phys_loc(loc(name))
        for c in pl[:-1]:
            d = d[c]
        d.pop(pl[-1], None)
    except (KeyError, TypeError):
        pass
    return p


def search(desc):
    """Neighbours of a mismatching history: prefixes of the step list, one initial job dropped."""
    out = []
    steps = desc["steps"]
    for k in range(1, len(steps)):
        if steps[k - 1]["op"] == "view":
            out.append(dict(desc, steps=steps[:k]))
    for i in range(len(desc["jobs"])):
        out.append(dict(desc, jobs=desc["jobs"][:i] + desc["jobs"][i + 1:]))
    for d in out:
        d.pop("case_step", None)
    return out
