"""Generators shared by C06 / C07 / C18: typed corpora, filters of the documented grammar, project builder."""
import hashlib
import json
import os
import re

from .common import coq_json, coq_list, coq_opt, coq_str, typed, untyped

INTS = [0, 1, -1, -2, 2, 5]
IFLOATS = [1.0, -1.0, -2.0, 2.0, 0.0]
FLOATS = [0.5, 2.5, -0.0, 5e-10, 1.0000000005]   # incl. values within 1e-9 of 0 and of 1 (math.isclose default abs_tol / rel_tol)
BOOLS = [True, False]
STRS = ["x", "abc", "1", "", "/da", "a/", "none", "True"]   # incl. strings that LOOK like the tokens of null / a bool
LISTS = [[1, 2], [1.0, 2], [], ["a"], [True], [1]]
# lists holding mappings that hold lists / mappings, and nested lists (valid JSON values; once unhashable in the index)
DEEP_LISTS = [[{"b": [1]}], [{"x": [1, 2]}, 3], [[1, [2]]], [{"b": {"c": [1]}}], [{"b": [1]}, {"b": [1.0]}],
              [{"x": 1, "y": 2}], [{"y": "a", "x": [1]}, 0], [{"p": 1, "q": {"s": 1, "r": 2}}]]
SCALARS = INTS + IFLOATS + FLOATS + BOOLS + [None] + STRS
TYPES = ["int", "float", "bool", "str", "list", "null"]
PATTERNS = ["^a", "b", "x$", "1", "^$", "/d", "a/$", "^/", "/"]


def rand_value(rng, depth=1):
    r = rng.random()
    if r < 0.62:
        return rng.choice(SCALARS)
    if r < 0.75:
        return list(rng.choice(LISTS))
    if r < 0.78:
        return json.loads(json.dumps(rng.choice(DEEP_LISTS)))
    if depth > 0:
        return {"x": rand_value(rng, depth - 1), **({"y": rng.choice(SCALARS)} if rng.random() < 0.4 else {})}
    return rng.choice(SCALARS)


def rand_sp(rng):
    sp = {}
    for k in ("a", "b"):
        if rng.random() < 0.8:
            sp[k] = rand_value(rng, 0) if rng.random() < 0.85 else rand_value(rng, 1)
    if rng.random() < 0.5:
        sp["c"] = {"x": rand_value(rng, 0)} if rng.random() < 0.8 else rand_value(rng, 1)
    # key names that merely START like a namespace ("sp…", "doc…") or like an operator-free dotted path
    if rng.random() < 0.3:
        sp["spx"] = rng.choice(SCALARS) if rng.random() < 0.5 else {"y": rng.choice(SCALARS)}
    if rng.random() < 0.2:
        sp["docs"] = rng.choice(SCALARS) if rng.random() < 0.5 else {"n": rng.choice(SCALARS)}
    # a state point key that is literally named like a namespace
    if rng.random() < 0.12:
        sp["doc"] = {"rev": rng.choice(SCALARS)} if rng.random() < 0.7 else rng.choice(SCALARS)
        if rng.random() < 0.5:
            sp["rev"] = rng.choice(SCALARS)
    return sp


def rand_doc(rng):
    if rng.random() < 0.35:
        return None
    doc = {}
    for k in ("d", "b"):
        if rng.random() < 0.7:
            doc[k] = rand_value(rng, 1)
    return doc


def rand_corpus(rng, nmax=6, clashy=False):
    n = rng.randint(0, nmax)
    jobs, seen = [], set()
    for _ in range(n):
        sp = rand_sp(rng)
        if clashy and rng.random() < 0.5:
            sp["a"] = rng.choice([True, 1, 1.0, False, 0, 0.0, -1, -1.0, -2, -2.0])
        key = json.dumps(typed(sp), sort_keys=True)
        if key in seen:
            continue
        seen.add(key)
        jobs.append({"sp": typed(sp), "doc": typed(rand_doc(rng))})
    return jobs


# ---------------------------------------------------------------- filters
KEYS_SP = ["a", "b", "c.x", "sp.a", "sp.c.x", "c", "zz", "spx", "spx.y", "docs", "docs.n", "sp.spx.y", "sp.doc.rev", "sp.doc", "rev"]
KEYS_DOC = ["doc.d", "doc.b", "doc.d.x", "doc.rev"]


def rand_key(rng):
    return rng.choice(KEYS_SP if rng.random() < 0.72 else KEYS_DOC)


def rand_arg_scalar(rng):
    return rng.choice(SCALARS)


def rand_opexpr(rng):
    """returns (op, arg)"""
    r = rng.random()
    if r < 0.16:
        return rng.choice(["$eq", "$ne"]), (rand_arg_scalar(rng) if rng.random() < 0.8 else list(rng.choice(LISTS)))
    if r < 0.36:
        arg = rng.choice(INTS + IFLOATS + FLOATS) if rng.random() < 0.8 else rng.choice(STRS + [None, True])
        return rng.choice(["$gt", "$gte", "$lt", "$lte"]), arg
    if r < 0.5:
        n = rng.randint(0, 3)
        arg = [rng.choice(SCALARS + [[1, 2]]) for _ in range(n)]
        return rng.choice(["$in", "$nin"]), arg
    if r < 0.6:
        return "$exists", rng.choice([True, False])
    if r < 0.7:
        return "$regex", rng.choice(PATTERNS)
    if r < 0.86:
        return "$type", rng.choice(TYPES)
    x = rng.choice([1, 1.0, 0.5, 2, 2.5000000001, 0])
    form = rng.random()
    if form < 0.3:
        return "$near", x
    if form < 0.5:
        return "$near", [x]
    if form < 0.75:
        return "$near", [x, rng.choice([1e-9, 0.5, 0.0, 1e-12, 0.1])]
    return "$near", [x, rng.choice([1e-9, 0.1]), rng.choice([0.0, 0.6])]


def nest_key(key, leaf):
    """{'c.x': v} as nested mapping {'c': {'x': v}}"""
    parts = key.split(".")
    out = leaf
    for p in reversed(parts):
        out = {p: out}
    return out


def present_pairs(jobs):
    """(dotted key, value) pairs that occur in the corpus (plain python values)."""
    out = []

    def walk(prefix, v):
        out.append((prefix, v))
        if isinstance(v, dict):
            for k, x in v.items():
                walk(prefix + "." + k, x)

    for j in jobs:
        for k, v in (j["sp"] or {}).items():
            walk(k, v)
        for k, v in (j["doc"] or {}).items():
            walk("doc." + k, v)
    return out


def permute_maps(v):
    if isinstance(v, dict):
        return {k: permute_maps(v[k]) for k in reversed(list(v))}
    if isinstance(v, list):
        return [permute_maps(x) for x in v]
    return v


def type_name(v):
    return {bool: "bool", int: "int", float: "float", str: "str", list: "list", type(None): "null"}.get(type(v), "int")


def rand_targeted(rng, pairs):
    """an expression aimed at a (key, value) that exists in the corpus"""
    key, v = rng.choice(pairs)
    if rng.random() < 0.3 and not key.startswith("doc."):
        key = "sp." + key
    if isinstance(v, dict):
        return {key + ".$exists": True} if rng.random() < 0.5 else {key: {"$type": "int"}}
    r = rng.random()
    if isinstance(v, list) and any(isinstance(x, dict) for x in v):
        # mappings inside a list value, spelled in another key order (equal as Python values)
        w = permute_maps(v)
        return rng.choice([{key: w}, {key: {"$eq": w}}, {key: {"$in": [w, 0]}}, {"$not": {key: w}}, {key + ".$ne": w}])
    if r < 0.3:
        return {key: v}
    if r < 0.4:
        return {key: {"$type": type_name(v)}}
    if r < 0.5:
        return {key: {"$in": [v, rng.choice(SCALARS)]}}
    if r < 0.58:
        return {key + ".$ne": v}
    if r < 0.66:
        return {key + ".$exists": rng.choice([True, False])}
    if isinstance(v, str):
        return {key: {"$regex": rng.choice(PATTERNS)}} if r < 0.85 else {key: {"$gte": v}}
    if isinstance(v, (int, float)) and not isinstance(v, bool):
        if r < 0.85:
            return {key: {rng.choice(["$gt", "$gte", "$lt", "$lte"]): v + rng.choice([0, 0, 1, -1, 0.5])}}
        return {key: {"$near": [v + rng.choice([0, 1e-12, 0.4, -5e-10]), rng.choice([1e-9, 0.5, 1e-12, 0.1])]}}
    return {key: {"$eq": v}}


def rand_simple(rng, pairs=None):
    if pairs and rng.random() < 0.6:
        return rand_targeted(rng, pairs)
    key = rand_key(rng)
    r = rng.random()
    if r < 0.35:  # implicit equality
        val = rand_arg_scalar(rng) if rng.random() < 0.8 else list(rng.choice(LISTS))
        return nest_key(key, val) if rng.random() < 0.3 else {key: val}
    op, arg = rand_opexpr(rng)
    style = rng.random()
    if style < 0.5:
        return {key: {op: arg}}
    if style < 0.8:
        return {key + "." + op: arg}
    return nest_key(key, {op: arg})


def rand_filter(rng, depth=2, pairs=None):
    r = rng.random()
    if depth <= 0 or r < 0.5:
        f = rand_simple(rng, pairs)
        if rng.random() < 0.25:
            f.update(rand_simple(rng, pairs))
        return f
    if r < 0.65:
        return {"$not": rand_filter(rng, depth - 1, pairs)}
    op = "$and" if r < 0.8 else "$or"
    f = {op: [rand_filter(rng, depth - 1, pairs) for _ in range(rng.randint(1, 3))]}
    if rng.random() < 0.3:
        f.update(rand_simple(rng, pairs))
    if rng.random() < 0.3:
        # several logical operators at one level; the $not operand often matches everything or nothing
        f["$not"] = rng.choice([{}, {"zz.$exists": False}, {"zz.$exists": True}, rand_filter(rng, depth - 1, pairs)])
    if rng.random() < 0.15:
        other = "$or" if op == "$and" else "$and"
        f[other] = [rand_filter(rng, depth - 1, pairs) for _ in range(rng.randint(1, 2))]
    return f


MALFORMED = [
    {"a.$foo": 1}, {"a": {"$foo": 1}}, {"$and": []}, {"$or": {"a": 1}}, {"a": {}}, {"a.$exists": 1},
    {"a.$type": "complex"}, {"a.$near": [1, 2, 3, 4]}, {"a$b": 1}, {"a.$gt.$lt": 1}, {"$and": [{"a": 1}], "b": {"$bogus": 2}},
    {"a": 123456, "b.$bogus": 1},
]

FIXED = [
    {}, {"a": 1}, {"a": 1.0}, {"a": True}, {"a": -1}, {"a": -1.0}, {"a": None}, {"a": [1, 2]}, {"a.$type": "bool"},
    {"a.$type": "int"}, {"a.$type": "float"}, {"a": {"$type": "float"}}, {"$not": {"doc.b": 1}}, {"$not": {"a": 1}},
    {"doc.d": 1}, {"doc": {"d": {"x": 1}}}, {"sp": {"a": 1}}, {"c": {"x": 1}}, {"c.x": 1}, {"a.$exists": False},
    {"doc.d.$exists": False}, {"$or": [{"a": 1}, {"doc.d": 1}]}, {"$and": [{"a.$gt": 0}, {"a.$lt": 2}]},
    {"a": {"$in": [1, "x", None]}}, {"a": {"$nin": [1]}}, {"a.$ne": 1}, {"zz.$ne": 1}, {"a.$regex": "^a"},
    {"a.$near": [1, 0.5]}, {"a": {"$near": 1}}, {"a": {"$gt": 0}}, {"a": {"$lte": "x"}},
    {"$not": {}, "$and": [{"a.$exists": True}]}, {"$not": {"zz.$exists": False}, "$or": [{"a.$exists": True}]},
    {"$not": {"zz.$exists": False}, "$and": [{"b.$exists": True}], "a.$exists": True},
    {"spx.y.$exists": True}, {"spx.$exists": True}, {"docs.n.$exists": True}, {"docs.$exists": False},
    {"$not": {"spx.y.$exists": True}},
]


def strings_in(v, acc):
    if isinstance(v, str):
        acc.add(v)
    elif isinstance(v, list):
        for x in v:
            strings_in(x, acc)
    elif isinstance(v, dict):
        for x in v.values():
            strings_in(x, acc)


def regex_patterns(f, acc):
    if isinstance(f, dict):
        for k, v in f.items():
            if k.endswith("$regex") and isinstance(v, str):
                acc.add(v)
            regex_patterns(v, acc)
    elif isinstance(f, list):
        for x in f:
            regex_patterns(x, acc)


def regex_table(jobs, f):
    pats, strs = set(), set()
    regex_patterns(f, pats)
    for j in jobs:
        strings_in(j["sp"], strs)
        strings_in(j["doc"], strs)
    out = []
    for p in sorted(pats):
        for s in sorted(strs):
            out.append(((p, s), re.search(p, s) is not None))
    return out


def coq_regex_table(tab):
    return coq_list(["((%s, %s), %s)" % (coq_str(p), coq_str(s), "true" if b else "false") for (p, s), b in tab],
                    "((str * str) * bool)")


# ---------------------------------------------------------------- project builder
def build_project(root, jobs):
    """jobs: list of {'sp': plain, 'doc': plain-or-None}.  Returns (project, listing-ordered job records)."""
    import signac

    import copy
    import random

    project = signac.init_project(path=root)
    # How a job came to exist must not matter to any query or summary: a part of every corpus is produced by a
    # HISTORY (re-keying from a scratch state point with a caller-owned template that is mutated afterwards, creation
    # through a second Project object, a caller mapping mutated after init) instead of open_job(sp).init().  What the
    # workspace then holds is read back from disk by listing(); derived deterministically from the corpus itself.
    hrng = random.Random(json.dumps(typed(jobs), sort_keys=True))
    for n, j in enumerate(jobs):
        how = hrng.random()
        job = None
        if how < 0.15 and j["sp"]:
            template = copy.deepcopy(j["sp"])
            job = project.open_job({"zz_scratch": n}).init()
            job.statepoint = template
            _scribble(template)
        elif how < 0.27 and j["sp"]:
            k = sorted(j["sp"])[-1]
            part = copy.deepcopy({k: j["sp"][k]})
            job = project.open_job({kk: v for kk, v in j["sp"].items() if kk != k}).init()
            job.update_statepoint(part)
            _scribble(part)
        elif how < 0.37:
            mine = copy.deepcopy(j["sp"])
            job = project.open_job(mine).init()
            _scribble(mine)
        elif how < 0.47:
            job = signac.get_project(root).open_job(copy.deepcopy(j["sp"])).init()
            job = project.open_job(id=job.id)
        if job is None:
            job = project.open_job(j["sp"]).init()
        if j["doc"] is not None:
            if j["doc"]:
                job.doc.update(j["doc"])
            else:
                with open(job.fn("signac_job_document.json"), "w") as fh:
                    fh.write("{}")
    return project


def _scribble(x):
    """mutate a caller-owned mapping in place at every level (after signac has seen it)"""
    if isinstance(x, dict):
        for v in list(x.values()):
            _scribble(v)
        x["zz_late"] = 1
    elif isinstance(x, list):
        for v in x:
            _scribble(v)
        x.append("zz_late")


def listing(project):
    """job records in the implementation's listing order, read back from disk."""
    recs = []
    try:
        names = os.listdir(project.workspace)
    except FileNotFoundError:
        names = []
    for name in names:
        d = os.path.join(project.workspace, name)
        if not re.fullmatch("[a-f0-9]{32}", name):
            continue
        with open(os.path.join(d, "signac_statepoint.json"), "rb") as fh:
            sp = json.loads(fh.read())
        doc = None
        fn = os.path.join(d, "signac_job_document.json")
        if os.path.exists(fn):
            with open(fn, "rb") as fh:
                doc = json.loads(fh.read())
        recs.append({"id": name, "sp": sp, "doc": doc})
    return recs


def coq_jobs(recs):
    return coq_list(["{| j_id := %s; j_sp := %s; j_doc := %s |}" % (
        coq_str(r["id"]), coq_json(r["sp"]), coq_opt(coq_json(r["doc"]) if r["doc"] is not None else None))
        for r in recs], "job")


def corpus_name(recs):
    return "corpus_" + hashlib.sha1(json.dumps([[r["id"], typed(r["doc"])] for r in recs], sort_keys=True).encode()).hexdigest()[:16]
