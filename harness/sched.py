"""Lock-step scheduling of forked actor processes at file-system-call granularity (C12), and a variant
of the interposer that also hooks os.scandir(path) and the *stat* family (os.stat / os.lstat, hence os.path.isdir / isfile /
exists / islink) as non-mutating, schedulable calls.

``StatInterposer`` extends :class:`harness.interpose.Interposer` (owned by the doc-builder; not edited):
inside the block ``os.stat`` and ``os.lstat`` of a path under ``root`` go through the same funnel as the
other hooked calls (``before`` hook, fault plan, trace entry ``stat``).  Everything else is inherited.

``LockStep2`` runs actors (callables) in forked processes; every hooked call of an actor blocks on a pipe
until the scheduler grants it, so a schedule is a list of actor indices and one grant = one file-system call.
After the schedule is exhausted the remaining actors are run to completion one after the other in index
order.  The realised step list ``(actor, op, rel, rel2)`` is returned together with each actor's result.
"""
import os
import pickle
import select
import struct
import sys
import traceback

from . import interpose
from .interpose import Interposer, Op

_O_STAT, _O_LSTAT = os.stat, os.lstat
_O_WRITE, _O_CLOSE = os.write, os.close


def _from_interposer():
    """The base interposer itself calls os.path.lexists() in its open() wrapper: not a call of the actor."""
    f = sys._getframe(2)
    for _ in range(4):
        if f is None:
            return False
        if f.f_code.co_filename == interpose.__file__:
            return True
        f = f.f_back
    return False


class StatInterposer(Interposer):
    _guard = 0

    def _rel(self, path, dir_fd=None):
        # realpath() inside the base class lstat()s every component: those are not calls of the actor
        self._guard += 1
        try:
            return super()._rel(path, dir_fd)
        finally:
            self._guard -= 1

    def __enter__(self):
        super().__enter__()
        ip = self

        def mk(orig, follow):
            def patched(path, *args, **kw):
                if (not ip.active or ip._guard or not ip.observe_reads or isinstance(path, int)
                        or kw.get("dir_fd") is not None):
                    return orig(path, *args, **kw)
                rel = ip._rel(path)
                if rel is None or getattr(ip._in_hook, "on", False) or _from_interposer():
                    return orig(path, *args, **kw)
                k = ip._pre("stat", rel, None)
                try:
                    res = orig(path, *args, **kw)
                finally:
                    ip._post(Op(k, "stat", rel))
                return res
            return patched

        def mk_scandir(orig):
            # os.scandir(<path>) (shutil.copytree): a directory listing, traced and injectable like os.listdir;
            # os.scandir(<fd>) (shutil.rmtree's descriptor-based walk) is left alone
            def patched(path=".", *args, **kw):
                if not ip.active or ip._guard or not ip.observe_reads or isinstance(path, int):
                    return orig(path, *args, **kw)
                rel = ip._rel(path)
                if rel is None or getattr(ip._in_hook, "on", False) or _from_interposer():
                    return orig(path, *args, **kw)
                k = ip._pre("listdir", rel, None)
                try:
                    res = orig(path, *args, **kw)
                finally:
                    ip._post(Op(k, "listdir", rel))
                return res
            return patched

        self._stat_saved = (os.stat, os.lstat, os.scandir)
        os.stat = mk(os.stat, True)
        os.lstat = mk(os.lstat, False)
        os.scandir = mk_scandir(os.scandir)
        return self

    def __exit__(self, *exc):
        os.stat, os.lstat, os.scandir = self._stat_saved
        return super().__exit__(*exc)


def _send(fd, obj):
    b = pickle.dumps(obj)
    _O_WRITE(fd, struct.pack("<I", len(b)) + b)


def _recv(fd):
    hdr = b""
    while len(hdr) < 4:
        c = os.read(fd, 4 - len(hdr))
        if not c:
            return None
        hdr += c
    n = struct.unpack("<I", hdr)[0]
    buf = b""
    while len(buf) < n:
        c = os.read(fd, n - len(buf))
        if not c:
            return None
        buf += c
    return pickle.loads(buf)


class LockStep2:
    """See the module docstring.  ``actors``: list of callables returning a JSON-able value; ``hook_filter``
    ``(op, rel) -> bool`` selects which hooked calls are scheduling points (others run freely)."""

    def __init__(self, root, actors, hook_filter=None, timeout=60.0):
        self.root, self.actors, self.timeout = root, list(actors), timeout
        self.hook_filter = hook_filter or (lambda op, rel: True)

    def _child(self, i, up_w, down_r):
        def before(k, op, rel, rel2):
            if not self.hook_filter(op, rel):
                return
            _send(up_w, ("step", op, rel, rel2))
            os.read(down_r, 1)

        try:
            with StatInterposer(self.root, before=before, keep_pre=False, observe_reads=True):
                val = self.actors[i]()
            _send(up_w, ("done", ("ok", val)))
        except BaseException as e:  # noqa: BLE001
            _send(up_w, ("done", ("exc", type(e).__name__,
                                  "".join(traceback.format_exception_only(type(e), e)).strip()[:300])))
        finally:
            os._exit(0)

    def run(self, schedule):
        n = len(self.actors)
        chans, pids = [], []
        for i in range(n):
            up_r, up_w = os.pipe()
            down_r, down_w = os.pipe()
            pid = os.fork()
            if pid == 0:
                for (r, w) in chans:
                    _O_CLOSE(r)
                    _O_CLOSE(w)
                _O_CLOSE(up_r)
                _O_CLOSE(down_w)
                self._child(i, up_w, down_r)
            _O_CLOSE(up_w)
            _O_CLOSE(down_r)
            chans.append((up_r, down_w))
            pids.append(pid)
        pending = [None] * n
        results = [None] * n
        steps = []

        def wait_for(i):
            while pending[i] is None and results[i] is None:
                r, _, _ = select.select([chans[i][0]], [], [], self.timeout)
                if not r:
                    results[i] = ("exc", "Timeout", "actor %d did not reach a step" % i)
                    return
                msg = _recv(chans[i][0])
                if msg is None:
                    results[i] = results[i] or ("exc", "Died", "actor %d exited" % i)
                elif msg[0] == "step":
                    pending[i] = msg[1:]
                else:
                    results[i] = msg[1]

        def grant(i):
            op = pending[i]
            pending[i] = None
            steps.append((i,) + tuple(op))
            _O_WRITE(chans[i][1], b"g")

        try:
            for i in range(n):
                wait_for(i)
            for a in schedule:
                if results[a] is not None:
                    continue
                grant(a)
                wait_for(a)
            for i in range(n):
                while results[i] is None:
                    grant(i)
                    wait_for(i)
        finally:
            for (r, w), pid in zip(chans, pids):
                for fd in (r, w):
                    try:
                        _O_CLOSE(fd)
                    except OSError:
                        pass
                try:
                    os.waitpid(pid, 0)
                except ChildProcessError:
                    pass
        return {"results": results, "steps": steps}
