"""C11 — crashes and I/O errors in lifecycle operations never lose data or forge a job."""
import errno
import hashlib
import json
import logging
import os
import shutil

from .common import Case, coq_bool, coq_json, coq_list, coq_nat, coq_opt, exn_name, scratch_dir
from .interpose import norm_tmp
from .sched import StatInterposer as Interposer     # also hooks os.stat / os.lstat (isfile, isdir, exists, lexists)

PROP = "C11"
IMPORTS = "Base Json FS Proc Crash WsNames CorrC11"
CASE_TYPE = "case_C11"
MISMATCHES = "mismatches_C11"
VIOLATIONS = "violations_C11"
KNOWN = "known_C11"
SHARD = 60
RULE = ("scenarios: operation {init, re-key via sp[k]=v, re-key via update_statepoint, re-key via `job.statepoint = {...}` "
        "through a by-id handle that never read its state point, move, clone, remove, clear} x "
        "destination {fresh, existing valid, colliding with another job, empty directory under the new id, directory "
        "without / with torn / with foreign state point file, the md5(\"null\") directory holding a null state point} x payload {none, nested files + document} x JSON thread "
        "support {on (default), off}, run on the real signac on a copy of a template workspace that also holds two "
        "unrelated jobs.  Per scenario one PCrash case: the recorded mutation trace (replay self-check), EVERY prefix x "
        "torn offset {1, mid, len-1} materialised on a copy of the pre-state and observed through a fresh Project "
        "(byte snapshot, listing, check()), compared with the model's crash states as a sequence of distinct states; and "
        "one PFault case per (hooked call under a workspace incl. read-only opens, listdir and os.stat / os.lstat, i.e. "
        "os.path.isfile / isdir / exists / lexists, errno in {EIO, ENOSPC, "
        "EACCES, EXDEV, EROFS}) injected live (quick: a seeded sample of calls per scenario, all five errnos rotating, plus "
        "EVERY stat / listdir of the run with EIO; thorough: every call x every errno); every observation is made through a "
        "fresh Project twice, without and with a persistent state point cache written before the operation, plus sampled DOUBLE faults (a second failing call later in the same run, "
        "e.g. inside a rollback or handler), plus FOLLOW-UP cases: a single fault that the operation handled "
        "(exception) leaving the pre-state on disk, then a further operation through the SAME job handle (sp[k]=v / doc[k]=v / init()), then a restart "
        "— quick: every mutating call x {EIO, EACCES} x sp[k]=v plus one rotating follow-up; thorough: every call x every errno; "
        "a run of that plan whose injected error was SWALLOWED (normal return) is kept as a single-fault case; every rename of "
        "every run also fails once with EXDEV.  Every case carries the tree the implementation leaves after the same operation "
        "WITHOUT a fault: a faulted run that returns normally must leave exactly that tree.  non-trivial: the operation performs >= 2 mutating calls (crash) or the "
        "fault changes the outcome or the tree; distinct by (scenario, probe)")
TRUSTED = [
    "the interposer (completeness self-check: replaying the trace on the pre-state reproduces the post-state byte for byte)",
    "a crash preserves the order of completed calls (crash states = trace prefixes, last write torn); power loss / "
    "write-back reordering out of scope as in the property",
    "directory listing order (os.scandir / os.listdir) is passed to the model as the order of the pre-state entries",
    "json.loads outcome of every state point / document / temp file is passed to the model as the parsed value of the file",
    "CPython os.makedirs / shutil.copytree / shutil.rmtree / io.BufferedWriter are modelled, not verified",
]
ASSUMPTIONS = ["faults on calls outside the workspaces (.signac/config reads of Project()) are not injected",
               "os.scandir(<path>) (shutil.copytree) is a fault position like os.listdir; os.scandir(<fd>) and stat calls "
               "relative to a directory descriptor (shutil.rmtree's inner walk; DirEntry.is_dir uses d_type) are not",
               "state points / documents are written with a single write(2) (small blobs); chunked writes are C10's subject"]

ERRNOS = [("EIO", errno.EIO), ("ENOSPC", errno.ENOSPC), ("EACCES", errno.EACCES), ("EXDEV", errno.EXDEV),
          ("EROFS", errno.EROFS)]
SPF, SPT, DOCF, WSN = "signac_statepoint.json", "signac_statepoint.json~", "signac_job_document.json", "workspace"
OPKIND = {"ropen": "SgRead", "listdir": "SgListdir", "mkdir": "SgMkdir", "open": "SgOpen", "write": "SgWrite",
          "close": "SgClose", "rename": "SgRename", "unlink": "SgUnlink", "rmdir": "SgRmdir", "utime": "SgMeta",
          "chmod": "SgMeta", "stat": "SgStat"}

SP_A, SP_B, SP_C = {"a": 1}, {"a": 2}, {"b": "x", "c": [1, 2]}
NULL_ID = "37a6259cc0c1dae299a7866489dff0bd"      # md5("null"): check() accepts a file holding null there, load() does not


def set_threads(on):
    import signac
    from signac.job import _StatePointDict
    from synced_collections.backends import collection_json as cj

    for cls in (signac.JSONDict, cj.JSONAttrDict, cj.BufferedJSONAttrDict, cj.JSONDict, cj.BufferedJSONDict, _StatePointDict):
        (cls.enable_multithreading if on else cls.disable_multithreading)()


def calc_id(sp):
    from signac.job import calc_id as ci
    return ci(sp)


# ------------------------------------------------------------------ scenarios
def new_sp_of(scn):
    if scn["op"] != "rekey":
        return None
    if scn["dest"] == "collide":
        return dict(SP_B)
    if scn["dest"] == "same":          # an assignment that does not change the id: _save returns before any step
        return dict(SP_A)
    sp = dict(SP_A)
    if scn.get("route") == "update":
        sp["z"] = 7
    else:
        sp["a"] = 5
    return sp


def init_sp_of(scn):
    return {"fresh": {"a": 3}}.get(scn["dest"], dict(SP_A))


def build_template(scn, root):
    """Create the pre-state below root (not traced)."""
    import signac

    _CACHES.clear()
    pa = signac.init_project(path=os.path.join(root, "pA"))
    two = scn["op"] in ("move", "clone") and not scn.get("same_project")
    pb = signac.init_project(path=os.path.join(root, "pB")) if two else None
    ja = pa.open_job(SP_A).init()
    if scn.get("payload", True):
        os.makedirs(ja.fn("sub/deep"))
        with open(ja.fn("sub/deep/x.bin"), "wb") as fh:
            fh.write(bytes(range(7)))
        with open(ja.fn("data.txt"), "wb") as fh:
            fh.write(b"hello world")
        with open(ja.fn("sub/empty.dat"), "wb") as fh:
            pass
        ja.doc["k"] = [1, "two"]
    if scn.get("payload") == "big":
        for d, names in (("r1", ["a.dat", "b.dat"]), ("r1/r2", ["c.dat"]), ("r1/r2/r3", ["d.dat", "e.dat"]), ("q", ["f.dat"])):
            os.makedirs(ja.fn(d), exist_ok=True)
            for n in names:
                with open(ja.fn(os.path.join(d, n)), "wb") as fh:
                    fh.write((d + "/" + n).encode() * 3)
        os.makedirs(ja.fn("emptydir"))
    jb = pa.open_job(SP_B).init()
    with open(jb.fn("b.txt"), "wb") as fh:
        fh.write(b"other job")
    jc = pa.open_job(SP_C).init()
    jc.doc["n"] = 1
    stash_cache(pa)
    dest = scn["dest"]
    op = scn["op"]
    if op == "init":
        if dest in ("nosp", "torn", "foreign"):
            os.remove(ja.fn(SPF))
        if dest == "torn":
            with open(ja.fn(SPF), "wb") as fh:
                fh.write(b'{"a": ')
        if dest == "foreign":
            with open(ja.fn(SPF), "wb") as fh:
                fh.write(b'{"a": 2}')
    if op == "rekey" and dest == "emptydir":
        os.mkdir(os.path.join(pa.workspace, calc_id(new_sp_of(scn))))
    if op in ("move", "clone") and pb is not None:
        jx = pb.open_job({"q": 0}).init()
        with open(jx.fn("q.txt"), "wb") as fh:
            fh.write(b"q")
        if dest == "collide":
            jd = pb.open_job(SP_A).init()
            with open(jd.fn("mine.txt"), "wb") as fh:
                fh.write(b"keep me")
        stash_cache(pb)
        if dest == "emptydir":
            os.mkdir(os.path.join(pb.workspace, calc_id(SP_A)))
    if op in ("remove", "clear") and dest == "missing":
        shutil.rmtree(ja.path)
    if dest == "nullsp":
        os.mkdir(os.path.join(pa.workspace, NULL_ID))
        with open(os.path.join(pa.workspace, NULL_ID, SPF), "wb") as fh:
            fh.write(b"null")
        with open(os.path.join(pa.workspace, NULL_ID, "keep.txt"), "wb") as fh:
            fh.write(b"data of the null job")


def prepare(scn, root):
    """Handles for the run (fresh Project objects; not traced).  Returns (thunk performing the operation,
    the job handle the operation goes through — the one a follow-up operation will use)."""
    import signac

    pa = signac.Project(os.path.join(root, "pA"))
    two = scn["op"] in ("move", "clone") and not scn.get("same_project")
    pb = signac.Project(os.path.join(root, "pB")) if two else pa
    op = scn["op"]
    ida = NULL_ID if scn["dest"] == "nullsp" else calc_id(SP_A)
    if op == "init":
        job = pa.open_job(init_sp_of(scn))
        return (lambda: job.init()), job
    if op in ("remove", "clear") and scn["dest"] == "missing":
        job = pa.open_job(SP_A)
    else:
        job = pa.open_job(id=ida)
    if op == "rekey":
        nsp = new_sp_of(scn)
        if scn.get("route") == "assign":
            # whole assignment through a handle opened BY ID on a state point cache miss that has NOT read its state
            # point: the setter builds an empty _StatePointDict and resets it, nothing is loaded first
            return (lambda: setattr(job, "statepoint", dict(nsp))), job
        if scn.get("route") == "update":
            upd = {k: v for k, v in nsp.items() if SP_A.get(k, None) != v}
            return (lambda: job.update_statepoint(upd, overwrite=True)), job
        (k, v), = [(k, v) for k, v in nsp.items() if SP_A.get(k) != v] or [("a", SP_A["a"])]
        return (lambda: job.sp.__setitem__(k, v)), job
    if op == "move":
        return (lambda: job.move(pb)), job
    if op == "clone":
        return (lambda: pb.clone(job)), job
    if op == "remove":
        return (lambda: job.remove()), job
    if op == "clear":
        return (lambda: job.clear()), job
    raise AssertionError(op)


# ------------------------------------------------------------------ observing a tree
def split(rel):
    return [c for c in rel.split(os.sep) if c and c != "."]


def scan_order(root):
    """Entries below root as (components, kind, bytes), a directory before its content, the children of a
    directory in os.scandir order (the order shutil.rmtree / copytree / os.listdir see)."""
    out = []

    def walk(d, comps):
        with os.scandir(d) as it:
            ents = list(it)
        for e in ents:
            c = comps + [e.name]
            if e.is_dir(follow_symlinks=False):
                out.append((c, "dir", b""))
                walk(e.path, c)
            else:
                with open(e.path, "rb") as fh:
                    out.append((c, "file", fh.read()))
    walk(root, [])
    return out


def relevant(comps):
    """Entries the model knows: the project directories, their workspace and everything below it."""
    return len(comps) == 1 or (len(comps) >= 2 and comps[1] == WSN)


def snapshot(root):
    return [(c[:-1] + [norm_tmp(c[-1])], k, b) for c, k, b in scan_order(root) if relevant(c)]


def deep_key(snap):
    return sorted((tuple(c), k, b) for c, k, b in snap if len(c) >= 3)


# persistent state point caches (update_cache()) of the projects, written while the template was healthy and kept
# OUT of the tree while the operation runs (a cache hit would replace the state point read of open_job(id=...));
# every observation is made twice: without and with the cache file in place
_CACHES = {}
FN_CACHE = os.path.join(".signac", "statepoint_cache.json.gz")


def stash_cache(project):
    try:
        project.update_cache()
        fn = os.path.join(project.path, FN_CACHE)
        with open(fn, "rb") as fh:
            _CACHES[os.path.basename(project.path)] = fh.read()
        os.remove(fn)
    except Exception:  # noqa: BLE001 - no cache for this project then
        _CACHES.pop(os.path.basename(project.path), None)


def observe(root):
    """What a fresh Project sees — with and without a persistent state point cache from before the operation.
    The two must agree; if they do not, the observation made WITH the cache is returned (and says so)."""
    snap, ws = observe_once(root)
    installed = []
    for name, blob in _CACHES.items():
        d = os.path.join(root, name, ".signac")
        if os.path.isdir(d) and not os.path.exists(os.path.join(root, name, FN_CACHE)):
            with open(os.path.join(root, name, FN_CACHE), "wb") as fh:
                fh.write(blob)
            installed.append(os.path.join(root, name, FN_CACHE))
    if installed:
        try:
            _, ws2 = observe_once(root)
        finally:
            for fn in installed:
                if os.path.exists(fn):
                    os.remove(fn)
        if [w[:3] for w in ws2] != [w[:3] for w in ws]:
            ws = [(n, l, r, "observed WITH a persistent state point cache written before the operation; "
                            "without it: listed %r reported %r" % (w0[1], w0[2])) for (n, l, r, _), w0 in zip(ws2, ws)]
    return snap, ws


def observe_once(root):
    """What a fresh Project sees: (snapshot, [(project name, listed ids, reported ids | None)])."""
    import signac
    from signac.errors import JobsCorruptedError

    snap = snapshot(root)
    ws = []
    for name in sorted(os.listdir(root)):
        if not os.path.isdir(os.path.join(root, name, ".signac")):
            continue
        try:
            p = signac.Project(os.path.join(root, name))
            listed = sorted(j.id for j in p)
        except Exception as e:  # noqa: BLE001
            ws.append((name, [], None, "listing raised " + type(e).__name__))
            continue
        try:
            p.check()
            rep = []
        except JobsCorruptedError as e:
            rep = sorted(e.job_ids)
        except Exception:  # noqa: BLE001
            rep = None
        ws.append((name, listed, rep, None))
    return snap, ws


# ------------------------------------------------------------------ Gallina literals
class Lit:
    def __init__(self):
        self.prelude = {}

    def name(self, s):
        if s == SPF:
            return "SPF"
        if s == SPT:
            return "SPT"
        if s == DOCF:
            return "DOCF"
        if s == WSN:
            return "WS"
        if s == "._TMP_" + SPF:
            return self.define("tmp_spf", "(TMPPFX ++ SPF)")
        if s == "._TMP_" + DOCF:
            return self.define("tmp_docf", "(TMPPFX ++ DOCF)")
        key = "n_" + hashlib.md5(s.encode()).hexdigest()[:10]
        return self.define(key, self.raw(s))

    @staticmethod
    def raw(s):
        b = [ord(ch) for ch in s] if isinstance(s, str) else list(s)
        return "[" + ";".join(str(x) for x in b) + "]%N" if len(b) else "(@nil N)"

    def define(self, key, term, ty="str"):
        self.prelude[key] = f"Definition {key} : {ty} := {term}."
        return key

    def path(self, comps):
        return coq_list([self.name(c) for c in comps], "str")

    def content(self, name, data):
        pj = None
        base = norm_tmp(name)
        if base in (SPF, SPT, DOCF, "._TMP_" + SPF, "._TMP_" + DOCF):
            try:
                pj = coq_json(json.loads(data.decode()))
            except (ValueError, TypeError):
                pj = None
        key = "c_" + hashlib.md5(data + (pj or "").encode()).hexdigest()[:10]
        return self.define(key, "mkContent %s %s" % (self.raw(bytes(data)), coq_opt(pj)), "content")

    def tree(self, snap):
        items = []
        for comps, kind, data in snap:
            if kind == "dir":
                items.append(f"({self.path(comps)}, Dir)")
            else:
                items.append(f"({self.path(comps)}, File {self.content(comps[-1], data)})")
        body = coq_list(items, "(path * node)")
        key = "t_" + hashlib.md5(body.encode()).hexdigest()[:12]
        return self.define(key, body, "fs")

    def fobs(self, snap, ws):
        wl = []
        for name, listed, rep, _ in ws:
            wl.append("{| wo_ws := %s; wo_listed := %s; wo_reported := %s |}" % (
                self.path([name, WSN]), coq_list([self.name(i) for i in listed], "str"),
                coq_opt(None if rep is None else coq_list([self.name(i) for i in rep], "str"))))
        return "{| fo_tree := %s; fo_ws := %s |}" % (self.tree(snap), coq_list(wl, "wobs"))

    def items(self):
        return list(self.prelude.items())


def coq_op(L, scn):
    op = scn["op"]
    wa, wb = L.path(["pA", WSN]), L.path(["pB", WSN])
    dst = wa if scn.get("same_project") else wb
    ida = L.name(NULL_ID if scn["dest"] == "nullsp" else calc_id(SP_A))
    if op == "init":
        return f"(KInit {wa} {coq_json(init_sp_of(scn))} false)"
    if op == "rekey":
        return f"(KRekey {wa} {ida} {coq_json(new_sp_of(scn))})"
    if op == "move":
        return f"(KMove {wa} {ida} {dst})"
    if op == "clone":
        return f"(KClone {wa} {ida} {dst})"
    if op == "remove":
        return f"(KRemove {wa} {ida})"
    if op == "clear":
        return f"(KClear {wa} {ida})"
    raise AssertionError(op)


def wss_of(scn):
    two = scn["op"] in ("move", "clone") and not scn.get("same_project")
    return [["pA", WSN]] + ([["pB", WSN]] if two else [])


# ------------------------------------------------------------------ running
def in_ws(rel):
    c = split(rel or "")
    return len(c) >= 2 and c[1] == WSN


def sig_of_event(op, rel, rel2):
    """(kind, comps1, comps2) with temp names normalised; None for calls outside the workspaces."""
    if op not in OPKIND or not in_ws(rel if rel is not None else rel2):
        return None
    c1 = split(norm_tmp(rel)) if rel else []
    c2 = split(norm_tmp(rel2)) if rel2 else []
    return (OPKIND[op], tuple(c1), tuple(c2))


def run_op(scn, template, work, name, fault=None, fault2=None):
    """Copy the template, run the operation under the interposer.  fault / fault2 = (sig, occ, errno number);
    occurrences are counted in the run itself (the second fault in the run that contains the first)."""
    root = os.path.join(work, name)
    shutil.copytree(template, root, symlinks=True)
    pre = snapshot(root)
    act, job = prepare(scn, root)
    events = []
    seen = {}
    fired = []

    def plan(k, op, rel, rel2):
        s = sig_of_event(op, rel, rel2)
        if s is None:
            return None
        n = seen.get(s, 0)
        seen[s] = n + 1
        events.append((s, n, op))
        if fault is not None and s == fault[0] and n == fault[1]:
            fired.append(len(events) - 1)
            return fault[2]
        if fault2 is not None and fired and s == fault2[0] and n == fault2[1]:
            return fault2[2]
        return None

    ip = Interposer(root, faults=plan, observe_reads=True, keep_pre=fault is None)
    exc = None
    with ip:
        try:
            act()
        except Exception as e:  # noqa: BLE001 - the class is the observation
            exc = e
    ip.fired_at = fired[0] if fired else None
    ip.job = job
    return root, pre, ip, events, exc


_CLEAN = {}      # the tree the fault-free run of the current scenario left (None when that run raised)


def case_of(L, scn, thr, pre, probe, desc, obs, nontrivial, kinds):
    clean = _CLEAN.get("snap")
    coq = ("{| k_atomic := %s; k_ftab := []; k_op := %s; k_wss := %s; k_pre := %s; k_probe := %s; k_noload := %s; "
           "k_clean := %s |}" % (
        coq_bool(thr), coq_op(L, scn), coq_list([L.path(w) for w in wss_of(scn)], "path"), L.tree(pre), probe,
        coq_bool(scn.get("route") == "assign"), coq_opt(None if clean is None else L.tree(clean))))
    if clean is not None and isinstance(obs, dict) and obs.get("outcome", 0) is None and "tree" in obs:
        obs["fault_free_tree"] = brief_tree(clean)
    return Case(coq, desc, obs=obs, nontrivial=nontrivial, key=json.dumps(desc, sort_keys=True), kinds=kinds,
                prelude=L.items())


def brief_ws(ws):
    return [{"project": n, "listed": l, "reported": r, "note": x} for n, l, r, x in ws]


def brief_tree(snap):
    return ["/".join(c) + ("/" if k == "dir" else " [%d] %s" % (len(b), b[:24].decode("latin-1"))) for c, k, b in snap if len(c) >= 3]


def run_scenario(desc, work):
    scn = desc["scn"]
    thr = scn.get("threads", True)
    probe = desc.get("probe", "all")
    logging.disable(logging.CRITICAL)
    set_threads(thr)
    cases = []
    try:
        template = os.path.join(work, "template")
        os.makedirs(template)
        build_template(scn, template)
        kinds0 = [scn["op"], "dest:" + scn["dest"], "threads-on" if thr else "threads-off"]
        # ---------------- clean run: trace, crash states
        root, pre, ip, events, exc = run_op(scn, template, work, "clean")
        broken = ip.check_complete(work)
        # reference for "an injected error that was swallowed must leave the fault-free result"
        _CLEAN["snap"] = snapshot(root) if exc is None else None
        if probe in ("all", "crash"):
            L = Lit()
            states, labels, last = [], [], None
            for n, cp in enumerate(ip.crash_points()):
                dest = os.path.join(work, "cs")
                ip.materialise(cp, dest)
                snap, ws = observe(dest)
                shutil.rmtree(dest)
                key = deep_key(snap)
                if key == last:
                    continue
                last = key
                states.append((snap, ws))
                labels.append(cp.label())
            if broken:
                # an unobserved mutation: make the case mismatch instead of accepting it
                states = states + [states[0]] * 2
            out = None if exc is None else exn_name(exc)
            pr = "(PCrash %s %s)" % (coq_opt(out), coq_list([L.fobs(s, w) for s, w in states], "fobs"))
            muts = ip.mutations()
            obs = {"outcome": out, "trace": [o.brief() for o in muts], "crash_states": labels, "broken": broken,
                   "states": [{"at": lb, "tree": brief_tree(s), "projects": brief_ws(w)} for lb, (s, w) in zip(labels, states)]}
            cases.append(case_of(L, scn, thr, pre, pr, {"scn": scn, "probe": "crash"}, obs, len(muts) >= 2,
                                 kinds0 + ["crash", "crash-states:%d" % len(states)]))
        ip.cleanup()
        shutil.rmtree(root, ignore_errors=True)
        # ---------------- faults
        exdev = set()       # (rename, EXDEV) faults: followed by a second fault at EVERY later call of the same run
        if probe == "crash":
            plan = []
        elif probe == "all":
            plan = [(s, n, en) for (s, n, _) in events for en, _ in ERRNOS]
            pick = desc.get("pick")
            if pick is not None:
                plan = [plan[i % len(plan)] for i in pick] if plan else []
                # every stat / listdir of the run fails once (deterministically: os.path.isfile / isdir / exists
                # swallow the error, so a failing stat silently changes a decision)
                probes = [(s, n) for (s, n, _) in events if s[0] in ("SgStat", "SgListdir")]
                for j, (s, n) in enumerate(probes):
                    plan.append((s, n, "EIO"))
                    if (j + pick[1]) % 3 == 0:
                        plan.append((s, n, ERRNOS[1 + (j + pick[0]) % (len(ERRNOS) - 1)][0]))
                # every rename of the run fails once with EXDEV (the errno that is specific to rename / os.replace and
                # has a branch of its own in Job.move)
                for (s, n, _) in events:
                    if s[0] == "SgRename":
                        plan.append((s, n, "EXDEV"))
                        exdev.add((s, n, "EXDEV"))
                plan = list(dict.fromkeys(plan))
        elif "fault" in probe:
            f = probe["fault"]
            plan = [((f[0], tuple(f[1]), tuple(f[2])), f[3], f[4])]
        else:
            plan = []
        clean_out = None if exc is None else exn_name(exc)
        done_faults = set()
        for idx, (s, n, en) in enumerate(plan):
            eno = dict(ERRNOS)[en]
            root, pre_f, ipf, ev_f, exc_f = run_op(scn, template, work, "f%d" % idx, fault=(s, n, eno))
            done_faults.add((s, n, en))
            cases.append(fault_case(scn, thr, kinds0, (s, n, en), root, pre_f, ipf, ev_f, exc_f, clean_out))
            # ---- a second fault later in the same run (sampled)
            later = ev_f[ipf.fired_at + 1:] if ipf.fired_at is not None else []
            done2 = set()
            for j in desc.get("pick2", {}).get(str(idx), []):
                if not later:
                    break
                s2, n2, _ = later[j % len(later)]
                en2 = ERRNOS[(j // 7) % len(ERRNOS)][0]
                done2.add((s2, n2, en2))
                cases.append(double_fault(scn, thr, template, work, kinds0, (s, n, en), (s2, n2, en2), clean_out))
            if (s, n, en) in exdev:
                # "the two workspaces are on different devices" is where code is tempted to fall back to copy + delete:
                # whatever runs after the failed rename (nothing but the error path in the unchanged code) meets a second
                # fault at each of its calls, deterministically (errnos rotating)
                for m, (s2, n2, _) in enumerate(later[:8]):
                    f2 = (s2, n2, ERRNOS[m % len(ERRNOS)][0])
                    if f2 not in done2:
                        done2.add(f2)
                        cases.append(double_fault(scn, thr, template, work, kinds0, (s, n, en), f2, clean_out))
        # ---- handled fault + follow-up through the same handle
        fplan = []
        # no follow-ups where the job directory is MISSING (remove / clear of a job that is not there): such a handle can
        # only be made by state point (open_job(id=...) of a missing directory fails), it holds its state point in
        # memory, and the handle model of remove / clear (Crash.op1_h: hs_sp = None, "loads and validates the file on
        # first access") describes handles opened by id - the follow-up model is not defined for that provenance
        if probe == "all" and scn["dest"] != "missing":
            fos = follow_ups_for(scn)
            mutating = [(s, n) for (s, n, _) in events if s[0] in ("SgRename", "SgMkdir", "SgOpen", "SgWrite", "SgUnlink", "SgRmdir")]
            others = [(s, n) for (s, n, _) in events if (s, n) not in mutating]
            j = 0
            for (s, n) in mutating:
                if desc.get("pick") is not None:         # quick: per mutating call a state point change after EIO and
                    fplan.append(((s, n, "EIO"), "set"))    # after EACCES (the "destination exists" errno class), and one
                    fplan.append(((s, n, "EACCES"), "set"))  # more follow-up with a rotating errno
                    fplan.append(((s, n, ERRNOS[j % 5][0]), fos[1 + j % (len(fos) - 1)]))
                else:                                    # thorough: every errno, follow-ups rotating; all follow-ups for EIO
                    for m, (en, _) in enumerate(ERRNOS):
                        fplan.append(((s, n, en), fos[(j + m) % len(fos)]))
                    for fo_name in fos:
                        fplan.append(((s, n, "EIO"), fo_name))
                j += 1
            if desc.get("pick") is None:
                for (s, n) in others:
                    fplan.append(((s, n, ERRNOS[j % 5][0]), fos[j % len(fos)]))
                    j += 1
            fplan = list(dict.fromkeys((a, b) for a, b in fplan))
        elif isinstance(probe, dict) and "follow" in probe:
            a, fo_name = probe["follow"]
            fplan = [(((a[0], tuple(a[1]), tuple(a[2])), a[3], a[4]), fo_name)]
        for f1, fo_name in fplan:
            cse = follow_case(scn, thr, template, work, kinds0, f1, fo_name, clean_out, done_faults)
            if cse is not None:
                cases.append(cse)
        if isinstance(probe, dict) and "fault2" in probe:
            a, b = probe["fault2"]
            cases.append(double_fault(scn, thr, template, work, kinds0,
                                      ((a[0], tuple(a[1]), tuple(a[2])), a[3], a[4]),
                                      ((b[0], tuple(b[1]), tuple(b[2])), b[3], b[4]), clean_out))
    finally:
        set_threads(True)
    return cases


def fault_case(scn, thr, kinds0, f1, root, pre_f, ipf, ev_f, exc_f, clean_out):
    """One injected fault: the exception class seen by the caller and the recovery observation.  Removes root."""
    (s, n, en) = f1
    snap, ws = observe(root)
    shutil.rmtree(root, ignore_errors=True)
    L = Lit()
    out = None if exc_f is None else exn_name(exc_f)
    sig = "{| sg_kind := %s; sg_p := %s; sg_q := %s |}" % (s[0], L.path(list(s[1])), L.path(list(s[2])))
    pr = "(PFault %s %s %s %s %s)" % (sig, coq_nat(n), en, coq_opt(out), L.fobs(snap, ws))
    fired = bool(ipf.injected)
    obs = {"outcome": out, "clean_outcome": clean_out, "fault_fired": fired,
           "calls_after_fault": [e[2] + " " + "/".join(e[0][1]) for e in ev_f][-6:],
           "tree": brief_tree(snap), "projects": brief_ws(ws),
           "tree_changed": deep_key(snap) != deep_key(pre_f)}
    fd = {"scn": scn, "probe": {"fault": [s[0], list(s[1]), list(s[2]), n, en]}}
    return case_of(L, scn, thr, pre_f, pr, fd, obs, out != clean_out or obs["tree_changed"], kinds0 + ["fault", en, s[0]])


FOLLOW = {"set": ["set", "q", 9], "doc": ["doc", "fk", 1], "init": ["init"]}


def follow_ups_for(scn):
    return ["set", "init"] if scn["op"] == "init" else ["set", "doc", "init"]


def coq_fop(L, fo):
    if fo[0] == "set":
        return "(FSet %s %s)" % (L.raw(fo[1]), coq_json(fo[2]))
    if fo[0] == "doc":
        return "(FDoc %s %s)" % (L.raw(fo[1]), coq_json(fo[2]))
    return "FInit"


def follow_case(scn, thr, template, work, kinds0, f1, fo_name, clean_out=None, done_faults=None):
    """A handled fault, then a follow-up operation through the SAME handle, then a restart (fresh Project)."""
    (s, n, en) = f1
    fo = FOLLOW[fo_name]
    root, pre_f, ipf, ev_f, exc1 = run_op(scn, template, work, "h", fault=(s, n, dict(ERRNOS)[en]))
    if exc1 is None and ipf.injected and done_faults is not None and f1 not in done_faults:
        # the injected error was SWALLOWED (the operation returned normally): nothing to follow up, but the run is
        # judged as a single-fault case (an error that is swallowed must leave the fault-free result) - so that every
        # mutating call is covered deterministically, not only by the seeded sample of fault positions
        done_faults.add(f1)
        return fault_case(scn, thr, kinds0, f1, root, pre_f, ipf, ev_f, exc1, clean_out)
    if exc1 is None or not ipf.injected:
        shutil.rmtree(root, ignore_errors=True)
        return None                       # not a handled error: nothing to follow up
    mid_snap, mid_ws = observe(root)
    if deep_key(mid_snap) != deep_key(pre_f):
        # the error left a check()-detectable state (or removed data): the user has to repair first; the
        # follow-up class is about errors that leave the PRE-STATE, where the handle must be unchanged too
        shutil.rmtree(root, ignore_errors=True)
        return None
    job = ipf.job
    exc2 = None
    try:
        if fo[0] == "set":
            job.sp[fo[1]] = fo[2]
        elif fo[0] == "doc":
            job.doc[fo[1]] = fo[2]
        else:
            job.init()
    except Exception as e:  # noqa: BLE001
        exc2 = e
    snap, ws = observe(root)
    shutil.rmtree(root, ignore_errors=True)
    L = Lit()
    out1, out2 = exn_name(exc1), (None if exc2 is None else exn_name(exc2))
    sig = "{| sg_kind := %s; sg_p := %s; sg_q := %s |}" % (s[0], L.path(list(s[1])), L.path(list(s[2])))
    pr = "(PFollow %s %s %s %s %s %s %s %s)" % (sig, coq_nat(n), en, coq_opt(out1), L.fobs(mid_snap, mid_ws),
                                              coq_fop(L, fo), coq_opt(out2), L.fobs(snap, ws))
    obs = {"outcome_op": out1, "follow_up": fo, "outcome_follow_up": out2, "mid_tree_is_pre": deep_key(mid_snap) == deep_key(pre_f),
           "final_tree": brief_tree(snap), "projects": brief_ws(ws)}
    fd = {"scn": scn, "probe": {"follow": [[s[0], list(s[1]), list(s[2]), n, en], fo_name]}}
    return case_of(L, scn, thr, pre_f, pr, fd, obs, True, kinds0 + ["follow-up", "follow:" + fo_name, en])


def double_fault(scn, thr, template, work, kinds0, f1, f2, clean_out):
    (s1, n1, en1), (s2, n2, en2) = f1, f2
    root, pre_f, ipf, ev_f, exc_f = run_op(scn, template, work, "g", fault=(s1, n1, dict(ERRNOS)[en1]),
                                           fault2=(s2, n2, dict(ERRNOS)[en2]))
    snap, ws = observe(root)
    shutil.rmtree(root, ignore_errors=True)
    L = Lit()
    out = None if exc_f is None else exn_name(exc_f)
    sig = lambda s: "{| sg_kind := %s; sg_p := %s; sg_q := %s |}" % (s[0], L.path(list(s[1])), L.path(list(s[2])))  # noqa: E731
    pr = "(PFault2 %s %s %s %s %s %s %s %s)" % (sig(s1), coq_nat(n1), en1, sig(s2), coq_nat(n2), en2, coq_opt(out), L.fobs(snap, ws))
    obs = {"outcome": out, "clean_outcome": clean_out, "faults_fired": len(ipf.injected),
           "calls": [e[2] + " " + "/".join(e[0][1]) for e in ev_f][-8:], "tree": brief_tree(snap), "projects": brief_ws(ws),
           "tree_changed": deep_key(snap) != deep_key(pre_f)}
    fd = {"scn": scn, "probe": {"fault2": [[s1[0], list(s1[1]), list(s1[2]), n1, en1], [s2[0], list(s2[1]), list(s2[2]), n2, en2]]}}
    return case_of(L, scn, thr, pre_f, pr, fd, obs, len(ipf.injected) == 2, kinds0 + ["double-fault", en1 + "+" + en2])


def run_case(desc):
    with scratch_dir("c11") as work:
        return run_scenario(desc, work)


def scenarios():
    out = []
    for thr in (True, False):
        for dest in ("fresh", "valid", "nosp", "torn", "foreign"):
            out.append({"op": "init", "dest": dest, "threads": thr})
        for route in ("setitem", "update"):
            for dest in ("fresh", "collide", "emptydir"):
                out.append({"op": "rekey", "dest": dest, "route": route, "threads": thr})
        # job.statepoint = {...} through a by-id handle that never read its state point (no load before the protocol)
        for dest in ("fresh", "collide") + (("emptydir",) if thr else ()):
            out.append({"op": "rekey", "dest": dest, "route": "assign", "threads": thr})
        out.append({"op": "rekey", "dest": "fresh", "route": "setitem", "threads": thr, "payload": False})
        if thr:
            out.append({"op": "rekey", "dest": "same", "route": "setitem", "threads": thr})
        for op in ("move", "clone"):
            for dest in ("fresh", "collide", "emptydir"):
                out.append({"op": op, "dest": dest, "threads": thr})
            out.append({"op": op, "dest": "fresh", "threads": thr, "payload": False})
        out.append({"op": "clone", "dest": "collide", "threads": thr, "same_project": True})
        # the directory named md5("null") holding a state point file "null": never loads (ae33aa8)
        out.append({"op": "rekey", "dest": "nullsp", "route": "setitem", "threads": thr})
        out.append({"op": "move", "dest": "nullsp", "threads": thr})
        out.append({"op": "clone", "dest": "nullsp", "threads": thr})
        for op, dest in (("rekey", "fresh"), ("move", "fresh"), ("clone", "fresh"), ("remove", "valid"), ("clear", "valid")):
            out.append(dict({"op": op, "dest": dest, "threads": thr, "payload": "big"},
                            **({"route": "setitem"} if op == "rekey" else {})))
        for op in ("remove", "clear"):
            for dest in ("valid", "missing"):
                out.append({"op": op, "dest": dest, "threads": thr})
            out.append({"op": op, "dest": "valid", "threads": thr, "payload": False})
    return out


def gen_inputs(tier, rng):
    descs = []
    for scn in scenarios():
        d = {"scn": scn, "probe": "all"}
        if tier == "quick":
            d["pick"] = [rng.randrange(10 ** 6) for _ in range(14)]
            d["pick2"] = {str(i): [rng.randrange(10 ** 6)] for i in rng.sample(range(14), 3)}
        else:
            d["pick2"] = {str(i): [rng.randrange(10 ** 6)] for i in rng.sample(range(400), 90)}
        descs.append(d)
    return descs
