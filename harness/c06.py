"""C06 — find_jobs returns exactly the jobs a per-job reference evaluator accepts."""
import json

from . import querygen as qg
from .common import Case, coq_json, coq_list, coq_str, exn_name, scratch_dir, typed, untyped

PROP = "C06"
IMPORTS = "Base Json PyVal Query CorrC06"
CASE_TYPE = "case_C06"
MISMATCHES = "mismatches_C06"
VIOLATIONS = "violations_C06"
KNOWN = "known_C06"
EXHAUSTIVE = {"quick": False, "thorough": False}
SHARD = 220
RULE = ("corpora of 0-6 real jobs (state point + optional document) over a typed value universe (ints, int-valued "
        "floats incl. -1.0/-2.0, other floats, bools, None, strings, lists, nested mappings, missing keys), each "
        "queried through Project.find_jobs with ~40 filters: a fixed list of boundary filters, seeded random filters "
        "of the documented grammar up to depth 3 (implicit equality, all operators, $and/$or/$not, dotted/nested "
        "keys; thorough additionally enumerates a small-scope grammar exhaustively: every pair of 11 typed values "
        "under one key x ~500 filters incl. every operator, $not of each, and $and/$or/$not combinations; "
        "keys, sp./doc. namespaces, operator as nested mapping or key suffix) and a malformed stream. "
        "non-trivial: the filter selects a non-empty proper subset of the corpus, or raises; distinct by "
        "(corpus, filter)")
TRUSTED = [
    "re.search modelled by an oracle table in the shard (Section variable regex_search)",
    "math.isclose modelled with Coq PrimFloat binary64 arithmetic following CPython (Section variable isclose); "
    "PrimFloat/Uint63 primitives appear in Print Assumptions of nothing in props/C06.v (only in the executable instance)",
    "CPython numeric hash: ints |x|<2^53 hash to themselves except hash(-1) = -2 (slot model in PyVal.v)",
]
ASSUMPTIONS = ["ints |x| < 2^53, finite floats", "dicts nested inside list values hold scalars only",
               "$where (eval) is outside the documented grammar and not generated",
               "implicit equality with an EMPTY mapping ({'a': {}}) is ill-typed in the reference semantics, as in the code "
               "(TypeError); $near and the order operators are ill-typed on a corpus in which some job holds a value they "
               "cannot be applied to"]


SMALL_VALUES = [0, 1, 1.0, True, -1, -1.0, 0.5, "x", None, [1, 2], {"x": 1}]
SMALL_ARGS = [1, 1.0, True, -1, 0.5, "x", None, [1, 2]]


def small_scope_filters():
    """Bounded-exhaustive small-scope grammar over one state point key `a` (and its nested `a.x`)."""
    simple = [{"a": v} for v in SMALL_ARGS]
    for op in ("$eq", "$ne", "$gt", "$gte", "$lt", "$lte"):
        simple += [{"a": {op: v}} for v in SMALL_ARGS[:7]]
    for op in ("$in", "$nin"):
        simple += [{"a": {op: l}} for l in ([], [1], [1.0, "x"], [None, [1, 2]], [True, -1])]
    simple += [{"a": {"$exists": b}} for b in (True, False)]
    simple += [{"a.x": {"$exists": True}}, {"a.x": 1}, {"a": {"x": 1}}]
    simple += [{"a": {"$type": t}} for t in qg.TYPES]
    simple += [{"a": {"$regex": p}} for p in ("^x", "y")]
    simple += [{"a": {"$near": [1, 0.5]}}, {"a": {"$near": 1.0000000001}}]
    out = list(simple)
    out += [{"$not": f} for f in simple]
    for i, f in enumerate(simple):
        g = simple[(7 * i + 3) % len(simple)]
        h = simple[(11 * i + 5) % len(simple)]
        out.append({"$and": [f, g]})
        out.append({"$or": [f, g]})
        out.append({"$or": [f, {"$not": h}], "$not": g})
    return out


def gen_inputs(tier, rng):
    ncorp, nfilt = (60, 30) if tier == "quick" else (900, 45)
    descs = []
    if tier != "quick":
        filters = [typed(f) for f in small_scope_filters()]
        for i, v in enumerate(SMALL_VALUES):
            for w in SMALL_VALUES[i:]:
                jobs = [{"sp": typed({"a": v, "b": 0}), "doc": None}, {"sp": typed({"a": w, "b": 1}), "doc": None},
                        {"sp": typed({"b": 2}), "doc": None}]
                descs.append({"jobs": jobs, "filters": filters})
    # pinned: the witnesses of open finding C06 tag 1 (one index slot for values of different type)
    descs.append({"jobs": [{"sp": typed({"a": True, "b": 0}), "doc": None}, {"sp": typed({"a": 1, "b": 1}), "doc": None},
                           {"sp": typed({"a": -1, "b": 2}), "doc": None}, {"sp": typed({"a": -1.0, "b": 3}), "doc": None}],
                  "filters": [typed(f) for f in ({"a.$type": "bool"}, {"a.$type": "int"}, {"a": {"$type": "float"}}, {"a": 1}, {"a": True})]})
    for i in range(ncorp):
        jobs = qg.rand_corpus(rng, clashy=(i % 4 == 0))
        filters = list(qg.FIXED) if i % 6 == 0 else rng.sample(qg.FIXED, 8)
        pairs = qg.present_pairs([{"sp": untyped(j["sp"]), "doc": untyped(j["doc"])} for j in jobs])
        filters += [qg.rand_filter(rng, rng.randint(0, 2), pairs) for _ in range(nfilt)]
        filters += rng.sample(qg.MALFORMED, 3)
        filters += shared_leaf_filters(rng, pairs)
        filters += two_spelling_filters(rng, pairs)
        if i % 5 == 0:
            # integers that no double represents exactly next to their float neighbours (the int/float dual lookup
            # must compare exactly, as Python's == does)
            for j in jobs:
                if rng.random() < 0.8:
                    sp = untyped(j["sp"]); sp["seed"] = rng.choice(BIG_NUMS); j["sp"] = typed(sp)
            filters += [{"seed": v} for v in rng.sample(BIG_NUMS, 4)] + [{"seed": {"$eq": rng.choice(BIG_NUMS)}},
                                                                        {"seed": {"$in": rng.sample(BIG_NUMS, 2)}}]
        descs.append({"jobs": jobs, "filters": [typed(f) for f in filters], "pseed": rng.randint(0, 10 ** 9)})
    return descs


BIG_NUMS = [2 ** 53, 2 ** 53 + 1, float(2 ** 53), 2 ** 53 + 2, float(2 ** 53 + 2), -(2 ** 53 + 1), float(-(2 ** 53)), 2 ** 60 + 1, float(2 ** 60)]


def shared_leaf_filters(rng, pairs):
    """compound filters whose operands SHARE a leaf expression (same key, same value), the shared leaf coming first in
    an operand and being followed by another condition"""
    out = []
    if not pairs:
        return out
    for _ in range(3):
        k, v = rng.choice(pairs)
        others = [p for p in pairs if p[0] != k]
        if not others:
            continue
        ops = []
        for _ in range(rng.randint(2, 3)):
            k2, v2 = rng.choice(others)
            ops.append({k: v, k2: v2})
        out.append({rng.choice(["$or", "$and"]): ops})
        out.append({"$or": ops, k: v})
    return out


def two_spelling_filters(rng, pairs):
    """one mapping that names a state point key BOTH with and without its namespace ('a' next to 'sp.a'): two conditions
    on one key, which prefixing makes textually equal"""
    out = []
    sp_pairs = [(k, v) for k, v in pairs if not k.startswith("doc.") and not isinstance(v, dict)]
    for _ in range(3):
        if not sp_pairs:
            break
        k, v = rng.choice(sp_pairs)
        others = [w for kk, w in sp_pairs if kk == k] + [rng.choice(qg.SCALARS)]
        w = rng.choice(others)
        conds = [v, w, {"$ne": w}, {"$exists": True}, {"$in": [v, w]}, {"$type": qg.type_name(v)}]
        a, b = rng.choice(conds), rng.choice(conds)
        first, second = ((k, a), ("sp." + k, b)) if rng.random() < 0.5 else (("sp." + k, a), (k, b))
        f = {first[0]: first[1], second[0]: second[1]}
        r = rng.random()
        if r < 0.25:
            f["$and"] = [{k: {"$exists": True}}]
        elif r < 0.4:
            f = {"$or": [f, {k: w}]}
        elif r < 0.5:
            f = {"$not": f}
        out.append(f)
    return out


def run_filters(project, filters):
    out = []
    for f in filters:
        try:
            ids = sorted(j.id for j in project.find_jobs(f))
            out.append(("ids", ids))
        except Exception as e:  # noqa
            out.append(("exn", exn_name(e)))
    return out


def run_case(desc):
    jobs = [{"sp": untyped(j["sp"]), "doc": untyped(j["doc"])} for j in desc["jobs"]]
    filters = [untyped(f) for f in desc["filters"]]
    with scratch_dir("c06") as d:
        project = qg.build_project(d, jobs)
        recs = qg.listing(project)
        results = run_filters(project, [json.loads(json.dumps(f)) for f in filters])
        # phase 2: the job documents change (no job added or removed) and the SAME Project handle is queried again
        import random
        rng2 = random.Random(desc.get("pseed", 7))
        phase2 = None
        docf = [f for f in filters if "doc" in json.dumps(f)][:12]
        if recs and docf and "pseed" in desc:
            for r in recs:
                if rng2.random() < 0.6:
                    newdoc = qg.rand_doc(rng2)
                    job = project.open_job(id=r["id"])
                    if newdoc is None:
                        job.doc.clear()
                    else:
                        job.doc.reset(newdoc)
            recs2 = qg.listing(project)
            res2 = run_filters(project, [json.loads(json.dumps(f)) for f in docf])
            phase2 = (recs2, docf, res2)
    cname = qg.corpus_name(recs)
    prelude = [(cname, f"Definition {cname} : list job := {qg.coq_jobs(recs)}.")]
    cases = []
    n = len(recs)
    for f, (kind, val) in zip(filters, results):
        obs = ("(ObsIds %s)" % coq_list([coq_str(i) for i in val], "str")) if kind == "ids" else f"(ObsExn {val})"
        tab = qg.regex_table(recs, f)
        coq = "{| c6_jobs := %s; c6_filter := %s; c6_regex := %s; c6_obs := %s |}" % (
            cname, coq_json(f), qg.coq_regex_table(tab), obs)
        nontriv = (kind == "exn") or (0 < len(val) < n)
        kinds = ["raises:" + val if kind == "exn" else ("all" if len(val) == n and n else ("none" if not val else "proper-subset")),
                 "corpus-size:%d" % n]
        cases.append(Case(coq, {"jobs": desc["jobs"], "filters": [typed(f)]},
                          obs={"listing": [r["id"] for r in recs], "result": val}, nontrivial=nontriv,
                          key=cname + json.dumps(typed(f), sort_keys=True), kinds=kinds, prelude=prelude))
    if phase2 is not None:
        recs2, docf, res2 = phase2
        cname2 = qg.corpus_name(recs2) + "_p2"
        prelude2 = [(cname2, f"Definition {cname2} : list job := {qg.coq_jobs(recs2)}.")]
        for f, (kind, val) in zip(docf, res2):
            obs = ("(ObsIds %s)" % coq_list([coq_str(i) for i in val], "str")) if kind == "ids" else f"(ObsExn {val})"
            coq = "{| c6_jobs := %s; c6_filter := %s; c6_regex := %s; c6_obs := %s |}" % (
                cname2, coq_json(f), qg.coq_regex_table(qg.regex_table(recs2, f)), obs)
            cases.append(Case(coq, {"jobs": desc["jobs"], "filters": [typed(f)], "phase2_docs": [typed(r["doc"]) for r in recs2],
                                    "pseed": desc.get("pseed")},
                              obs={"listing": [r["id"] for r in recs2], "result": val},
                              nontrivial=(kind == "exn") or (0 < len(val) < len(recs2)),
                              key=cname2 + json.dumps(typed(f), sort_keys=True), kinds=["requery-after-doc-change"],
                              prelude=prelude2))
    return cases


def search(desc):
    """neighbours: each job alone and each pair with the same filter"""
    out = []
    jobs = desc["jobs"]
    for i in range(len(jobs)):
        out.append({"jobs": [jobs[i]], "filters": desc["filters"]})
        for k in range(i + 1, len(jobs)):
            out.append({"jobs": [jobs[i], jobs[k]], "filters": desc["filters"]})
    return out[:40]
