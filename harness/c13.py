"""C13 — a successful sync makes the destination a superset and touches nothing else."""
from . import sync_gen

PROP = "C13"
IMPORTS = "Base Json Canon Sync SyncObs CorrC13"
CASE_TYPE = "case_C13"
MISMATCHES = "mismatches_C13"
VIOLATIONS = "violations_C13"
KNOWN = None
SHARD = 40
RULE = ("Job.sync / sync_jobs between jobs whose state points differ x document strategy (all DocSync.COPY combinations in quick) x file strategy incl. custom strategies that accept the state point file and update with a newer source state point x destination initialised or not; top-level user files whose names are proper substrings of the job's own file names (state, json, signac, point.json, document ...) x document strategy incl. DocSync.COPY; permission bits other than the umask default on counterpart / one-sided / nested files and in cloned jobs x preserve_permissions / preserve_times x collect_stats (bits observed before and after, next to the trees); names of filecmp.DEFAULT_IGNORES on both sides with equal size and mtime but different content; file / directory clashes at the top level and nested, user files named like the state point / document in sub-directories, a caller-owned exclude list reused across two calls, deep syncs after an earlier deep comparison of the same paths followed by a same-size same-mtime change (filecmp cache not cleared by the harness); selection also as one-shot iterables (generator / iter / map / groupby group); seeded random pairs of real projects over the universe of the property text (0-4 jobs each, overlapping / disjoint "
        "ids, files identical / differing / one-sided with explicit mtimes, nested and empty directories, file-vs-directory "
        "clashes, names from filecmp.DEFAULT_IGNORES and names that merely start like the state point / document file, job and "
        "project documents overlapping / nested / conflicting / mixed-type) x options (strategy None/always/never/update/custom, "
        "doc_sync default/ByKey(pred|regex)/update/NO_SYNC/COPY, recursive, exclude str/list, selection by id/job incl. foreign "
        "ids, check_schema) x entry point (Project.sync, sync_projects, Job.sync, sync_jobs incl. uninitialised jobs and jobs with "
        "different state points); plus the one-file core family (content x mtime x strategy x depth x recursive x entry), deep trees whose intermediate levels are identical (difference 3-5 levels down) stale document backup files excluded names inside cloned jobs / left-only directories / as directory names / matching signac's own files (exclude None, str, list), and a ByKey() instance the caller reuses after a call that raised; every "
        "successful call is repeated on the tree it left.  non-trivial: the call changed the destination or raised; distinct by "
        "the JSON of the scenario")
TRUSTED = [
    "float.__repr__ as an oracle table (documents); re.match outcomes for exclude patterns / regex key strategies as tables "
    "computed by the harness over every name occurring in the scenario",
    "filecmp.dircmp / filecmp.cmp, shutil.copy / copytree, synced_collections JSON documents (write on every assignment, "
    "json.dumps text) are modelled, not verified; the os.scandir order of every directory and the iteration order of "
    "list(project) are observed and fed to the model",
    "detect_schema is modelled for flat int/str state points only (set of (key, value))",
    "with parallel=True/int and an exception the destination tree depends on the schedule: only the exception class and the "
    "source are compared there (the worker threads are joined before the snapshot: ThreadPool.terminate() does not)",
]
ASSUMPTIONS = ["both workspaces are valid (directory name = id of the state point file)", "no symbolic links",
               "file mtimes precede the call (set explicitly with os.utime); preserve_owner / preserve_group / follow_symlinks at their defaults; permission bits are set on user files only (owner read/write always set)",
               "document keys are distinct and contain no '.'"]


def gen_inputs(tier, rng):
    n = 400 if tier == "quick" else 8000
    descs = [sync_gen.rand_scenario(rng, PROP) for _ in range(n)]
    core, nested, backup = sync_gen.core_file_cases(), sync_gen.core_nested_cases(), sync_gen.core_backup_cases()
    if tier == "quick":
        core, nested, backup = rng.sample(core, 80), rng.sample(nested, 90), rng.sample(backup, 40)
    return descs + core + nested + backup + _excl(tier, rng) + _round3(tier, rng) + _round4(tier, rng) + _round6(tier, rng) + _round7(tier, rng) + _round8(tier, rng) + sync_gen.core_reuse_cases()

def _round3(tier, rng):
    cases = sync_gen.core_selection_cases()
    cases = cases if tier != "quick" else rng.sample(cases, 60)
    return cases


def _round4(tier, rng):
    cases = sync_gen.core_clash_cases() + sync_gen.core_reuse_exclude_cases()
    return cases if tier != "quick" else rng.sample(cases, 130)


def _round8(tier, rng):
    cross = sync_gen.core_cross_cases((False,))
    if tier == "quick":
        copy = [c for c in cross if c["opts"]["doc_sync"] == "copy"]
        other = [c for c in cross if c["opts"]["doc_sync"] != "copy"]
        cross = copy + rng.sample(other, 30)
    return cross


def _round7(tier, rng):
    own, perm = sync_gen.core_ownname_cases((False,)), sync_gen.core_perm_cases((False,))
    if tier == "quick":
        own, perm = rng.sample(own, 60), rng.sample(perm, 40)
    return own + perm


def _round6(tier, rng):
    cases = sync_gen.core_ignores_cases()
    return cases if tier != "quick" else rng.sample(cases, 60)


def _excl(tier, rng):
    cases = sync_gen.core_exclude_cases()
    return cases if tier != "quick" else rng.sample(cases, 70)


def run_case(desc):
    return sync_gen.run_scenario(desc, PROP)


def search(desc):
    return sync_gen.shrink_neighbours(desc)
