"""C02 — initialised jobs persist and reopen exactly; opening is lazy; id / prefix resolution."""
import copy
import itertools
import json
import os

from . import wsops
from .common import Case, coq_bool, coq_list, scratch_dir, typed, untyped

PROP = "C02"
IMPORTS = "Base Json MD5 Canon FS Ws CorrC02"
CASE_TYPE = "case_C02"
MISMATCHES = "mismatches_C02"
VIOLATIONS = "violations_C02"
KNOWN = None
SHARD = 60
RULE = ("op sequences over {open_job(sp), mutate the caller's mapping (top level / nested), init, re-init, new "
        "Project session, open_job(id=full id | every prefix length 0..32 | unknown id), iterate, len, in, "
        "statepoint(), cached_statepoint} on a project with 1-3 real jobs and 2-6 planted id-named directories "
        "whose ids share chosen common prefixes; after EVERY op a byte snapshot of the workspace and an "
        "inode/mtime/ctime signature of the whole scratch tree are taken. quick: seeded random sequences + "
        "prefix sweeps; thorough adds all sequences of length<=4 over a 9-letter alphabet on 3 state points. "
        "non-trivial: the sequence contains an init followed by a reopen in a fresh session, or a prefix lookup "
        "with >=2 candidate ids; distinct by the op list. Every case also varies what the model does not contain: "
        "how each Project object is obtained (init_project / get_project / constructor; absolute, relative to the cwd, "
        "with '..', trailing separator), os.chdir between the operations (always inside the scratch directory), and "
        "the names of the project directory and its parent (glob / shell metacharacters, spaces, non-ASCII). Round 4: stray "
        "workspace entries that merely look like an id ('<id>.bak', '<id>~', 'x<id>', upper case, 31 characters; directories, "
        "copied job directories, plain files); state points whose nested values are LIVE collections of another job's document "
        "that is edited in place before init(); a guaranteed pattern 'Project from a relative path, open_job, chdir, init'")
TRUSTED = [
    "float.__repr__ as oracle table (Section variable frepr)",
    "json.loads(json.dumps(v)) = v is built into the file node written by the model (bytes, Some v)",
    "no persistent state point cache file is modelled (none is ever created in these scenarios)",
    "OQuiet: 'no inode/mtime/ctime/size changed under the scratch root' is taken as 'no mutating system call'",
]
ASSUMPTIONS = ["state points are JSON values without lone surrogates / non-finite floats",
               "the project has no signac_sp_cache.json.gz"]

ATOMS = [None, True, False, 0, 1, -1, 1.0, 0.5, -0.0, 1e22, "", "1", "é", "a\"\\\n", "\U0001F600"]
KEYS = ["a", "b", "c", "é", "a b", "B"]
HEX = "0123456789abcdef"


def rand_value(rng, depth):
    r = rng.random()
    if depth <= 0 or r < 0.55:
        return rng.choice(ATOMS) if rng.random() < 0.8 else rng.randint(-10 ** 6, 2 ** 40)
    if r < 0.78:
        return [rand_value(rng, depth - 1) for _ in range(rng.randint(0, 3))]
    return {k: rand_value(rng, depth - 1) for k in rng.sample(KEYS, rng.randint(0, 2))}


def rand_sp(rng):
    # the empty state point is a valid state point too (falsy: `not sp` vs `sp is None` bugs)
    n = 0 if rng.random() < 0.06 else rng.randint(1, 3)
    return {k: rand_value(rng, 2) for k in rng.sample(KEYS, n)}


def type_variants(rng):
    """three state points that differ only in the JSON type of one value"""
    k = rng.choice(KEYS)
    return [{k: 1}, {k: 1.0}, {k: True}]


def planted_ids(rng, anchor=None):
    """2-6 fake ids sharing chosen common prefixes (with each other / with a real id)."""
    base = anchor or "".join(rng.choice(HEX) for _ in range(32))
    out = []
    for _ in range(rng.randint(2, 6)):
        k = rng.choice([0, 1, 2, 3, 5, 8, 13, 21, 30, 31, rng.randint(0, 31)])
        c = rng.choice([x for x in HEX if x != base[k]])
        out.append(base[:k] + c + "".join(rng.choice(HEX) for _ in range(31 - k)))
    return sorted(set(out))


STRAY_SUFFIXES = [".bak", "~", ".tmp", ".orig", "0", "f", "_old", " ", " (copy)", ".d"]


def stray_names(rng, ids):
    """1-4 names of workspace entries that are NOT job ids but look like one: an id with a suffix (a user's backup copy
    '<id>.bak', an editor's '<id>~'), with a prefix, doubled, in upper case, one character short."""
    out = []
    for _ in range(rng.randint(1, 4)):
        i = rng.choice(ids)
        r = rng.random()
        if r < 0.6:
            out.append(i + rng.choice(STRAY_SUFFIXES))
        elif r < 0.7:
            out.append(rng.choice(["x", "_", ".", "0"]) + i)
        elif r < 0.8:
            out.append(i + rng.choice(ids))
        elif r < 0.9:
            out.append(i[:31])
        elif i.upper() != i:
            out.append(i.upper())
    return sorted(set(out))


def plant_strays(rng, ids):
    """ops that put such entries into the workspace: directories (empty, or holding a state point file like a copied job
    directory would) and plain files"""
    for name in stray_names(rng, ids):
        r = rng.random()
        if r < 0.75:
            yield ["PlantDir", ["A", "workspace", name]]
            if r < 0.3:
                yield ["PlantFile", ["A", "workspace", name, "signac_statepoint.json"], json.dumps({"zz": 0}).encode().hex()]
        else:
            yield ["PlantFile", ["A", "workspace", name], b"not a job".hex()]


# values a job document holds and a state point is built from (handed to open_job as LIVE collections)
LIVE_DICTS = [{"x": 1, "grid": [1, 2, 3]}, {"T": 1.0}, {"n": {"m": [True, None]}}, {}]
LIVE_LISTS = [[1, 2, 3], [], [[1], {"u": "é"}], [0.5]]


def provenance(rng):
    """directory names, provenance of the Project objects; C02 switches the working directory by explicit ChDir ops"""
    return {**wsops.provenance(rng, ("A",)), "auto": False}


def gen_random(rng):
    sps = type_variants(rng) if rng.random() < 0.25 else [rand_sp(rng) for _ in range(rng.randint(1, 3))]
    tuples = rng.random() < 0.2
    wipe = rng.random() < 0.12
    if tuples:
        # sequences (handed over as TUPLES) that hold lists / mappings
        k1, k2 = rng.sample(KEYS, 2)
        sps = sps[:2] + [{k1: [[rng.choice(ATOMS), 2], {"p": rng.choice(ATOMS)}], k2: rng.choice(ATOMS)},
                         {k1: {"m": [[1], rng.choice(ATOMS)]}}]
    if wipe:      # the workspace vanishes before anything is initialised: no pattern that initialises jobs first
        return {"kind": "random", "sps": [typed(s) for s in sps], "pseed": rng.randint(0, 10 ** 9),
                "len": rng.randint(4, 12), "plant": rng.random() < 0.6, "damage": False, "prov": provenance(rng),
                "stray": rng.random() < 0.4, "live": False, "relcwd": False, "tuples": tuples, "wipe": True}
    return {"kind": "random", "sps": [typed(s) for s in sps], "pseed": rng.randint(0, 10 ** 9),
            "len": rng.randint(4, 12), "plant": rng.random() < 0.6, "damage": rng.random() < 0.25, "prov": provenance(rng),
            "stray": rng.random() < 0.4, "live": rng.random() < 0.2, "relcwd": rng.random() < 0.15,
            "tuples": tuples}


def gen_sweep(rng):
    return {"kind": "sweep", "sps": [typed(rand_sp(rng)) for _ in range(rng.randint(1, 2))],
            "pseed": rng.randint(0, 10 ** 9), "stride": 1, "prov": provenance(rng), "stray": rng.random() < 0.5}


ALPHA = ["open0", "open1", "open2", "init", "session", "id0", "id1", "id2", "ids"]


def gen_inputs(tier, rng):
    descs = []
    if tier == "quick":
        descs += [gen_random(rng) for _ in range(230)]
        descs += [gen_sweep(rng) for _ in range(70)]
    else:
        descs += [gen_random(rng) for _ in range(3000)]
        descs += [gen_sweep(rng) for _ in range(300)]
        for n in range(1, 5):
            for word in itertools.product(ALPHA, repeat=n):
                if not any(w.startswith("open") for w in word):
                    continue
                descs.append({"kind": "word", "word": list(word), "prov": provenance(rng),
                              "sps": [typed({"a": 1}), typed({"a": 1.0}), typed({"a": {"b": [True, None]}, "é": "x"})]})
                if n <= 3:
                    descs.append({"kind": "word", "word": list(word), "prov": provenance(rng),
                                  "sps": [typed({}), typed({"a": 0}), typed({"a": {}})]})
    return descs


def build_ops(desc, W, real_id):
    """Generator of ops; receives the World to look at what exists (ids of opened handles)."""
    import random
    rng = random.Random(desc.get("pseed", 0))
    sps = desc["sps"]
    kind = desc["kind"]
    yield ["NewSession", "A"]
    nsess = 1
    if kind == "word":
        for w in desc["word"]:
            if w.startswith("open"):
                yield ["OpenSp", nsess - 1, sps[int(w[-1])]]
            elif w == "init":
                if W.handles:
                    if rng.random() < 0.5:
                        yield ["ChDir", rng.randrange(8)]
                    yield ["Init", len(W.handles) - 1, False]
            elif w == "session":
                if rng.random() < 0.5:
                    yield ["ChDir", rng.randrange(8)]
                yield ["NewSession", "A"]
                nsess += 1
            elif w == "ids":
                yield ["Ids", nsess - 1]
            elif w.startswith("id"):
                yield ["OpenId", nsess - 1, real_id(sps[int(w[-1])])]
        # closing observations in a fresh session
        yield ["ChDir", rng.randrange(8)]
        yield ["NewSession", "A"]
        nsess += 1
        yield ["Ids", nsess - 1]
        for sp in sps:
            i = real_id(sp)
            yield ["OpenId", nsess - 1, i]
            yield ["OpenId", nsess - 1, i[:5]]
        for h in range(len(W.handles)):
            yield ["Sp", h]
        return
    if kind == "sweep":
        ids = []
        for sp in sps:
            yield ["OpenSp", 0, sp]
            if rng.random() < 0.5:
                yield ["ChDir", rng.randrange(8)]
            yield ["Init", len(W.handles) - 1, False]
            ids.append(W.handles[-1].id)
        fake = planted_ids(rng, anchor=rng.choice(ids))
        if rng.random() < 0.5:
            fake += planted_ids(rng)
        for f in fake:
            yield ["PlantDir", ["A", "workspace", f]]
        target = rng.choice(ids + fake)
        if desc.get("stray"):
            # entries that merely look like the target id (and like other ids) sit next to the jobs
            yield from plant_strays(rng, [target] + ids + fake)
        if rng.random() < 0.5:
            yield ["ChDir", rng.randrange(8)]
        yield ["NewSession", "A"]
        for n in range(0, 33):
            yield ["OpenId", 1, target[:n]]
            if n and rng.random() < 0.3:
                wrong = target[:n - 1] + rng.choice([x for x in HEX if x != target[n - 1]])
                yield ["OpenId", 1, wrong]
        yield ["Ids", 1]
        yield ["Len", 1]
        yield ["OpenId", 1, target + "0"]
        for h in range(len(W.handles)):
            if W.handles[h].id in ids:
                yield ["Sp", h]
        return
    # random lifecycle
    planted = []
    if desc["plant"]:
        planted = planted_ids(rng, anchor=real_id(rng.choice(sps)))
        for f in planted:
            yield ["PlantDir", ["A", "workspace", f]]
    if desc.get("damage"):
        # a directory named by the id of a state point of the pool, holding a damaged / foreign state point file
        sp = rng.choice(sps)
        i = real_id(sp)
        good = json.dumps(untyped(sp)).encode()
        other = json.dumps({"zz": 0}).encode()
        data = rng.choice([good[:rng.randint(0, max(0, len(good) - 1))], b"{}", other, b"[1]", b"null", b"garbage",
                           good + b" ", good.replace(b": ", b":", 1)])
        yield ["PlantDir", ["A", "workspace", i]]
        yield ["PlantFile", ["A", "workspace", i, "signac_statepoint.json"], data.hex()]
        yield ["OpenSp", 0, sp]
        wsops.settle()
        yield ["Init", len(W.handles) - 1, False]
        if rng.random() < 0.3:
            yield ["Init", len(W.handles) - 1, True]
    sps = list(sps)
    if desc.get("relcwd"):
        # a Project object made from a path RELATIVE to the working directory, a lazy open_job through it, then the
        # process moves somewhere else before init() (and moves again before the job is looked up)
        a = rng.randrange(5)
        yield ["ChDir", a]
        yield ["NewSession", "A", rng.choice(["ctor-rel", "ctor-rel", "rel-slash", "get-rel", "init-rel"])]
        nsess += 1
        for sp in rng.sample(sps, rng.randint(1, len(sps))):
            yield ["OpenSp", nsess - 1, sp]
            yield ["ChDir", (a + rng.randint(1, 4)) % 5]
            wsops.settle()
            yield ["Init", len(W.handles) - 1, False]
            if rng.random() < 0.5:
                yield ["Ids", nsess - 1]
    if desc.get("live"):
        # a state point built from values of another job's document: open_job is handed LIVE collections (nested in a
        # plain dict, also inside a list); the document changes in place before the job is initialised
        yield ["OpenSp", 0, sps[0]]
        hp = len(W.handles) - 1
        yield ["Init", hp, False]
        dv, lv = copy.deepcopy(rng.choice(LIVE_DICTS)), copy.deepcopy(rng.choice(LIVE_LISTS))
        yield ["DocReset", hp, typed({"p": dv, "q": lv})]
        kd, kl = rng.sample(KEYS, 2)
        child = {**untyped(rng.choice(sps)), kd: dv, kl: [0, lv]}
        subst = [[[["k", kd]], [["k", "p"]]], [[["k", kl], ["i", 1]], [["k", "q"]]]]
        if isinstance(dv.get("n"), dict) and rng.random() < 0.5:
            subst = [[[["k", kd], ["k", "n"]], [["k", "p"], ["k", "n"]]], subst[1]]
        tchild = typed(child)
        yield ["OpenSpLive", rng.randrange(nsess), tchild, hp, subst]
        hc = len(W.handles) - 1
        sps.append(tchild)
        if rng.random() < 0.3:
            yield ["Cached", hc]
        dv2 = copy.deepcopy(dv)
        if "n" in dv2 and len(subst[0][0]) == 2:
            dv2["n"]["x"] = 2
            yield ["DocEditIn", hp, "p", [["k", "n"]], ["set", "x", typed(2)], typed(dv2)]
        else:
            dv2["x"] = 2
            yield ["DocEditIn", hp, "p", [], ["set", "x", typed(2)], typed(dv2)]
        yield ["DocEditIn", hp, "q", [], ["append", typed(4)], typed(lv + [4])]
        yield rng.choice([["Cached", hc], ["Sp", hc]])
        if rng.random() < 0.4:
            yield ["ChDir", rng.randrange(8)]
        wsops.settle()
        yield ["Init", hc, False]
        yield ["Init", hc, False]
        yield ["Sp", hc]
    if desc.get("stray"):
        yield from plant_strays(rng, [real_id(s) for s in sps] + planted)
    if desc.get("wipe"):
        # the workspace directory disappears (data space wiped, scratch purged) while the Project object lives on; jobs
        # are then opened and initialised through that SAME object.  Nothing has been initialised in the project yet (C02's
        # histories have no removal of jobs: an id the in-memory cache still knows is C08's subject); lazily opened handles
        # and planted directories may exist
        if rng.random() < 0.6:
            yield ["OpenSp", rng.randrange(nsess), rng.choice(sps)]
        yield ["Wipe", ["A", "workspace"]]
        yield rng.choice([["Ids", rng.randrange(nsess)], ["Len", rng.randrange(nsess)], ["OpenId", 0, real_id(sps[0])[:rng.choice([4, 32])]]])
        for sp in rng.sample(sps, rng.randint(1, len(sps))):
            if rng.random() < 0.5 or not W.args:
                yield ["OpenSp", rng.randrange(nsess), sp]
                h = len(W.handles) - 1
            else:
                h = rng.choice(sorted(W.args))
            if rng.random() < 0.3:
                yield ["ChDir", rng.randrange(8)]
            wsops.settle()
            yield ["Init", h, False]
            yield rng.choice([["Ids", rng.randrange(nsess)], ["Init", h, False], ["Sp", h]])
    for _ in range(desc["len"]):
        r = rng.random()
        nh = len(W.handles)
        by_sp = sorted(W.args)
        if r < 0.2 or nh == 0:
            yield ["OpenSpT" if desc.get("tuples") and rng.random() < 0.8 else "OpenSp", rng.randrange(nsess), rng.choice(sps)]
            if desc.get("tuples") and rng.random() < 0.5:
                # the caller goes on using the containers it put into the sequence, before the job is first used
                h = len(W.handles) - 1
                yield ["MutateArg", h, rng.choice(KEYS), typed(rng.choice(ATOMS)), True]
                yield rng.choice([["Init", h, False], ["Sp", h], ["Cached", h]])
        elif r < 0.3 and by_sp:
            h = rng.choice(by_sp)
            yield ["MutateArg", h, rng.choice(KEYS), typed(rng.choice(ATOMS)), rng.random() < 0.5]
            yield rng.choice([["Cached", h], ["Sp", h]])
        elif r < 0.45 and by_sp:
            if rng.random() < 0.4:      # the working directory changes between the (lazy) open_job and init()
                yield ["ChDir", rng.randrange(8)]
            wsops.settle()
            yield ["Init", rng.choice(by_sp), False]
        elif r < 0.52:
            if rng.random() < 0.5:
                yield ["ChDir", rng.randrange(8)]
            yield ["NewSession", "A"]
            nsess += 1
        elif r < 0.72:
            cand = [real_id(s) for s in sps] + planted + ["".join(rng.choice(HEX) for _ in range(32))]
            t = rng.choice(cand)
            n = rng.choice([32, 32, 1, 2, 3, 4, 6, 8, 12, 16, 24, 31, rng.randint(0, 32)])
            yield ["OpenId", rng.randrange(nsess), t[:n]]
        elif r < 0.8:
            yield ["Ids", rng.randrange(nsess)]
        elif r < 0.85:
            yield ["Len", rng.randrange(nsess)]
        elif r < 0.92:
            yield ["Contains", rng.randrange(nsess), rng.randrange(nh)]
        else:
            h = rng.randrange(nh)
            yield rng.choice([["Sp", h], ["Cached", h]])
    # closing observations: everything initialised must be found by a fresh session, whatever the working directory is
    if rng.random() < 0.7:
        yield ["ChDir", rng.randrange(8)]
    yield ["NewSession", "A"]
    nsess += 1
    yield ["Ids", nsess - 1]
    for sp in sps:
        i = real_id(sp)
        yield ["OpenId", nsess - 1, i]
        yield ["Sp", len(W.handles) - 1]
        yield ["OpenId", nsess - 1, i[:rng.randint(1, 31)]]


def run_case(desc):
    from signac.job import calc_id

    def real_id(tsp):
        return calc_id(untyped(tsp))

    L = wsops.Lit()
    steps, log = [], []
    kinds = {desc["kind"]}
    inited, reopened, ambiguous = False, False, False
    prov = desc.get("prov")
    cwd0 = os.getcwd()
    with scratch_dir("c02") as d:
        try:
            if prov:
                W = wsops.provenance_world(d, prov)
            else:
                W = wsops.World(d)
            gen = build_ops(desc, W, real_id)
            for op in gen:
                out = W.run(op)
                if out is None:        # harness-only op
                    log.append([op, None])
                    kinds.add("chdir" if op[0] == "ChDir" else "mutate-arg")
                    continue
                tree = W.run(["Tree"])
                quiet = W.run(["Quiet"])[1]
                steps.append("(mkStep2 %s %s %s %s)" % (wsops.coq_op(L, op), wsops.coq_oval(L, out),
                                                         wsops.coq_oval(L, tree), coq_bool(quiet)))
                log.append([op, out if out[0] != "tree" else "tree", quiet])
                kinds.add(op[0])
                if op[0] == "Init" and out == ["unit"]:
                    inited = True
                if op[0] == "NewSession" and inited:
                    reopened = True
                if out == ["exn", "ELookupError"]:
                    ambiguous = True
                if out[0] == "exn":
                    kinds.add(out[1])
        finally:
            os.chdir(cwd0)      # before the scratch directory is removed
    body = "(mkCase2 %s %s)" % (L.ftab(), coq_list(steps, "step_C02"))
    return Case(L.wrap(body), desc, obs=log, nontrivial=(reopened or ambiguous),
                key=json.dumps([l[0] for l in log], sort_keys=True), kinds=sorted(kinds))


def search(desc):
    """Neighbours of a mismatching sequence: shorter random sequences with the same seed."""
    out = []
    if desc.get("kind") == "random":
        for n in range(1, desc["len"]):
            out.append({**desc, "len": n})
    elif desc.get("kind") == "word":
        w = desc["word"]
        for i in range(len(w)):
            out.append({**desc, "word": w[:i] + w[i + 1:]})
    return out
