"""C14 — sync never overwrites conflicts unless told to; failed syncs roll documents back."""
from . import sync_gen

PROP = "C14"
IMPORTS = "Base Json Canon Sync SyncObs CorrC13 CorrC14"
CASE_TYPE = "case_C14"
MISMATCHES = "mismatches_C14"
VIOLATIONS = "violations_C14"
KNOWN = None
SHARD = 40
RULE = ("Job.sync / sync_jobs between jobs whose state points differ x document strategy (all DocSync.COPY combinations in quick) x file strategy incl. custom strategies that accept the state point file and update with a newer source state point x destination initialised or not; top-level user files whose names are proper substrings of the job's own file names (state, json, signac, point.json, document ...) x document strategy incl. DocSync.COPY; permission bits other than the umask default on counterpart / one-sided / nested files and in cloned jobs x preserve_permissions / preserve_times x collect_stats (bits observed before and after, next to the trees); names of filecmp.DEFAULT_IGNORES on both sides with equal size and mtime but different content; file / directory clashes at the top level and nested, user files named like the state point / document in sub-directories, a caller-owned exclude list reused across two calls, deep syncs after an earlier deep comparison of the same paths followed by a same-size same-mtime change (filecmp cache not cleared by the harness); key strategy callbacks that raise KeyboardInterrupt / SystemExit after earlier keys were merged; conflict-oriented seeded random pairs of the C13 universe (half of the shared files differ: same size / different size, "
        "older / equal / newer mtime, top level and nested; half of the shared document keys differ: flat, nested, mixed-type) x "
        "all strategies and key strategies (None, predicate, regex) x job-level and project-level entry points; plus two bounded-"
        "exhaustive cores: one shared file (3 content relations x 4 mtime relations x 6 strategies x 2 depths x recursive x entry) "
        "and one shared key (10 x 10 values x 6 document strategies x depth 1..3); plus deep trees whose intermediate levels are identical (difference 3-5 levels down, also equal size and mtime, x deep) and stale '<document>~' backup files next to the destination document; excluded names inside cloned jobs / left-only directories / as directory names / matching signac's own files (exclude None, str, list), and a ByKey() instance the caller reuses after a call that raised DocumentSyncConflict; quick samples the cores.  non-trivial: the "
        "call changed the destination or raised; distinct by the JSON of the scenario")
TRUSTED = [
    "float.__repr__ as an oracle table (documents); re.match outcomes for exclude patterns / regex key strategies as tables "
    "computed by the harness over every name occurring in the scenario",
    "filecmp.dircmp / filecmp.cmp, shutil.copy / copytree, synced_collections JSON documents (write on every assignment, "
    "json.dumps text) are modelled, not verified; the os.scandir order of every directory and the iteration order of "
    "list(project) are observed and fed to the model",
    "detect_schema is modelled for flat int/str state points only (set of (key, value))",
    "with parallel=True/int and an exception the destination tree depends on the schedule: only the exception class and the "
    "source are compared there (the worker threads are joined before the snapshot: ThreadPool.terminate() does not)",
]
ASSUMPTIONS = ["both workspaces are valid (directory name = id of the state point file)", "no symbolic links",
               "file mtimes precede the call (set explicitly with os.utime); preserve_owner / preserve_group / follow_symlinks at their defaults; permission bits are set on user files only (owner read/write always set)",
               "document keys are distinct and contain no '.'"]


def gen_inputs(tier, rng):
    n = 260 if tier == "quick" else 5000
    descs = [sync_gen.rand_scenario(rng, PROP) for _ in range(n)]
    files, docs = sync_gen.core_file_cases((False, True)), sync_gen.core_doc_cases()
    nested, backup = sync_gen.core_nested_cases((False, True)), sync_gen.core_backup_cases()
    if tier == "quick":
        files, docs = rng.sample(files, 140), rng.sample(docs, 140)
        nested, backup = rng.sample(nested, 100), rng.sample(backup, 80)
    return descs + files + docs + nested + backup + _excl(tier, rng) + _round3(tier, rng) + _round4(tier, rng) + _round6(tier, rng) + _round7(tier, rng) + _round8(tier, rng) + sync_gen.core_reuse_cases()

def _round3(tier, rng):
    cases = sync_gen.core_fault_cases()
    cases = cases if tier != "quick" else rng.sample(cases, 80)
    return cases


def _round4(tier, rng):
    cases = sync_gen.core_clash_cases() + sync_gen.core_deep_history_cases()
    return cases if tier != "quick" else rng.sample(cases, 130)


def _round8(tier, rng):
    cross = sync_gen.core_cross_cases((False,))
    if tier == "quick":
        copy = [c for c in cross if c["opts"]["doc_sync"] == "copy"]
        other = [c for c in cross if c["opts"]["doc_sync"] != "copy"]
        cross = rng.sample(copy, 16) + rng.sample(other, 20)
    return cross


def _round7(tier, rng):
    own, perm = sync_gen.core_ownname_cases((False,)), sync_gen.core_perm_cases((False,))
    if tier == "quick":
        own, perm = rng.sample(own, 30), rng.sample(perm, 30)
    return own + perm


def _round6(tier, rng):
    cases = sync_gen.core_ignores_cases()
    return cases if tier != "quick" else rng.sample(cases, 60)


def _excl(tier, rng):
    cases = sync_gen.core_exclude_cases()
    return cases if tier != "quick" else rng.sample(cases, 50)


def run_case(desc):
    return sync_gen.run_scenario(desc, PROP)


def search(desc):
    return sync_gen.shrink_neighbours(desc)
