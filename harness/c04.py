"""C04 — re-keying, moving and cloning carry all data and never clobber another job."""
import copy
import itertools
import json

from . import wsops
from .common import Case, coq_bool, coq_list, coq_nat, scratch_dir, typed, untyped

PROP = "C04"
IMPORTS = "Base Json MD5 Canon FS Ws CorrC02 CorrC04"
CASE_TYPE = "case_C04"
MISMATCHES = "mismatches_C04"
VIOLATIONS = "violations_C04"
KNOWN = "known_C04"
SHARD = 40
RULE = ("product of (old state point, route) x destination kind {absent, initialised with own payload, "
        "uninitialised handle only, empty directory} x payload {document, nested files} x handle provenance "
        "{the initialising handle, never-initialised handle, second open_job(sp), open_job(id) cache hit, "
        "open_job(id) fresh session} x statepoint accessed before copying x copies {copy.copy x0..2, deepcopy, "
        "pickle}. routes: sp[k]=v, del sp[k], nested set through sub-mapping / list index / append, whole "
        "assignment (incl. no-op, type variants 1/1.0/True, None over containers, list edits), update_statepoint "
        "+-overwrite (new key; on EVERY existing key, incl. every falsy value None/0/False/''/[]/{}: the same and a differing "
        "value; type variant), move, clone, move followed by sp[k]=v / del through the same handle. The scenario script is "
        "derived in Coq (script_C04) and mirrored here; observations: byte snapshots of both workspaces before / "
        "after / after reading documents / after re-using the independent copies, exception class, "
        "(id, path, statepoint(), cached_statepoint, document()) of every handle, ids listed by fresh Projects. "
        "quick: stratified seeded sample of ~530 (destination x handle configuration enumerated per route kind; guaranteed strata for conflicting updates on falsy values and move-then-edit); thorough: the full (old, route) x destination product with 6 handle "
        "configurations each. non-trivial: the operation changes the id or hits a conflict / KeyError; distinct by input. "
        "Round 4: the mapping handed to the setter / update_statepoint is mutated in place (nested and top level) right after "
        "the call; after every re-key the new id is opened BY ID on the operating Project object and statepoint() / "
        "cached_statepoint of that handle are read; route copy-move (move through the first shallow copy, then sp[k]=v / del "
        "through the handle left behind); guaranteed quick stratum of colliding assignments through lazy handles")
TRUSTED = [
    "float.__repr__ as oracle table (Section variable frepr)",
    "json.loads(json.dumps(v)) = v is built into the file node written by the model (bytes, Some v)",
    "synced_collections 1.0.1 (_update merge, extend() saving the root, JSON backend write protocol) is modelled, not verified",
    "copy / pickle protocol of CPython (copy.copy -> __reduce_ex__ -> __setstate__) is modelled, not verified",
]
ASSUMPTIONS = ["no file named signac_statepoint.json~ exists in a job directory before a re-key",
               "a handle is pickled before any shallow copy of it exists (pickling afterwards raises RecursionError)",
               "source and destination project live on one file system",
               "state points are JSON values without lone surrogates / non-finite floats"]

PROVS = ["PInit", "PUninit", "PSpFresh", "PIdCached", "PIdFresh"]
DESTS = ["DAbsent", "DInit", "DHandle", "DEmptyDir"]

OLDS = [
    {"a": 0},
    {"a": 1},
    {"a": 0, "b": 1},
    {"a": 0, "b": {"c": 1}},
    {"a": [1, 2]},
    {"a": {"b": [1, {"c": 2}]}, "d": "x"},
    {"a": 1.5, "é": "ü"},
    {"a": None, "b": True},
    {"l": [1], "x": 0},
    {"a": {"b": 1, "c": 2}},
    {"n": None, "z": 0, "f": False, "e": "", "l": [], "m": {}},   # every falsy JSON value as an existing value
]
VALUES = [0, 1, 2, 1.0, True, None, "1", [1], [1, 2, 3], {"z": 0}]
PAYLOADS = [
    {"doc": {}, "files": []},
    {"doc": {"d": 1}, "files": []},
    {"doc": {"x": {"y": [1, 2.5, None]}, "é": "ü"}, "files": [[["data.txt"], b"hello\n".hex()]]},
    {"doc": {"d": 1}, "files": [[["sub", "x.bin"], bytes(range(0, 256, 5)).hex()], [["a.txt"], ""]]},
]
# payloads with symbolic links (entry = [rel, hex of the content read through the link, kind, target rel]): relative and
# outside targets survive the rename of the job directory; an ABSOLUTE target inside the job (job.fn(...)) does not (that
# is the file system, not signac), so it is only used for the clone routes (LINK_PAYLOADS_CLONE)
_H = b"hello\n".hex()
LINK_PAYLOADS = [
    {"doc": {"d": 1}, "files": [[["data.txt"], _H], [["l_rel"], _H, "rel", ["data.txt"]]]},
    {"doc": {}, "files": [[["sub", "x.bin"], "00ff"], [["l_out"], b"outside".hex(), "out", []]]},
    {"doc": {"d": 1}, "files": [[["data.txt"], _H], [["sub", "l_up"], _H, "rel", ["data.txt"]], [["l_out"], "0102", "out", []]]},
]
LINK_PAYLOADS_CLONE = LINK_PAYLOADS + [
    {"doc": {"d": 1}, "files": [[["data.txt"], _H], [["l_abs"], _H, "abs", ["data.txt"]]]},
    {"doc": {}, "files": [[["sub", "x.bin"], "00ff"], [["l_rel"], "00ff", "rel", ["sub", "x.bin"]], [["sub", "l_abs"], "00ff", "abs", ["sub", "x.bin"]]]},
]
DPAY = {"doc": {"dest": True}, "files": [[["keep.txt"], b"dest data".hex()]]}
HANDLE_CONFIGS = [   # (prov, access, shallow, deep, pickle)
    ("PInit", False, 1, True, True),
    ("PInit", False, 2, False, False),
    ("PSpFresh", True, 1, True, False),
    ("PIdFresh", True, 2, False, True),
    ("PIdCached", True, 1, False, False),
    ("PSpFresh", False, 1, False, True),      # shallow copy taken before any access (follows since fix 0894ce6)
    ("PIdFresh", False, 1, True, False),      # shallow copy of a by-id handle taken before any access (follows since fix 0894ce6)
    ("PIdCached", False, 0, True, True),
    ("PInit", True, 0, False, False),
    # lazy handles: nothing of the job has been loaded through the handle when the operation starts (since fix 0894ce6
    # a shallow copy or a pickle loads the state point, so these need shallow = 0 and no pickle)
    ("PIdFresh", False, 0, False, False),     # by id, state point cache miss
    ("PIdCached", False, 0, True, False),     # by id, state point known to the project's cache; deep copy taken lazily too
    ("PSpFresh", False, 0, False, False),     # by state point on a fresh project object, never initialised through it
    ("PUninit", False, 1, True, False),
    ("PUninit", True, 1, False, True),
]


# ------------------------------------------------------------------ plain-Python meaning of a route (the spec)
def apply_edit(old, steps, act):
    new = copy.deepcopy(old)
    obj = new
    for st in steps:
        obj = obj[st[1]]
    k = act[0]
    if k == "set":
        obj[act[1]] = untyped(act[2])
    elif k == "del":
        del obj[act[1]]
    elif k == "seti":
        obj[act[1]] = untyped(act[2])
    elif k == "append":
        obj.append(untyped(act[1]))
    return new


def spec_new(route, old):
    k = route[0]
    if k in ("edit", "move-edit"):
        return apply_edit(old, route[1], route[2])
    if k == "assign":
        return untyped(route[1])
    if k == "update":
        u = untyped(route[1])
        if route[2]:
            return {**old, **u}
        for key, v in u.items():
            if key in old and old[key] != v:
                return None
        return {**old, **{key: v for key, v in u.items() if key not in old}}
    return old


def routes_for(old):
    """All edit routes for one old state point."""
    out = []

    def walk(obj, steps):
        if isinstance(obj, dict):
            for k, v in obj.items():
                for val in VALUES:
                    out.append(["edit", steps, ["set", k, typed(val)]])
                out.append(["edit", steps, ["del", k]])
                walk(v, steps + [["k", k]])
            out.append(["edit", steps, ["set", "new", typed(5)]])
        elif isinstance(obj, list):
            for i, v in enumerate(obj):
                for val in (0, 1.0, {"z": 0}):
                    out.append(["edit", steps, ["seti", i, typed(val)]])
                walk(v, steps + [["i", i]])
            out.append(["edit", steps, ["append", typed(9)]])
    walk(old, [])
    # whole assignments
    assigns = [old, {**old, "new": 1}, {"zz": 0}, dict(reversed(list(old.items())))]
    for k in old:
        assigns.append({x: y for x, y in old.items() if x != k})
        for val in VALUES:
            assigns.append({**old, k: val})
        v = old[k]
        if isinstance(v, list):
            assigns += [{**old, k: v + [7]}, {**old, k: v[:-1]}, {**old, k: [9] + v[1:]}, {**old, k: v[:-1] + [7, 8], "q": 1}]
        if isinstance(v, dict):
            for kk in v:
                assigns += [{**old, k: {**v, kk: 1.0}}, {**old, k: {**v, kk: [5]}}, {**old, k: {x: y for x, y in v.items() if x != kk}}]
            assigns.append({**old, k: {**v, "n": None}})
    seen = set()
    for a in assigns:
        key = json.dumps(typed(a))
        if key not in seen:
            seen.add(key)
            out.append(["assign", typed(a)])
    # update_statepoint
    k0 = next(iter(old))
    ups = [{"new": 1}, {k0: old[k0]}, {k0: old[k0], "new": 2}, {k0: "other"}, {k0: 7, "new": 1}, {}]
    if isinstance(old[k0], (int, float)) and not isinstance(old[k0], bool):
        ups += [{k0: float(old[k0])}, {k0: int(old[k0])} if float(old[k0]).is_integer() else {k0: 3}]
        if old[k0] in (0, 1):
            ups.append({k0: bool(old[k0])})
    if isinstance(old[k0], list):
        ups += [{k0: old[k0] + [4]}, {k0: [8] + old[k0][1:]}]
    # ... and on EVERY existing key: a differing value (conflict), the same value, a differing value plus a new key
    for k in old:
        other = "other" if old[k] != "other" else "other2"
        ups += [{k: other}, {k: old[k]}, {"new": 1, k: other}]
    seen = set()
    for u in ups:
        key = json.dumps(typed(u))
        if key in seen:
            continue
        seen.add(key)
        for ov in (False, True):
            out.append(["update", typed(u), ov])
    out.append(["move"])
    out.append(["clone"])
    # move followed by a state point change through the SAME handle
    for k in old:
        out.append(["move-edit", [], ["set", k, typed("moved")]])
        out.append(["move-edit", [], ["del", k]])
    out.append(["move-edit", [], ["set", "new", typed(5)]])
    # move THROUGH THE FIRST SHALLOW COPY, then a state point change through the handle left behind
    for k in old:
        out.append(["copy-move", [], ["set", k, typed("moved")]])
        out.append(["copy-move", [], ["del", k]])
    out.append(["copy-move", [], ["set", "new", typed(5)]])
    return out


def all_pairs():
    for old in OLDS:
        for r in routes_for(old):
            yield old, r


def pick_pay(rng, route):
    """a third of the payloads carry symbolic links"""
    if rng.random() < 0.35:
        return rng.choice(LINK_PAYLOADS_CLONE if route[0] == "clone" else LINK_PAYLOADS)
    return rng.choice(PAYLOADS)


def make_desc(old, route, dest, cfg, pay, pre=False, pv=None):
    prov, access, shallow, deep, pickle_ = cfg
    if route[0] == "copy-move":
        shallow = max(shallow, 1)      # the route needs a shallow copy to move through
    new = spec_new(route, old)
    from_uninit = prov == "PUninit"
    if from_uninit:
        pay = PAYLOADS[0]
    if new is None or from_uninit:
        dest = "DAbsent"
    elif route[0] == "copy-move" or (route[0] == "move-edit" and dest != "DInit"):
        dest = "DAbsent"      # (move-edit with DInit: the move is rejected, the edit is then an ordinary re-key)
    elif route[0] not in ("move", "clone"):
        from signac.job import calc_id
        if calc_id(new) == calc_id(old):
            dest = "DAbsent"
    return {"old": typed(old), "route": route, "dest": dest, "prov": prov, "access": access,
            "shallow": shallow, "deep": deep, "pickle": pickle_, "pay": pay, "dpay": DPAY, "pre": bool(pre), "pv": pv}


WITNESSES = [   # the inputs of the ..._refuted / ..._example theorems of props/C04.v, replayed on the real code in every run
    ({"a": 0}, ["edit", [], ["set", "a", typed(1)]], "DAbsent", ("PInit", False, 0, False, False)),
    ({"a": 0}, ["edit", [], ["set", "a", typed(1)]], "DAbsent", ("PIdFresh", False, 1, False, False)),
    ({"a": 1}, ["assign", typed({"a": True})], "DAbsent", ("PInit", False, 0, False, False)),
    ({"a": [1, 2]}, ["assign", typed({"a": [1, 3]})], "DAbsent", ("PInit", False, 0, False, False)),
    ({"a": [1, 2], "x": 0}, ["assign", typed({"a": [1, 3, 4], "x": 1})], "DAbsent", ("PInit", False, 1, True, False)),
]


def gen_inputs(tier, rng):
    pairs = list(all_pairs())
    descs = [make_desc(old, r, dest, cfg, PAYLOADS[1]) for old, r, dest, cfg in WITNESSES]
    if tier == "quick":
        # a stratified sample: every route kind, every destination, every handle configuration
        rng.shuffle(pairs)
        by_kind = {}
        falsy = (None, 0, False, "", [], {})
        for old, r in pairs:
            key = r[0] if r[0] != "edit" else "edit-" + r[2][0]
            if r[0] == "update":
                u = untyped(r[1])
                hit = [k for k in u if k in old]
                if hit and any(old[k] != u[k] for k in hit):
                    # the pre-check must fire (or, with overwrite, the value must change) on an existing key
                    key = "update-conflict-falsy" if any(any(old[k] is f or (old[k] == f and type(old[k]) is type(f)) for f in falsy) for k in hit) else "update-conflict"
            by_kind.setdefault(key, []).append((old, r))
        quota = {"move": 40, "clone": 40, "move-edit": 36, "copy-move": 36, "update-conflict": 30, "update-conflict-falsy": 30, "update": 30}
        chosen = []
        nd, nc = len(DESTS), len(HANDLE_CONFIGS)
        for key, lst in sorted(by_kind.items()):
            # within one route kind the (destination, handle configuration) pairs are enumerated systematically from a
            # seeded offset: a kind with quota >= |DESTS| * |HANDLE_CONFIGS| sees every pair in every run, the
            # others rotate through them with the seed
            n = quota.get(key, nd * nc)
            off = rng.randrange(nd * nc)
            for i in range(n):
                old, r = lst[i % len(lst)]
                j = (i + off) % (nd * nc)
                chosen.append((old, r, DESTS[j % nd], HANDLE_CONFIGS[j // nd]))
        # guaranteed stratum: a COLLIDING whole assignment through a handle that has loaded nothing yet (the rollback of the
        # rejected change has no in-memory copy to fall back on) - every lazy handle configuration, four routes each
        from signac.job import calc_id
        lazy = [c for c in HANDLE_CONFIGS if c[0] != "PInit" and c[0] != "PUninit" and not c[1] and c[2] == 0 and not c[4]]
        changing = [(o, r) for o, r in by_kind.get("assign", []) if calc_id(untyped(r[1])) != calc_id(o)]
        off = rng.randrange(len(changing))
        for n, cfg in enumerate(lazy):
            for j in range(4):
                old, r = changing[(off + 4 * n + j) % len(changing)]
                chosen.append((old, r, "DInit", cfg))
        # half of the cases read id / path / cached_statepoint / repr of the handle and its shallow copies BEFORE the
        # operation as well
        for old, r, dest, cfg in chosen:
            descs.append(make_desc(old, r, dest, cfg, pick_pay(rng, r), pre=rng.random() < 0.5,
                                   pv=wsops.provenance(rng, ("A", "B")) if rng.random() < 0.6 else None))
        for _ in range(40):     # plus a free random mix
            old, r = rng.choice(pairs)
            descs.append(make_desc(old, r, rng.choice(DESTS), rng.choice(HANDLE_CONFIGS), pick_pay(rng, r),
                                   pre=rng.random() < 0.5,
                                   pv=wsops.provenance(rng, ("A", "B")) if rng.random() < 0.6 else None))
    else:
        for n, (old, r) in enumerate(pairs):
            for dest in DESTS:
                cfgs = rng.sample(HANDLE_CONFIGS, 5) + [HANDLE_CONFIGS[0]]
                for cfg in cfgs:
                    pl = PAYLOADS + (LINK_PAYLOADS_CLONE if r[0] == "clone" else LINK_PAYLOADS)
                    descs.append(make_desc(old, r, dest, cfg, pl[(n + len(descs)) % len(pl)],
                                           pre=len(descs) % 2 == 0,
                                           pv=wsops.provenance(rng, ("A", "B")) if rng.random() < 0.5 else None))
    seen, out = set(), []
    for d in descs:
        key = json.dumps(d, sort_keys=True)
        if key not in seen:
            seen.add(key)
            out.append(d)
    return out


# ------------------------------------------------------------------ the scenario script (mirror of script_C04)
def pay_ops(h, pay):
    ops = []
    if pay["doc"]:
        ops.append((0, ["DocReset", h, typed(pay["doc"])]))
    for ent in pay["files"]:
        if len(ent) == 2:
            ops.append((0, ["WriteFile", h, ent[0], ent[1]]))
        else:
            ops.append((0, ["Link", h, ent[0], ent[1], ent[2], ent[3]]))
    return ops


def build_script(desc, calc_id):
    old = untyped(desc["old"])
    route = desc["route"]
    new = spec_new(route, old)
    nsp = old if new is None else new
    rekey = route[0] not in ("move", "clone", "move-edit", "copy-move")
    sd = 0 if rekey else 1
    dproj = "A" if rekey else "B"
    uninit = desc["prov"] == "PUninit"
    ops = [(0, ["NewSession", "A"]), (0, ["NewSession", "B"]), (5, ["OpenSp", 0, typed(old)])]
    if not uninit:
        ops.append((0, ["Init", 0, False]))
        ops += pay_ops(0, desc["pay"])
    nh = 1
    dsp = old if route[0] in ("move-edit", "copy-move") else nsp      # mirror of CorrC04.dest_sp
    if desc["dest"] == "DInit":
        ops += [(0, ["OpenSp", sd, typed(dsp)]), (0, ["Init", 1, False])] + pay_ops(1, desc["dpay"])
        nh = 2
    elif desc["dest"] == "DHandle":
        ops.append((0, ["OpenSp", sd, typed(dsp)]))
        nh = 2
    elif desc["dest"] == "DEmptyDir":
        ops.append((0, ["PlantDir", [dproj, "workspace", calc_id(dsp)]]))
    oid = calc_id(old)
    ns = 2
    prov = desc["prov"]
    tw, sid = None, 0
    if prov in ("PInit", "PUninit"):
        hm = 0
    elif prov == "PSpFresh":
        ops.append((0, ["OpenSp", 0, typed(old)])); hm = nh; nh += 1
    elif prov == "PIdCached":
        # a by-id handle gets a twin: a second independent open_job(id=...) on the same Project object
        ops += [(0, ["OpenId", 0, oid]), (0, ["OpenId", 0, oid])]; hm = nh; tw = nh + 1; nh += 2
    else:
        ops += [(0, ["NewSession", "A"]), (0, ["OpenId", 2, oid]), (0, ["OpenId", 2, oid])]
        hm = nh; tw = nh + 1; nh += 2; ns = 3; sid = 2
    if desc["access"]:
        ops.append((0, ["Sp", hm]))
    dp = pk = c1 = c2 = None
    if desc["deep"]:
        ops.append((0, ["DeepCopy", hm])); dp = nh; nh += 1; ns += 1
    if desc["pickle"]:
        ops.append((0, ["Pickle", hm])); pk = nh; nh += 1; ns += 1
    if desc["shallow"] == 1:
        ops.append((0, ["Copy", hm])); c1 = nh; nh += 1
    elif desc["shallow"] >= 2:
        ops += [(0, ["Copy", hm]), (0, ["Copy", nh])]; c1 = nh; c2 = nh + 1; nh += 2
    if desc.get("pre"):
        # the shallow copies are read through repr(), which shows cached_statepoint
        for k, x in enumerate([hm, c1, c2]):
            if x is not None:
                ops += [(80 + 2 * k, ["IdPath", x]), (81 + 2 * k, ["Cached" if k == 0 else "Repr", x])]
    if route[0] == "edit":
        main = ["Edit", hm, route[1], route[2]]
    elif route[0] == "assign":
        main = ["Assign", hm, route[1]]
    elif route[0] == "update":
        main = ["UpdateSp", hm, route[1], route[2]]
    elif route[0] in ("move", "move-edit"):
        main = ["Move", hm, 1]
    elif route[0] == "copy-move":
        main = ["Move", hm if c1 is None else c1, 1]
    else:
        main = ["Clone", 1, hm]
    cl = nh if (route[0] == "clone" and desc["dest"] in ("DAbsent", "DHandle") and not uninit) else None
    ops += [(1, ["Tree"]), (2, main)]
    if route[0] == "move-edit" or (route[0] == "copy-move" and c1 is not None):
        ops.append((4, ["Edit", hm, route[1], route[2]]))
    ops.append((3, ["Tree"]))
    for k, x in enumerate([hm, c1, c2, dp, pk, cl, tw]):
        if x is not None:
            ops += [(10 + 3 * k, ["IdPath", x]), (11 + 3 * k, ["Sp", x]), (12 + 3 * k, ["Cached", x])]
    ops += [(0, ["NewSession", "A"]), (40, ["Ids", ns]), (0, ["NewSession", "B"]), (41, ["Ids", ns + 1])]
    cm = route[0] == "copy-move" and c1 is not None
    for k, x in [(1, c1)] if cm else []:
        ops.append((50 + k, ["Doc", x]))
    for k, x in [(0, hm), (1, c1), (2, c2), (5, cl)]:
        if x is not None and (rekey or k in (0, 5)) and not (cm and k == 0):
            ops.append((50 + k, ["Doc", x]))
    ops.append((60, ["Tree"]))
    for x in (dp, pk):
        if x is not None:
            ops.append((0, ["Init", x, False]))
    ops.append((70, ["Tree"]))
    if cl is not None and desc["pay"]["files"]:
        ent = desc["pay"]["files"][-1]
        ops += [(72, ["ViaAppend", cl, ent[0], "21", ent[1] + "21"]), (73, ["Tree"])]
    if byid_expected(desc, old, new):
        ops += [(43, ["OpenId", sid, calc_id(nsp)]), (44, ["Sp", nh]), (45, ["Cached", nh])]
    if tw is not None:
        ops.append((42, ["OpenId", sid, oid]))
    return ops


def py_eq_merge(ex, nw):
    """what SyncedDict._update(nw) makes of the existing value ex - a transcription of Ws.v upd_gen (result component),
    used ONLY to decide where the by-id probe is scripted; the same decision is made in Coq (byid_expected / class_drop):
    values that compare == are kept, None over a container is ignored"""
    if nw == ex:
        return ex
    if isinstance(nw, dict):
        if not isinstance(ex, dict):
            return nw
        cur = dict(ex)
        for k, nv in nw.items():
            cur[k] = py_eq_merge(cur[k], nv) if k in cur else nv
        return {k: v for k, v in cur.items() if k in nw}
    if isinstance(nw, list):
        if not isinstance(ex, list):
            return nw
        n = min(len(ex), len(nw))
        return [py_eq_merge(ex[i], nw[i]) for i in range(n)] + nw[n:]
    if nw is None and isinstance(ex, (dict, list)):
        return ex
    return nw


def byid_expected(desc, old, new):
    route = desc["route"]
    if route[0] not in ("edit", "assign", "update") or desc["prov"] == "PUninit" or new is None:
        return False
    if route[0] == "edit":
        return True
    has_cell = desc["prov"] == "PInit" or desc["access"] or desc["pickle"] or desc["shallow"] > 0
    if route[0] == "assign":
        ex, nw = (old if has_cell else {}), untyped(route[1])
    else:
        ex, nw = old, {**old, **untyped(route[1])}
    merged = py_eq_merge(ex, nw)
    drop = json.dumps(typed(merged), sort_keys=True) != json.dumps(typed(nw), sort_keys=True)
    if drop and route[0] == "update" and not route[2]:
        drop = json.dumps(typed(merged), sort_keys=True) != json.dumps(typed(new), sort_keys=True)
    return not drop


def coq_route(L, r):
    if r[0] == "edit":
        return f"(REdit {coq_list([wsops.coq_step(L, s) for s in r[1]], 'pstep')} {wsops.coq_act(L, r[2])})"
    if r[0] == "assign":
        return f"(RAssign {L.json(untyped(r[1]))})"
    if r[0] == "update":
        return f"(RUpdate {L.json(untyped(r[1]))} {coq_bool(r[2])})"
    if r[0] == "copy-move":
        return f"(RCopyMove {coq_list([wsops.coq_step(L, s) for s in r[1]], 'pstep')} {wsops.coq_act(L, r[2])})"
    if r[0] == "move-edit":
        return f"(RMoveEdit {coq_list([wsops.coq_step(L, s) for s in r[1]], 'pstep')} {wsops.coq_act(L, r[2])})"
    return "RMove" if r[0] == "move" else "RClone"


def coq_pay(L, pay):
    files = [f"({L.path(ent[0])}, {L.bytes_(bytes.fromhex(ent[1]))})" for ent in pay["files"]]
    return f"(mkPay {L.json(pay['doc'])} {coq_list(files, '(path * list N)')})"


def run_case(desc):
    from signac.job import calc_id

    L = wsops.Lit()
    script = build_script(desc, calc_id)
    outs, log = [], []
    import os
    cwd0 = os.getcwd()
    with scratch_dir("c04") as d:
      try:
        W = wsops.provenance_world(d, desc["pv"]) if desc.get("pv") else wsops.World(d)
        for tag, op in script:
            if op[0] in ("Sp", "Cached", "Repr", "IdPath", "Doc", "Init", "Copy", "ViaAppend") and op[1] >= len(W.handles):
                out = ["exn", "EOther"]      # the handle the script expects does not exist
            else:
                out = W.run(op)
                if tag == 2 and op[0] in ("Assign", "UpdateSp"):
                    # harness-only: the caller goes on using the mapping it assigned (nested value and top level)
                    W.run(["MutateAssigned", op[1], "zz", typed(99), True])
                    W.run(["MutateAssigned", op[1], "zy", typed([98]), False])
            outs.append(wsops.coq_oval(L, out))
            log.append([tag, op, out if out[0] != "tree" else ["tree", len(out[1])]])
      finally:
        os.chdir(cwd0)      # before the scratch directory is removed
    inp = "(mkIn4 %s %s %s %s %s %s %s %s %s %s %s)" % (
        L.json(untyped(desc["old"])), coq_pay(L, desc["pay"]), desc["prov"], coq_bool(desc["access"]),
        coq_nat(desc["shallow"]), coq_bool(desc["deep"]), coq_bool(desc["pickle"]), coq_route(L, desc["route"]),
        desc["dest"], coq_pay(L, desc["dpay"]), coq_bool(desc.get("pre", False)))
    body = "(mkCase4 %s %s %s)" % (L.ftab(), inp, coq_list(outs, "oval"))
    main_out = next(o for t, _, o in log if t == 2)
    old = untyped(desc["old"])
    new = spec_new(desc["route"], old)
    changes = new is None or desc["route"][0] in ("move", "clone", "move-edit", "copy-move") or calc_id(new) != calc_id(old)
    rk = desc["route"][0] if desc["route"][0] != "edit" else "edit-" + desc["route"][2][0]
    kinds = [rk, desc["dest"], desc["prov"], "shallow%d" % desc["shallow"],
             "result-" + (main_out[1] if main_out[0] == "exn" else "ok")]
    if desc["deep"]:
        kinds.append("deepcopy")
    if desc["pickle"]:
        kinds.append("pickle")
    if desc.get("pre"):
        kinds.append("read-before")
    if desc["route"][0] == "edit" and desc["route"][1]:
        kinds.append("nested")
    return Case(L.wrap(body), desc, obs=log, nontrivial=changes, key=json.dumps(desc, sort_keys=True), kinds=kinds)


def search(desc):
    """Neighbours of a mismatching input: simpler handle configuration, other destinations."""
    out = []
    base = {**desc, "prov": "PInit", "access": False, "shallow": 0, "deep": False, "pickle": False}
    out.append(base)
    for dest in DESTS:
        out.append({**base, "dest": dest})
    out.append({**desc, "pay": PAYLOADS[0]})
    return [make_desc(untyped(o["old"]), o["route"], o["dest"],
                      (o["prov"], o["access"], o["shallow"], o["deep"], o["pickle"]), o["pay"], o.get("pre", False), o.get("pv")) for o in out]
