"""C20 — incompatible schema versions are refused; migration preserves every job."""
import contextlib
import gzip
import io
import itertools
import json
import os
import shutil

from .c19 import byte_snapshot, check_environment, coq_node, in_child
from .common import Case, coq_bool, coq_json, coq_list, coq_opt, coq_str, exn_name, scratch_dir, to_plain

PROP = "C20"
IMPORTS = "Base Json Discover Migrate CorrC20"
CASE_TYPE = "case_C20"
MISMATCHES = "mismatches_C20"
VIOLATIONS = "violations_C20"
KNOWN = None
SHARD = 40
EXHAUSTIVE = {"quick": False, "thorough": True}
RULE = ("one case = one real project directory written the way signac 1.x did (vendored ConfigObj writes signac.rc with "
        "project / workspace_dir / schema_version; jobs as <workspace>/<id>/signac_statepoint.json + signac_job_document.json "
        "+ files; gzip state point cache; shell history) or the way signac 2 does (.signac/config).  Product of: layout x "
        "schema version {absent, 0, 1, 2, 3, 10}; project names {None, plain, spaces, punctuation with both quote kinds (triple-quoted by the writer), and names the writer single-quotes: comma, #, leading/trailing blank, one quote kind, empty, list-looking}; workspace_dir values the writer quotes (comma, blanks, #, a quote); "
        "workspace_dir {key absent, 'workspace', relative custom, nested custom, nested names ENDING in workspace (data/workspace, x/y/workspace), spellings ./workspace and workspace/, custom colliding with an existing empty / "
        "non-empty 'workspace'}; the workspace directory existing or (0 jobs only) never created; v1 cache and shell-history "
        "files present or not; a pre-existing project document or not; 0, 1, 3 or 5 jobs with documents, files and nested "
        "files; the collision matrix custom workspace_dir {never created, empty, with jobs} x stray <root>/workspace {empty, with job directories, a file}; HISTORIES: the same directory in several states within one process (nothing -> legacy project placed; nothing -> current; current -> newer; legacy -> upgraded; current -> legacy; projects removed), all four entry points queried in every state; LEFTOVERS: a current-layout project (.signac/config version 2 / 3) that also holds a legacy signac.rc declaring {absent, 0, 1, 2, 3} with or without workspace_dir; RELATIVE QUERIES on every case: the entry points called with relative paths ('p' from above, '..' from a sub-directory, '.', 'scripts', './scripts/..', path=None, '../..' and 'ws/<id>' forms) from the directory above, the project directory, a sub-directory, the workspace and a job directory (os.chdir in the forked child).  thorough = the whole product, quick = every small class plus a seeded sample.  Observed: exception class "
        "and byte snapshot for Project(), get_project(), get_project(search=False), init_project() on the pristine tree; "
        "outcome and tree after apply_migrations, after a second apply_migrations, and ids / state points / documents / "
        "files of the project re-opened with signac.  non-trivial: a legacy project with >= 1 job or a non-default option; "
        "distinct by option tuple")
TRUSTED = [
    "ConfigObj parsing / writing of configuration files (the config-file lexer: quoting on write, un-quoting and list "
    "splitting on read) is outside the model: files are passed as parsed records (schema_version, project, workspace_dir "
    "as a configspec-free ConfigObj reads them); validated on every generated value: the oracle clause orig_ok demands "
    "that this parse returns the ORIGINAL name / workspace_dir handed to the legacy writer",
    "the harness reads the jobs before the migration from the raw files (json.load) and after it through signac's API",
    "filelock's lock file is not modelled (the tree is compared after apply_migrations returned)",
]
ASSUMPTIONS = ["project names are ASCII without newlines and without ConfigObj interpolation syntax '%(' / '$'",
               "HOME holds no .signacrc"]

NAMES = ["None", "test_project", "My Project 2", "a, b; #c = \"q\" 's' [x]"]   # the last one is written triple-quoted
# values the legacy writer (ConfigObj) has to QUOTE: comma, '#', leading / trailing blank, one or both quote
# kinds, the empty string, a value that looks like a list
QUOTED_NAMES = ["My project, v2 (final)", "run #7", " padded ", "it's; here", 'say "hi"', "", "a, b"]
QUOTED_WS = ["ws, data", " ws ", "#ws", "w's", 'w"s']
LEGACY_VERSIONS = [None, 0, 1]
WS_OPTS = [  # (workspace_dir key, exists?, collide)
    (None, True, None), ("workspace", True, None), ("ws", True, None), ("data/ws", True, None),
    ("ws", True, "empty"), ("ws", True, "full"),
    # nested custom names whose LAST component is 'workspace', and other spellings of the default
    ("data/workspace", True, None), ("x/y/workspace", True, None), ("./workspace", True, None), ("workspace/", True, None),
]
WS_OPTS_EMPTY = [(None, False, None), ("ws", False, None), ("data/ws", False, None),
                 ("data/workspace", False, None), ("./workspace", False, None)]
TRICKY_WS = ("data/workspace", "x/y/workspace", "./workspace", "workspace/")
NJOBS = [0, 1, 3, 5]


def all_inputs():
    out = []
    for ver, name, njobs, cache, hist, predoc in itertools.product(LEGACY_VERSIONS, NAMES, NJOBS, [False, True], [False, True], [False, True]):
        for (w, ex, col) in WS_OPTS + (WS_OPTS_EMPTY if njobs == 0 else []):
            out.append({"layout": "v1", "ver": ver, "name": name, "ws": w, "ws_exists": ex, "collide": col,
                        "njobs": njobs, "cache": cache, "hist": hist, "predoc": predoc})
    for name, ver, njobs, (w, ex, col), predoc in itertools.product(
            QUOTED_NAMES, LEGACY_VERSIONS, [0, 3], [(None, True, None), ("ws", True, None), ("data/workspace", True, None)], [False, True]):
        out.append({"layout": "v1", "ver": ver, "name": name, "ws": w, "ws_exists": ex, "collide": col,
                    "njobs": njobs, "cache": False, "hist": False, "predoc": predoc})
    for w, ver, name, njobs in itertools.product(QUOTED_WS, [None, 1], ["None", "run #7"], [0, 3]):
        out.append({"layout": "v1", "ver": ver, "name": name, "ws": w, "ws_exists": True, "collide": None,
                    "njobs": njobs, "cache": njobs == 3, "hist": False, "predoc": False})
        if njobs == 0:
            out.append({"layout": "v1", "ver": ver, "name": name, "ws": w, "ws_exists": False, "collide": None,
                        "njobs": 0, "cache": False, "hist": False, "predoc": False})
    for ver, name, (w, ex, col), njobs in itertools.product([2, 3, 10], ["None", "My Project 2"], [(None, True, None), ("ws", True, None), ("ws", False, None), ("ws", True, "full")], [0, 3]):
        if not ex and njobs:
            continue
        out.append({"layout": "v1", "ver": ver, "name": name, "ws": w, "ws_exists": ex, "collide": col,
                    "njobs": njobs, "cache": True, "hist": False, "predoc": False})
    for ver, ex, njobs, predoc in itertools.product([None, 0, 1, 2, 3, 10], [True, False], [0, 3], [False, True]):
        if not ex and njobs:
            continue
        out.append({"layout": "v2", "ver": ver, "ws_exists": ex, "njobs": njobs, "predoc": predoc, "cache": bool(njobs)})
    out.append({"layout": "none", "njobs": 0})
    out += collision_matrix() + histories() + leftovers()
    out.append({"layout": "v1", "ver": 1, "name": None, "ws": None, "ws_exists": True, "collide": None,
                "njobs": 1, "cache": False, "hist": False, "predoc": False})   # no project key: not loadable
    return out


# the former F17 witness (fixed by 8637b58): custom workspace_dir that was never created
F17_WITNESS = {"layout": "v1", "ver": 1, "name": "test_project", "ws": "ws", "ws_exists": False, "collide": None,
               "njobs": 0, "cache": False, "hist": False, "predoc": False}


def legacy(ver=1, name="test_project", ws=None, ws_exists=True, collide=None, njobs=3, **kw):
    d = {"layout": "v1", "ver": ver, "name": name, "ws": ws, "ws_exists": ws_exists, "collide": collide,
         "njobs": njobs, "cache": False, "hist": False, "predoc": False}
    d.update(kw)
    return d


EMPTY = {"layout": "none", "njobs": 0}


def current(ver=2, njobs=3, ws_exists=True):
    return {"layout": "v2", "ver": ver, "ws_exists": ws_exists, "njobs": njobs, "predoc": False, "cache": False}


def collision_matrix():
    """custom workspace_dir {never created, empty, with jobs} x stray <root>/workspace {empty, with job dirs, a file}."""
    out = []
    for w in ("ws", "data/ws"):
        for ver in (None, 1):
            for (ex, njobs) in ((False, 0), (True, 0), (True, 3)):
                for col in ("empty", "full", "file"):
                    out.append(legacy(ver=ver, ws=w, ws_exists=ex, collide=col, njobs=njobs, cache=(njobs == 3)))
    return out


def leftovers():
    """a project in the CURRENT layout (.signac/config, version 2 or newer) that also holds a LEFTOVER legacy signac.rc
    (the old configuration restored from a backup / version control after the migration) declaring any version, with
    or without a workspace_dir key and directory: the project is what .signac/config says it is."""
    out = []
    for ver, rcver, rcws, njobs in itertools.product((2, 3), (None, 0, 1, 2, 3), (None, "ws"), (0, 3)):
        out.append({"layout": "v2", "ver": ver, "ws_exists": True, "njobs": njobs, "predoc": rcver == 1, "cache": bool(njobs),
                    "rc": {"ver": rcver, "name": "old name" if rcws else "None", "ws": rcws, "ws_dir": rcws is not None and njobs == 0}})
    return out


def histories():
    """one directory, several states in ONE process: query -> replace the directory -> query again."""
    out = []
    for ver in (None, 0, 1, 3):
        out.append(dict(legacy(ver=ver), before=[EMPTY]))                       # nothing there, then a legacy project is placed
    out.append(dict(legacy(ver=1, ws="ws"), before=[EMPTY, EMPTY]))
    out.append(dict(current(2), before=[EMPTY]))                                # nothing, then a current project
    out.append(dict(current(3), before=[EMPTY, current(2)]))                    # current, then replaced by a newer one
    out.append(dict(current(2), before=[legacy(ver=1)]))                        # legacy upgraded in place
    out.append(dict(legacy(ver=1), before=[current(2)]))                        # current replaced by legacy
    out.append(dict(EMPTY, before=[legacy(ver=0), current(2)]))                 # projects removed
    out.append(dict(legacy(ver=None, ws="ws", ws_exists=False, njobs=0), before=[EMPTY, current(1, njobs=0, ws_exists=False)]))
    return out


def always_quick():
    """classes every quick run must contain: workspace names that merely END in / spell 'workspace', with jobs."""
    out = []
    for w in TRICKY_WS:
        for ver, njobs, name in [(None, 3, "My Project 2"), (1, 1, "None"), (0, 5, "test_project")]:
            out.append({"layout": "v1", "ver": ver, "name": name, "ws": w, "ws_exists": True, "collide": None,
                        "njobs": njobs, "cache": njobs == 3, "hist": njobs == 1, "predoc": njobs == 5})
    for k, name in enumerate(QUOTED_NAMES):
        out.append({"layout": "v1", "ver": [None, 0, 1][k % 3], "name": name, "ws": [None, "ws"][k % 2], "ws_exists": True,
                    "collide": None, "njobs": 3, "cache": False, "hist": False, "predoc": k % 2 == 1})
    for k, w in enumerate(QUOTED_WS):
        out.append({"layout": "v1", "ver": [1, None][k % 2], "name": ["None", "run #7"][k % 2], "ws": w, "ws_exists": True,
                    "collide": None, "njobs": 3, "cache": True, "hist": False, "predoc": False})
    return out + collision_matrix() + histories()


def small_class(d):
    return (d["layout"] != "v1" or d["ver"] in (2, 3, 10) or d.get("name") is None
            or (not d["ws_exists"]) or d["collide"] is not None)


def dedupe(descs):
    seen, out = set(), []
    for d in descs:
        k = json.dumps(d, sort_keys=True)
        if k not in seen:
            seen.add(k)
            out.append(d)
    return out


def gen_inputs(tier, rng):
    return dedupe(_gen_inputs(tier, rng))


def _gen_inputs(tier, rng):
    space = all_inputs()
    if tier != "quick":
        return space
    small = [d for d in space if small_class(d)]
    rest = [d for d in space if not small_class(d)]
    small_legacy = [d for d in small if d["layout"] == "v1" and d["ver"] in (None, 0, 1) and d.get("name") is not None]
    others = [d for d in small if d not in small_legacy]
    return [F17_WITNESS] + always_quick() + others + rng.sample(small_legacy, 90) + rng.sample(rest, 110)


# ------------------------------------------------------------------ building
def job_content(k):
    sp = {"a": k, "b": {"c": [k, "x"], "f": k + 0.5}}
    doc = {"r": k * 1.5, "s": "é", "n": None} if k % 2 == 0 else None
    files = {}
    if k % 3 == 0:
        files["out.txt"] = b"result %d\n" % k
        files["sub/deep.bin"] = bytes(range(k, k + 5))
    return sp, doc, files


def write_jobs(wsdir, njobs):
    from signac.job import calc_id

    sps = {}
    for k in range(njobs):
        sp, doc, files = job_content(k)
        jid = calc_id(sp)
        sps[jid] = sp
        jd = os.path.join(wsdir, jid)
        os.makedirs(jd)
        with open(os.path.join(jd, "signac_statepoint.json"), "w") as fh:
            json.dump(sp, fh)
        if doc is not None:
            with open(os.path.join(jd, "signac_job_document.json"), "w") as fh:
                json.dump(doc, fh)
        for rel, data in files.items():
            p = os.path.join(jd, rel)
            os.makedirs(os.path.dirname(p), exist_ok=True)
            with open(p, "wb") as fh:
                fh.write(data)
    return sps


def build(root, d):
    from signac._vendor.configobj import ConfigObj

    os.makedirs(root)
    if d["layout"] == "none":
        return
    if d["layout"] == "v1":
        c = ConfigObj(os.path.join(root, "signac.rc"))     # the way signac 1.x init_project wrote it
        if d["name"] is not None:
            c["project"] = d["name"]
        if d["ws"] is not None:
            c["workspace_dir"] = d["ws"]
        if d["ver"] is not None:
            c["schema_version"] = str(d["ver"])
        c.write()
        wsdir = os.path.join(root, d["ws"] or "workspace")
        sps = {}
        if d["ws_exists"]:
            os.makedirs(wsdir)
            sps = write_jobs(wsdir, d["njobs"])
        if d["collide"] == "file":
            with open(os.path.join(root, "workspace"), "w") as fh:
                fh.write("not a directory\n")
        elif d["collide"]:
            os.makedirs(os.path.join(root, "workspace"))
            if d["collide"] == "full":
                write_jobs(os.path.join(root, "workspace"), 1) if d["njobs"] != 1 else write_jobs(os.path.join(root, "workspace"), 2)
        if d["cache"]:
            with gzip.open(os.path.join(root, ".signac_sp_cache.json.gz"), "wb") as fh:
                fh.write(json.dumps(sps or {"0" * 32: {"zz": 1}}).encode())
        if d["hist"]:
            with open(os.path.join(root, ".signac_shell_history"), "w") as fh:
                fh.write("print(project)\nproject.find_jobs()\n")
    else:
        os.makedirs(os.path.join(root, ".signac"))
        with open(os.path.join(root, ".signac", "config"), "w") as fh:
            fh.write("" if d["ver"] is None else "schema_version = %d\n" % d["ver"])
        sps = {}
        if d["ws_exists"]:
            os.makedirs(os.path.join(root, "workspace"))
            sps = write_jobs(os.path.join(root, "workspace"), d["njobs"])
        if d.get("cache"):
            with gzip.open(os.path.join(root, ".signac", "statepoint_cache.json.gz"), "wb") as fh:
                fh.write(json.dumps(sps).encode())
        if d.get("rc"):
            rc = d["rc"]
            c = ConfigObj(os.path.join(root, "signac.rc"))
            c["project"] = rc["name"]
            if rc["ws"] is not None:
                c["workspace_dir"] = rc["ws"]
            if rc["ver"] is not None:
                c["schema_version"] = str(rc["ver"])
            c.write()
            if rc.get("ws_dir"):
                os.makedirs(os.path.join(root, rc["ws"]))
    if d.get("predoc"):
        with open(os.path.join(root, "signac_project_document.json"), "w") as fh:
            json.dump({"foo": [1, 2.5], "bar": {"x": None}}, fh)
    with open(os.path.join(root, "notes.txt"), "w") as fh:
        fh.write("keep me\n")
    os.makedirs(os.path.join(root, "scripts"))
    with open(os.path.join(root, "scripts", "run.py"), "w") as fh:
        fh.write("import signac\n")


def read_files(jobdir):
    out = []
    for dp, dns, fns in os.walk(jobdir):
        dns.sort()
        for n in sorted(fns):
            p = os.path.join(dp, n)
            rel = os.path.relpath(p, jobdir)
            if rel in ("signac_statepoint.json", "signac_job_document.json"):
                continue
            with open(p, "rb") as fh:
                out.append((rel, fh.read()))
    out.sort()
    return out


def raw_jobs(wsdir):
    jobs = []
    if not os.path.isdir(wsdir):
        return jobs
    for n in sorted(os.listdir(wsdir)):
        jd = os.path.join(wsdir, n)
        if not os.path.isdir(jd):
            continue
        with open(os.path.join(jd, "signac_statepoint.json")) as fh:
            sp = json.load(fh)
        doc = {}
        if os.path.isfile(os.path.join(jd, "signac_job_document.json")):
            with open(os.path.join(jd, "signac_job_document.json")) as fh:
                doc = json.load(fh)
        jobs.append((n, sp, doc, read_files(jd)))
    return jobs


def coq_jobs(jobs):
    items = []
    for (i, sp, doc, files) in jobs:
        items.append("{| j_id := %s; j_sp := %s; j_doc := %s; j_files := %s |}" % (
            coq_str(i), coq_json(sp), coq_json(doc),
            coq_list(["(%s, %s)" % (coq_str(n), coq_str(b)) for n, b in files], "(str * str)")))
    return coq_list(items, "jobrec")


def coq_res_str(r):
    return "(Ok %s)" % coq_str(r[1]) if r[0] == "ok" else "(Err %s)" % r[1]


def coq_res_unit(r):
    return "(Ok tt)" if r[0] == "ok" else "(Err %s)" % r[1]


def gate_calls(signac, base, root, pristine, before):
    """Project / get_project / get_project(search=False) / init_project on the pristine tree, restored after each change."""
    gate = []
    for kind, fn in [("GProject", lambda: signac.Project(root)), ("(GGet true)", lambda: signac.get_project(root)),
                     ("(GGet false)", lambda: signac.get_project(root, search=False)),
                     ("GInit", lambda: signac.init_project(root))]:
        try:
            res = ("ok", fn().path)
        except Exception as e:
            res = ("err", exn_name(e), type(e).__name__)
        after = byte_snapshot(base)
        changed = after != before
        post = None
        if changed:
            post = coq_node(base)
            shutil.rmtree(base)
            shutil.copytree(pristine, base, symlinks=True)
            assert byte_snapshot(base) == before
        gate.append({"kind": kind, "res": res, "changed": changed, "post": post})
    return gate


def rel_queries(base, root, d):
    """(cwd, path or None, kind) - other spellings of the project directory and of places below it, from other
    working directories.  Every path is relative (or None = os.getcwd())."""
    below = [os.path.join(root, "scripts")]
    wsdir = os.path.join(root, d.get("ws") or "workspace") if d["layout"] != "none" else None
    if wsdir and os.path.isdir(wsdir):
        below.append(wsdir)
        jobs = sorted(n for n in os.listdir(wsdir) if os.path.isdir(os.path.join(wsdir, n)))
        if jobs:
            below.append(os.path.join(wsdir, jobs[0]))
    deepest = below[-1]
    ALL = ["GProject", "(GGet true)", "(GGet false)", "GInit"]
    qs = [(base, os.path.basename(root), k) for k in ALL]                       # from the directory above
    if not os.path.isdir(below[0]):
        return qs
    qs += [(below[0], "..", k) for k in ALL]                                     # from a sub-directory, through '..'
    qs += [(root, ".", "(GGet true)"), (root, "scripts", "(GGet true)"), (root, "./scripts/..", "GInit")]
    qs += [(below[0], ".", "(GGet true)"), (below[0], ".", "(GGet false)")]
    if deepest != below[0]:
        up = os.path.relpath(root, deepest)
        qs += [(deepest, ".", "(GGet true)"), (deepest, None, "(GGet true)"), (deepest, up, "(GGet true)"),
               (deepest, up, "GProject"), (deepest, os.path.join(up, "scripts"), "(GGet true)"),
               (root, os.path.relpath(deepest, root), "(GGet true)"), (base, os.path.relpath(deepest, base), "(GGet true)")]
    return qs


def rel_calls(signac, base, root, pristine, before, d):
    out = []
    calls = {"GProject": lambda p: signac.Project(p), "(GGet true)": lambda p: signac.get_project(p),
             "(GGet false)": lambda p: signac.get_project(p, search=False), "GInit": lambda p: signac.init_project(p)}
    home = os.getcwd()
    for cwd, path, kind in rel_queries(base, root, d):
        os.chdir(cwd)
        real_cwd = os.getcwd()
        try:
            res = ("ok", (calls[kind](path) if path is not None else signac.get_project()).path)
        except Exception as e:
            res = ("err", exn_name(e), type(e).__name__)
        os.chdir(home)
        after = byte_snapshot(base)
        changed = after != before
        post = None
        if changed:
            post = coq_node(base)
            shutil.rmtree(base)
            shutil.copytree(pristine, base, symlinks=True)
            assert byte_snapshot(base) == before
        out.append({"cwd": real_cwd, "path": path if path is not None else real_cwd, "none": path is None,
                    "kind": kind, "res": res, "changed": changed, "post": post})
    return out


def observe(d):
    """everything the implementation does with the project described by d (runs in a forked child)."""
    import signac
    from signac.migration import apply_migrations

    with scratch_dir("c20") as sd:
        sd = os.path.realpath(sd)
        check_environment(sd)
        base = os.path.join(sd, "t")
        root = os.path.join(base, "p")
        pristine = os.path.join(sd, "pristine")
        os.chdir(sd)
        # history: earlier states of the same directory, queried in this same process
        hist = []
        for k, st in enumerate(d.get("before", [])):
            os.makedirs(base)
            build(root, st)
            pk = os.path.join(sd, "pristine%d" % k)
            shutil.copytree(base, pk, symlinks=True)
            hist.append({"tree": coq_node(base), "gate": gate_calls(signac, base, root, pk, byte_snapshot(base))})
            shutil.rmtree(base)
        os.makedirs(base)
        build(root, d)
        shutil.copytree(base, pristine, symlinks=True)
        tree = coq_node(base)
        before = byte_snapshot(base)
        jobs_before = raw_jobs(os.path.join(root, d.get("ws") or "workspace")) if d["layout"] != "none" else []
        gate = gate_calls(signac, base, root, pristine, before)
        rel = rel_calls(signac, base, root, pristine, before, d)
        err = io.StringIO()
        with contextlib.redirect_stderr(err):
            try:
                apply_migrations(root)
                mig = ("ok",)
            except Exception as e:
                mig = ("err", exn_name(e), type(e).__name__, repr(e.__cause__)[:200])
        mig_post = coq_node(base)
        snap1 = byte_snapshot(base)
        with contextlib.redirect_stderr(err):
            try:
                apply_migrations(root)
                again = ("ok",)
            except Exception as e:
                again = ("err", exn_name(e), type(e).__name__)
        again_changed = byte_snapshot(base) != snap1
        name_after = None
        try:
            project = signac.get_project(root)
            jobs_after = []
            for job in sorted(project, key=lambda j: j.id):
                jobs_after.append((job.id, to_plain(job.statepoint()), to_plain(job.document), read_files(job.path)))
            if "signac_project_name" in project.document:
                name_after = to_plain(project.document["signac_project_name"])
            opened = ("ok", jobs_after)
        except Exception as e:
            opened = ("err", exn_name(e), type(e).__name__)
        layout_after = sorted(os.listdir(root))
        return {"base": base, "root": root, "cwd": sd, "tree": tree, "gate": gate, "mig": mig, "mig_post": mig_post,
                "again": again, "again_changed": again_changed, "jobs_before": jobs_before, "opened": opened,
                "name_after": name_after, "layout_after": layout_after,
                "orig": (d.get("name"), d.get("ws")) if d["layout"] == "v1" else None, "hist": hist, "rel": rel}


def run_case(desc):
    o = in_child(observe, desc)
    def glit(g):
        return "{| g_kind := %s; g_res := %s; g_changed := %s; g_post := %s |}" % (
            g["kind"], coq_res_str(g["res"]), coq_bool(g["changed"]), coq_opt(g["post"]))

    glits = [glit(g) for g in o["gate"]]
    hlits = ["(%s, %s)" % (h["tree"], coq_list([glit(g) for g in h["gate"]], "gobs")) for h in o["hist"]]
    opened = o["opened"]
    rlits = ["(%s, %s, %s)" % (coq_str(r["cwd"]), coq_str(r["path"]), glit(r)) for r in o["rel"]]
    coq = ("{| c20_base := %s; c20_tree := %s; c20_root := %s; c20_cwd := %s; c20_gate := %s; c20_mig := %s; "
           "c20_mig_post := %s; c20_again := %s; c20_again_changed := %s; c20_jobs_before := %s; c20_open_after := %s; "
           "c20_name_after := %s; c20_hist := %s; c20_orig := %s; c20_rel := %s |}") % (
        coq_str(o["base"]), o["tree"], coq_str(o["root"]), coq_str(o["cwd"]), coq_list(glits, "gobs"),
        coq_res_unit(o["mig"]), o["mig_post"], coq_res_unit(o["again"]), coq_bool(o["again_changed"]),
        coq_jobs(o["jobs_before"]),
        ("(Ok %s)" % coq_jobs(opened[1])) if opened[0] == "ok" else "(Err %s)" % opened[1],
        coq_opt(None if o["name_after"] is None else coq_json(o["name_after"])),
        coq_list(hlits, "(node * list gobs)"),
        coq_opt(None if o["orig"] is None else "(%s, %s)" % (
            coq_opt(None if o["orig"][0] is None else coq_str(o["orig"][0])),
            coq_opt(None if o["orig"][1] is None else coq_str(o["orig"][1])))),
        coq_list(rlits, "(str * str * gobs)"))
    obs = {"gate": [[g["kind"], g["res"][0] if g["res"][0] == "ok" else g["res"][1], g["changed"]] for g in o["gate"]],
           "migrate": list(o["mig"]), "again": list(o["again"]), "again_changed": o["again_changed"],
           "ids_before": [j[0] for j in o["jobs_before"]],
           "opened": opened[0] if opened[0] == "err" else [j[0] for j in opened[1]],
           "opened_exc": opened[1] if opened[0] == "err" else None,
           "name_after": o["name_after"], "root_listing_after": o["layout_after"],
           "relative": [[os.path.relpath(r["cwd"], o["base"]), None if r["none"] else r["path"], r["kind"],
                         r["res"][0] if r["res"][0] == "ok" else r["res"][1], r["changed"]] for r in o["rel"]],
           "history": [[[g["kind"], g["res"][0] if g["res"][0] == "ok" else g["res"][1], g["changed"]] for g in h["gate"]]
                       for h in o["hist"]]}
    d = desc
    nontrivial = d["layout"] == "v1" and (d["njobs"] >= 1 or d.get("ws") is not None or d.get("cache") or d.get("hist"))
    kinds = (["history:%d" % len(d["before"])] if d.get("before") else []) + ["%s:ver=%s" % (d["layout"], d.get("ver")),
             "ws=%s%s%s" % (d.get("ws"), "" if d.get("ws_exists", True) else ":missing", ":collide" if d.get("collide") else "")]
    if d.get("rc"):
        kinds.append("leftover-rc:ver=%s" % d["rc"]["ver"])
    return Case(coq, desc, obs=obs, nontrivial=bool(nontrivial), key=json.dumps(desc, sort_keys=True), kinds=kinds)


def search(desc):
    out = []
    for k, v in [("njobs", 0), ("cache", False), ("hist", False), ("predoc", False), ("name", "None")]:
        if desc.get(k) not in (None, v) and k in desc:
            out.append(dict(desc, **{k: v}))
    return out
