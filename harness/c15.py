"""C15 — a successful sync makes the destination a superset and touches nothing else."""
from . import sync_gen

PROP = "C15"
IMPORTS = "Base Json Canon Sync SyncObs CorrC13 CorrC14 CorrC15"
CASE_TYPE = "case_C15"
MISMATCHES = "mismatches_C15"
VIOLATIONS = "violations_C15"
KNOWN = "known_C15"
SHARD = 40
RULE = ("seeded random pairs of real projects over the universe of the property text (0-4 jobs each, overlapping / disjoint "
        "ids, files identical / differing / one-sided with explicit mtimes, nested and empty directories, file-vs-directory "
        "clashes, job and project documents overlapping / nested / conflicting / mixed-type) x options (strategy None/always/"
        "never/update/custom, doc_sync default/ByKey(pred|regex)/update/NO_SYNC/COPY, recursive, exclude str/list, selection "
        "by id/job, check_schema) x entry point (Project.sync, sync_projects, Job.sync, sync_jobs incl. uninitialised jobs and "
        "jobs with different state points); every successful call is repeated. non-trivial: the call changed the destination "
        "or raised; distinct by the JSON of the scenario")
TRUSTED = [
    "float.__repr__ as an oracle table (documents); re.match outcomes for exclude patterns / regex key strategies as tables "
    "computed by the harness over every name occurring in the scenario",
    "filecmp.dircmp, shutil.copy/copytree, synced_collections JSON documents are modelled, not verified",
    "detect_schema is modelled for flat int/str state points only (set of (key, value))",
]
ASSUMPTIONS = ["both workspaces are valid (directory name = id of the state point file)", "no symbolic links",
               "file mtimes precede the call (set explicitly); preserve_* options at their defaults"]


def gen_inputs(tier, rng):
    n = 260 if tier == "quick" else 6000
    return [sync_gen.rand_scenario(rng, PROP) for _ in range(n)]


def run_case(desc):
    return sync_gen.run_scenario(desc, PROP)


def search(desc):
    return sync_gen.shrink_neighbours(desc)
