"""C15 — sync options are honoured: dry-run writes nothing, deep, exclude, selection, parallel."""
from . import sync_gen

PROP = "C15"
IMPORTS = "Base Json Canon Sync SyncObs CorrC13 CorrC14 CorrC15"
CASE_TYPE = "case_C15"
MISMATCHES = "mismatches_C15"
VIOLATIONS = "violations_C15"
KNOWN = None
SHARD = 40
RULE = ("Job.sync / sync_jobs between jobs whose state points differ x document strategy (all DocSync.COPY combinations in quick) x file strategy incl. custom strategies that accept the state point file and update with a newer source state point x destination initialised or not; top-level user files whose names are proper substrings of the job's own file names (state, json, signac, point.json, document ...) x document strategy incl. DocSync.COPY; permission bits other than the umask default on counterpart / one-sided / nested files and in cloned jobs x preserve_permissions / preserve_times x collect_stats (bits observed before and after, next to the trees); names of filecmp.DEFAULT_IGNORES on both sides with equal size and mtime but different content, pools of 2 / 3 / cpu_count workers against 1-7 jobs; file / directory clashes at the top level and nested, user files named like the state point / document in sub-directories, a caller-owned exclude list reused across two calls, deep syncs after an earlier deep comparison of the same paths followed by a same-size same-mtime change (filecmp cache not cleared by the harness); selection also as one-shot iterables; raising key strategy callbacks; dry runs over trees with symbolic links (file links, links out of the job, dangling; follow_symlinks True / False; outside the model, dry-run oracle only); option-oriented seeded random pairs of the C13 universe with dry_run (40%), deep (40%), exclude patterns (45%), "
        "selection by job / id (45%), parallel in {False, 2, True} (30%) x entry point (Project.sync, sync_projects, Job.sync, "
        "sync_jobs); every dry run is accompanied by the same call with dry_run=False on a fresh copy of the pair, every "
        "parallel run by the sequential one; plus the one-file core x deep x dry_run and the one-key document core under "
        "dry_run; plus deep trees whose intermediate levels are identical (difference 3-5 levels down, also equal size and mtime, x deep) and stale '<document>~' backup files next to the destination document; excluded names inside cloned jobs / left-only directories / as directory names / matching signac's own files (exclude None, str, list), and a ByKey() instance the caller reuses after a call that raised DocumentSyncConflict; quick samples the cores.  non-trivial: the call or its companion changed the destination or raised; distinct "
        "by the JSON of the scenario")
TRUSTED = [
    "float.__repr__ as an oracle table (documents); re.match outcomes for exclude patterns / regex key strategies as tables "
    "computed by the harness over every name occurring in the scenario",
    "filecmp.dircmp / filecmp.cmp, shutil.copy / copytree, synced_collections JSON documents (write on every assignment, "
    "json.dumps text) are modelled, not verified; the os.scandir order of every directory and the iteration order of "
    "list(project) are observed and fed to the model",
    "detect_schema is modelled for flat int/str state points only (set of (key, value))",
    "with parallel=True/int and an exception the destination tree depends on the schedule: only the exception class and the "
    "source are compared there (the worker threads are joined before the snapshot: ThreadPool.terminate() does not)",
]
ASSUMPTIONS = ["both workspaces are valid (directory name = id of the state point file)", "no symbolic links",
               "file mtimes precede the call (set explicitly with os.utime); preserve_owner / preserve_group / follow_symlinks at their defaults; permission bits are set on user files only (owner read/write always set)",
               "document keys are distinct and contain no '.'"]


def gen_inputs(tier, rng):
    n = 300 if tier == "quick" else 6000
    descs = [sync_gen.rand_scenario(rng, PROP) for _ in range(n)]
    files, docs = sync_gen.core_file_cases((False, True), (False, True)), sync_gen.core_doc_cases((True,))
    nested, backup = sync_gen.core_nested_cases((True,)), sync_gen.core_backup_cases((True,))
    if tier == "quick":
        files, docs = rng.sample(files, 120), rng.sample(docs, 80)
        nested, backup = rng.sample(nested, 50), rng.sample(backup, 40)
    return descs + files + docs + nested + backup + _excl(tier, rng) + _round3(tier, rng) + _round4(tier, rng) + _round6(tier, rng) + _round7(tier, rng) + _round8(tier, rng) + sync_gen.core_reuse_cases((False, True))

def _round3(tier, rng):
    cases = sync_gen.core_selection_cases() + sync_gen.core_fault_cases()
    cases = cases if tier != "quick" else rng.sample(cases, 90)
    links = sync_gen.core_symlink_cases()
    cases += links if tier != "quick" else rng.sample(links, 110)
    return cases


def _round4(tier, rng):
    hist = sync_gen.core_deep_history_cases()
    cases = hist + sync_gen.core_reuse_exclude_cases() + sync_gen.core_clash_cases()
    if tier != "quick":
        return cases
    picked = rng.sample(cases, 150)
    # the process-history family (48) is the only place where deep=True meets filecmp's cache: it is not left to the
    # sample (seed 0 once drew 11 of them, none a real run with strategy None / always, and a reverted 23d4b64 was
    # seen as a mismatch without a failing input)
    return picked + [c for c in hist if c not in picked]


def _round8(tier, rng):
    cross = sync_gen.core_cross_cases((False, True))
    if tier == "quick":
        copy = [c for c in cross if c["opts"]["doc_sync"] == "copy"]
        other = [c for c in cross if c["opts"]["doc_sync"] != "copy"]
        cross = rng.sample(copy, 24) + rng.sample(other, 24)
    return cross


def _round7(tier, rng):
    own, perm = sync_gen.core_ownname_cases((False, True)), sync_gen.core_perm_cases((False, True))
    if tier == "quick":
        own, perm = rng.sample(own, 24), rng.sample(perm, 90)
    return own + perm


def _round6(tier, rng):
    cases = sync_gen.core_parallel_cases() + sync_gen.core_ignores_cases()
    return cases if tier != "quick" else rng.sample(cases, 150)


def _excl(tier, rng):
    cases = sync_gen.core_exclude_cases((False, True))
    return cases if tier != "quick" else rng.sample(cases, 160)


def run_case(desc):
    return sync_gen.run_scenario(desc, PROP)


def search(desc):
    return sync_gen.shrink_neighbours(desc)
