"""C19 — discovery resolves to the nearest enclosing project; init_project is idempotent."""
import json
import os
import pickle
import shutil
import traceback

from .common import Case, coq_bool, coq_list, coq_opt, coq_str, coq_Z, exn_name, scratch_dir

PROP = "C19"
IMPORTS = "Base Json Discover CorrC19"
CASE_TYPE = "case_C19"
MISMATCHES = "mismatches_C19"
VIOLATIONS = "violations_C19"
KNOWN = None
SHARD = 12
EXHAUSTIVE = {"quick": False, "thorough": False}
RULE = ("one case = one generated real directory tree (depth <= 5 below the case directory) mixing plain directories, "
        "projects made by signac.init_project (some with non-canonical config text, project document, state point cache, "
        "or without workspace directory), jobs made by open_job().init(), projects nested in job directories (the job "
        "directory itself or a sub-directory) and in plain sub-directories, job directories that are symbolic links "
        "(relative / absolute target) to a directory stored elsewhere, stray links, files; projects whose OWN directory is called 'workspace' (stand-alone or below a plain sub-directory of another project); directories that hold '.signac/' but no '.signac/config' (dissolved project with its cache left behind, half-finished init; job directories WITHOUT a state point file (created before Job.init), also as jobs of a project nested in a job directory; leftover legacy signac.rc files in plain sub-directories and job directories below initialised projects; projects with a persisted state point cache whose workspace directory was moved away) inside projects, inside jobs and outside every project, each queried with search=False and init_project too; names that merely CONTAIN 32 hex characters (64/40/33-hex, run_<md5>, <id>.bak) as sub-directories of jobs, plain directories and projects and as queried leaves (inside the quantifier: they are not 32-hex-named); a fraction of trees leaves the "
        "layout hypothesis (exact 32-hex names outside workspaces, legacy signac.rc projects, foreign schema "
        "versions) and is compared with the model only.  Every directory of the tree (also through links), plus "
        "non-existent paths, is queried with get_project(search=True/False), get_job, init_project as absolute path, "
        "relative to two other working directories (os.chdir in a forked child), as '.', with path=None, and in the raw "
        "forms p/ p/. p/.. //p; after each call the byte snapshot of the whole tree is compared and the tree restored. "
        "non-trivial: the tree has >= 2 projects or a job; distinct by tree description")
TRUSTED = [
    "ConfigObj parsing of configuration files is outside the model (a config file is passed as its parsed record)",
    "kernel path resolution is modelled (walk: '..' physical, links followed, 600 steps of fuel) and compared on every query",
    "no project configuration exists in the ancestors of the scratch directory (checked by the harness at start)",
]
ASSUMPTIONS = ["layout hypothesis of the property for the oracle: names of EXACTLY 32 hex characters occur only as children of a project's workspace",
               "oracle applies to queries whose lexical (abspath) and physical reading denote the same place; others are compared with the model only"]

HEX = "0123456789abcdef"


# ------------------------------------------------------------------ tree descriptions
def gen_children(rng, depth, budget, odd):
    """entries living at depth `depth` (case root = 0)."""
    out = []
    if depth > 5:
        return out
    n = rng.choice([0, 1, 1, 2, 2, 3]) if depth <= 3 else rng.choice([0, 0, 1, 2])
    names = rng.sample(["a", "b", "sub", "data", "workspace", "x.y", "proj", "src"], n)
    for name in names:
        if budget[0] <= 0:
            break
        budget[0] -= 1
        r = rng.random()
        if name == "workspace":
            # a directory called workspace that is NOT the workspace of a project above it (callers drop the name
            # from the children of a project): a plain directory, or a project whose OWN directory has that name
            # (stand-alone x/workspace, or outer/analysis/workspace below a plain sub-directory of another project)
            r = 0.1 if r < 0.45 else 0.7
        if r < 0.36 and depth <= 4:
            out.append(gen_project(rng, name, depth, budget, odd))
        elif r < 0.44 and depth <= 4:
            # a directory that holds `.signac/` but NO `.signac/config`: a nested project dissolved by deleting its
            # configuration (state point cache left behind), or an init_project that failed after the mkdir.
            # It is a plain directory for discovery.
            out.append({"k": "dissolved", "name": name, "left": rng.choice(["cache", "empty"]),
                        "ch": [c for c in gen_children(rng, depth + 1, budget, False) if c["name"] != ".signac"]})
        elif r < 0.48:
            # a plain directory holding a LEFTOVER legacy configuration (signac.rc): not an initialised project;
            # below an initialised project discovery walks past it
            out.append({"k": "legacy", "name": name, "ver": rng.choice([None, 0, 1]),
                        "ch": gen_children(rng, depth + 1, budget, False)})
        elif r < 0.85:
            e = {"k": "dir", "name": name, "ch": gen_children(rng, depth + 1, budget, odd)}
            out.append(e)
        else:
            out.append({"k": "file", "name": name + ".txt"})
    if odd and rng.random() < 0.5 and depth <= 4:
        kind = rng.choice(["hexdir", "hex33", "hex33", "hexpre", "hexpre", "runmd5", "legacy", "ver3", "hexfileproj"])
        if kind == "hexdir":
            out.append({"k": "dir", "name": "".join(rng.choice(HEX) for _ in range(32)), "ch": gen_children(rng, depth + 1, budget, False)})
        elif kind == "hex33":
            out.append({"k": "dir", "name": "".join(rng.choice(HEX) for _ in range(rng.choice([33, 40, 64, 65]))), "ch": []})
        elif kind == "hexpre":
            out.append({"k": "dir", "name": rng.choice(["x", "z_", ""]) + "".join(rng.choice(HEX) for _ in range(32)) + rng.choice(["g", ".bak", "_1"]), "ch": []})
        elif kind == "runmd5":
            out.append({"k": "dir", "name": rng.choice(["run_", "sha-", "v"]) + "".join(rng.choice(HEX) for _ in range(32)),
                        "ch": gen_children(rng, depth + 1, budget, False)})
        elif kind == "legacy":
            out.append({"k": "legacy", "name": "old", "ver": rng.choice([None, 0, 1, 2, 3]), "ch": gen_children(rng, depth + 1, budget, False)})
        elif kind == "ver3":
            out.append({"k": "proj", "name": "newer", "ver": rng.choice([1, 3, None]), "jobs": [], "ch": gen_children(rng, depth + 1, budget, False),
                        "cfgv": "std", "doc": False, "cache": False, "nows": rng.random() < 0.5})
        else:
            e = gen_project(rng, "hp", depth, budget, False)
            e["hexsub"] = "".join(rng.choice(HEX) for _ in range(32))
            out.append(e)
    return out


def gen_project(rng, name, depth, budget, odd):
    """a project directory at depth `depth`; workspace at depth+1, job dirs at depth+2."""
    jobs = []
    if depth + 2 <= 5:
        for a in range(rng.choice([0, 1, 1, 2, 3])):
            if budget[0] <= 0:
                break
            budget[0] -= 1
            j = {"a": a, "k": "dir", "ch": [], "link": None}
            r = rng.random()
            if r < 0.3 and depth + 4 <= 5:
                j["k"] = "proj"   # the job directory is itself a project
                j["jobs"] = [{"a": b, "k": "dir", "ch": [], "link": None} for b in range(rng.choice([0, 1, 2]))]
            if depth + 3 <= 5 and rng.random() < 0.6:
                j["ch"] = [c for c in gen_children(rng, depth + 3, budget, odd)
                           if not (j["k"] == "proj" and c["name"] == "workspace")]
            if rng.random() < 0.25:
                j["link"] = rng.choice(["rel", "abs"])
            r2 = rng.random()
            if r2 < 0.15:
                j["bare"] = True      # the directory exists (makedirs, data written) but Job.init never ran: no state point file
            elif r2 < 0.22:
                j["rc"] = True        # a leftover legacy signac.rc inside the job directory
            if j["k"] == "proj":
                for jj in j["jobs"]:
                    if rng.random() < 0.35:
                        jj["bare"] = True
            jobs.append(j)
    e = {"k": "proj", "name": name, "jobs": jobs,
         "ch": [c for c in gen_children(rng, depth + 1, budget, odd) if c["name"] not in ("workspace", "_store")],
         "cfgv": rng.choice(["std", "std", "nospace", "comment", "extra", "quoted"]),
         "doc": rng.random() < 0.4, "cache": rng.random() < 0.4 and bool(jobs),
         "nows": (not jobs) and rng.random() < 0.3}
    if jobs and depth >= 1 and rng.random() < 0.12:
        # the workspace directory was moved away / archived after update_cache: persisted cache, no workspace
        e["nows"] = True
        e["cache"] = True
        for j in jobs:
            j.pop("bare", None)
    return e


def gen_tree(rng, odd):
    budget = [rng.choice([6, 10, 14, 18])]
    if rng.random() < 0.4:
        top = gen_project(rng, "", 0, budget, odd)
    else:
        top = {"k": "dir", "name": "", "ch": gen_children(rng, 1, budget, odd)}
    nlinks = rng.choice([0, 0, 0, 0, 0, 0, 0, 1, 2])
    links = [{"seed": rng.randint(0, 10 ** 6), "abs": rng.random() < 0.4} for _ in range(nlinks)]
    return {"top": top, "links": links, "qseed": rng.randint(0, 10 ** 9), "odd": odd}


def gen_inputs(tier, rng):
    n = 200 if tier == "quick" else 3000
    descs = [{"tree": t, "fixed": True} for t in FIXED]
    for i in range(n):
        descs.append({"tree": gen_tree(rng, odd=(i % 8 == 7))})
    return descs


def _p(name, jobs=(), ch=(), **kw):
    e = {"k": "proj", "name": name, "jobs": list(jobs), "ch": list(ch), "cfgv": "comment", "doc": True, "cache": bool(jobs), "nows": False}
    e.update(kw)
    return e


def _j(a, k="dir", ch=(), link=None, jobs=(), **kw):
    j = {"a": a, "k": k, "ch": list(ch), "link": link}
    j.update(kw)
    if k == "proj":
        j["jobs"] = list(jobs)
    return j


HEXISH = ["2d711642b726b04401627ca9fbac32f5c8530fb1903cc4db02258717921a4881",      # 64 hex (sha256)
          "11f6ad8ec52a2984abaafd7c3b516503785c2072",                              # 40 hex (sha1)
          "run_9dd4e461268c8034f5c8564e155c67a6",                                  # prefix + md5
          "9dd4e461268c8034f5c8564e155c67a6.bak",                                  # id + suffix
          "0123456789abcdef0123456789abcdef0"]                                     # 33 hex

# hand-written trees that exercise every "Catches" item of the design
FIXED = [
    # project nested in a job directory (the job dir itself), with its own jobs: two ids on one path
    {"top": _p("", jobs=[_j(0, "proj", jobs=[_j(0), _j(1, ch=[{"k": "dir", "name": "sub", "ch": []}])]), _j(1)],
               ch=[{"k": "dir", "name": "sub", "ch": [{"k": "dir", "name": "deeper", "ch": []}]}]),
     "links": [], "qseed": 1, "odd": False},
    # project in a sub-directory of a job, project in a plain sub-directory, symlinked jobs
    {"top": {"k": "dir", "name": "", "ch": [
        _p("outer", jobs=[_j(0, ch=[_p("inner", jobs=[_j(5)])]), _j(1, link="rel", ch=[{"k": "dir", "name": "sub", "ch": []}]), _j(2, link="abs")],
           ch=[_p("plainnested", jobs=[_j(0)], cfgv="nospace")]),
        {"k": "dir", "name": "noproj", "ch": [{"k": "dir", "name": "workspace", "ch": []}]}]},
     "links": [], "qseed": 2, "odd": False},
    # stray links (outside the property's quantifier: compared with the model only)
    {"top": {"k": "dir", "name": "", "ch": [
        _p("outer", jobs=[_j(0, ch=[{"k": "dir", "name": "sub", "ch": []}]), _j(1, link="rel")], ch=[_p("nested", jobs=[_j(0)])]),
        {"k": "dir", "name": "noproj", "ch": []}]},
     "links": [{"seed": 3, "abs": False}, {"seed": 4, "abs": True}, {"seed": 12, "abs": False}], "qseed": 5, "odd": False},
    # names that merely CONTAIN 32 hex characters (64-hex, 40-hex, 33-hex, run_<md5>, <id>.bak): ordinary
    # sub-directories of a job, of a plain directory and of a project; each is also a queried leaf
    {"top": {"k": "dir", "name": "", "ch": [
        _p("p", jobs=[_j(1, ch=[{"k": "dir", "name": n, "ch": [{"k": "dir", "name": "deep", "ch": []}] if k == 0 else []}
                                for k, n in enumerate(HEXISH)]), _j(2, link="rel", ch=[{"k": "dir", "name": HEXISH[2], "ch": []}])],
           ch=[{"k": "dir", "name": HEXISH[1], "ch": []}]),
        {"k": "dir", "name": "plain", "ch": [{"k": "dir", "name": n, "ch": []} for n in HEXISH[:3]]}]},
     "links": [], "qseed": 6, "odd": False},
    # a project whose OWN directory is called `workspace` (stand-alone, and below a plain sub-directory of another
    # project), queried strictly below it; directories holding `.signac/` without a config (dissolved nested
    # project with its cache left behind, half-finished init) inside a project, inside a job and outside every project
    {"top": {"k": "dir", "name": "", "ch": [
        _p("workspace", jobs=[_j(0, ch=[{"k": "dir", "name": "sub", "ch": []}]), _j(1, link="rel")],
           ch=[{"k": "dir", "name": "sub", "ch": [{"k": "dir", "name": "deeper", "ch": []}]}]),
        _p("outer", jobs=[_j(0, ch=[{"k": "dissolved", "name": "was", "left": "cache", "ch": []}])],
           ch=[{"k": "dir", "name": "analysis", "ch": [
                   _p("workspace", jobs=[_j(3)], ch=[{"k": "dir", "name": "data", "ch": []}], cfgv="nospace")]},
               {"k": "dissolved", "name": "gone", "left": "cache", "ch": [{"k": "dir", "name": "sub", "ch": []}]},
               {"k": "dissolved", "name": "halfinit", "left": "empty", "ch": []}]),
        {"k": "dir", "name": "noproj", "ch": [{"k": "dissolved", "name": "d2", "left": "empty", "ch": []}]}]},
     "links": [], "qseed": 7, "odd": False},
    # job directories without a state point file (makedirs before Job.init): alone, and as jobs of a project that lives in
    # an initialised job directory of an outer project; leftover signac.rc in a plain sub-directory and in a job directory
    # below an initialised project; a project with a persisted cache whose workspace directory was moved away
    {"top": {"k": "dir", "name": "", "ch": [
        _p("outer", jobs=[_j(0, "proj", jobs=[_j(0, bare=True, ch=[{"k": "dir", "name": "sub", "ch": []}]), _j(1)]),
                          _j(1, bare=True), _j(2, rc=True, ch=[{"k": "dir", "name": "sub", "ch": []}])],
           ch=[{"k": "legacy", "name": "old", "ver": 1, "ch": [{"k": "dir", "name": "sub", "ch": []}]},
               _p("archived", jobs=[_j(0), _j(1)], nows=True, cfgv="nospace")]),
        _p("solo", jobs=[_j(4, bare=True)], doc=False)]},
     "links": [], "qseed": 8, "odd": False},
    # project without workspace directory, empty project
    {"top": {"k": "dir", "name": "", "ch": [_p("nows", nows=True, cfgv="extra"), _p("empty", cfgv="quoted")]},
     "links": [], "qseed": 3, "odd": False},
]


# ------------------------------------------------------------------ building the real tree
CFG_VARIANTS = {
    "nospace": b"schema_version=2\n",
    "comment": b"# project configuration\nschema_version = 2  # do not edit\n",
    "extra": b"schema_version = 2\nfoo = bar\n[section]\nkey = value\n",
    "quoted": b"schema_version = '2'\n",
}


def build_project_at(path, e, store_root):
    import signac

    os.makedirs(path, exist_ok=True)
    project = signac.init_project(path)
    for j in e.get("jobs", []):
        job = project.open_job({"a": j["a"]})
        jp = job.path
        if j.get("bare"):
            os.makedirs(jp)
            with open(os.path.join(jp, "early.dat"), "wb") as fh:
                fh.write(b"written before init")
        else:
            job.init()
        if j["k"] == "proj":
            build_project_at(jp, {"jobs": j.get("jobs", []), "ch": [], "cfgv": "std", "doc": False, "cache": False, "nows": False}, store_root)
        for c in j["ch"]:
            build_entry(jp, c, store_root)
        if j.get("rc"):
            with open(os.path.join(jp, "signac.rc"), "wb") as fh:
                fh.write(b"project = leftover\nschema_version = 1\n")
        if j["a"] % 2 == 0 and not j.get("bare"):
            job.document["d"] = j["a"]
        if j["link"]:
            store = os.path.join(path, "_store")
            os.makedirs(store, exist_ok=True)
            real = os.path.join(store, "j%d" % j["a"])
            os.rename(jp, real)
            os.symlink(real if j["link"] == "abs" else os.path.join("..", "_store", "j%d" % j["a"]), jp)
    for c in e.get("ch", []):
        build_entry(path, c, store_root)
    if e.get("hexsub"):
        os.makedirs(os.path.join(path, e["hexsub"]))
    if e.get("doc"):
        project.document["name"] = "p"
    if e.get("cache") and not any(j.get("bare") for j in e.get("jobs", [])):
        project.update_cache()      # (a directory without state point file makes update_cache fail)
    if e.get("cfgv", "std") != "std":
        with open(os.path.join(path, ".signac", "config"), "wb") as fh:
            fh.write(CFG_VARIANTS[e["cfgv"]])
    if "ver" in e:
        with open(os.path.join(path, ".signac", "config"), "wb") as fh:
            fh.write(b"" if e["ver"] is None else b"schema_version = %d\n" % e["ver"])
    if e.get("nows"):
        shutil.rmtree(os.path.join(path, "workspace"))


def build_entry(parent, e, store_root):
    path = os.path.join(parent, e["name"]) if e["name"] else parent
    if e["k"] == "dir":
        os.makedirs(path, exist_ok=True)
        for c in e["ch"]:
            build_entry(path, c, store_root)
    elif e["k"] == "file":
        with open(path, "wb") as fh:
            fh.write(b"x")
    elif e["k"] == "proj":
        build_project_at(path, e, store_root)
    elif e["k"] == "dissolved":
        os.makedirs(os.path.join(path, ".signac"), exist_ok=True)
        if e["left"] == "cache":
            with open(os.path.join(path, ".signac", "statepoint_cache.json.gz"), "wb") as fh:
                fh.write(b"\x1f\x8b\x08\x00stale")
        for c in e["ch"]:
            build_entry(path, c, store_root)
    elif e["k"] == "legacy":
        os.makedirs(path, exist_ok=True)
        with open(os.path.join(path, "signac.rc"), "wb") as fh:
            fh.write(b"project = old\n" + (b"" if e["ver"] is None else b"schema_version = %d\n" % e["ver"]))
        for c in e["ch"]:
            build_entry(path, c, store_root)
    else:
        raise ValueError(e["k"])


def list_dirs(root, maxdepth=7, limit=80):
    """lexical directory paths (relative to root, '' = root), following links to directories."""
    out = [""]
    stack = [("", 0)]
    while stack and len(out) < limit:
        rel, d = stack.pop(0)
        full = os.path.join(root, rel) if rel else root
        try:
            names = sorted(os.listdir(full))
        except OSError:
            continue
        for n in names:
            r = os.path.join(rel, n) if rel else n
            if (os.path.isdir(os.path.join(root, r)) and d + 1 <= maxdepth
                    and (os.path.realpath(os.path.join(root, r)) + os.sep).startswith(root + os.sep)):
                out.append(r)
                stack.append((r, d + 1))
    return out[:limit]


def real_dirs(root):
    """physical directories below root (links not followed), relative paths."""
    out = []
    for dp, dns, _ in os.walk(root):
        dns.sort()
        for n in dns:
            p = os.path.join(dp, n)
            if not os.path.islink(p):
                out.append(os.path.relpath(p, root))
    return sorted(out)


def add_links(root, links):
    import random

    for l in links:
        rng = random.Random(l["seed"])
        dirs = real_dirs(root)      # physical paths only, so that a relative target cannot leave the tree
        if not dirs:
            return
        target = rng.choice(dirs)
        holder = rng.choice([""] + dirs)
        name = os.path.join(root, holder, "lnk%d" % (l["seed"] % 7))
        if (os.path.lexists(name) or os.path.basename(holder) == "workspace" or ".signac" in holder.split("/")
                or ".signac" in target.split("/")):
            continue
        tgt = os.path.join(root, target)
        os.symlink(tgt if l["abs"] else os.path.relpath(tgt, os.path.dirname(name)), name)
        assert os.path.realpath(name).startswith(root + os.sep), (name, os.readlink(name))


# ------------------------------------------------------------------ observation helpers
def parse_cfg(path):
    """raw ConfigObj view: (schema_version, project, workspace_dir) or None when not parseable."""
    from signac._vendor.configobj import ConfigObj

    try:
        c = ConfigObj(path)
        v = c.get("schema_version")
        v = None if v is None else int(v)
        p = c.get("project")
        w = c.get("workspace_dir")
        if (p is not None and not isinstance(p, str)) or (w is not None and not isinstance(w, str)):
            return None
        return (v, p, w)
    except Exception:
        return None


def coq_fdata(path, name, parent_name):
    with open(path, "rb") as fh:
        data = fh.read()
    if (name == "config" and parent_name == ".signac") or name == "signac.rc":
        c = parse_cfg(path)
        if c is not None:
            v, p, w = c
            return "(FCfg {| cv := %s; cproj := %s; cws := %s |})" % (
                coq_opt(None if v is None else coq_Z(v)), coq_opt(None if p is None else coq_str(p)),
                coq_opt(None if w is None else coq_str(w)))
    if name == "signac_project_document.json":
        try:
            from .common import coq_json
            return "(FJson %s)" % coq_json(json.loads(data))
        except Exception:
            pass
    return "(FBytes %s)" % coq_str(data)


def coq_node(path, name="", parent_name=""):
    if os.path.islink(path):
        return "(Link %s)" % coq_str(os.readlink(path))
    if os.path.isdir(path):
        items = ["(%s, %s)" % (coq_str(n), coq_node(os.path.join(path, n), n, name)) for n in sorted(os.listdir(path))]
        return "(Dir %s)" % coq_list(items, "(str * node)")
    return "(File %s)" % coq_fdata(path, name, parent_name)


def byte_snapshot(root):
    """(relpath, kind, bytes / link target) for every entry, links not followed."""
    out = []
    for dp, dns, fns in os.walk(root):
        dns.sort()
        for n in list(dns) + sorted(fns):
            p = os.path.join(dp, n)
            r = os.path.relpath(p, root)
            if os.path.islink(p):
                out.append((r, "l", os.readlink(p)))
            elif os.path.isdir(p):
                out.append((r, "d", ""))
            else:
                with open(p, "rb") as fh:
                    out.append((r, "f", fh.read()))
    out.sort()
    return out


def stat_signature(root):
    """cheap change detector: names + lstat identity of every entry (no file is opened)."""
    out = []
    for dp, dns, fns in os.walk(root):
        for n in dns + fns:
            p = os.path.join(dp, n)
            st = os.lstat(p)
            out.append((p, st.st_mode, st.st_ino, st.st_size, st.st_mtime_ns, st.st_ctime_ns))
    out.sort()
    return out


def in_child(fn, *args):
    """run fn in a forked child (so os.chdir never touches the worker / driver process)."""
    r, w = os.pipe()
    pid = os.fork()
    if pid == 0:
        try:
            os.close(r)
            try:
                data = pickle.dumps(("ok", fn(*args)))
            except BaseException:
                data = pickle.dumps(("err", traceback.format_exc()))
            with os.fdopen(w, "wb") as fh:
                fh.write(data)
        finally:
            os._exit(0)
    os.close(w)
    with os.fdopen(r, "rb") as fh:
        data = fh.read()
    os.waitpid(pid, 0)
    tag, val = pickle.loads(data)
    if tag == "err":
        raise RuntimeError("child failed:\n" + val)
    return val


def check_environment(base):
    p = os.path.dirname(base)
    while True:
        assert not os.path.exists(os.path.join(p, ".signac", "config")) and not os.path.exists(os.path.join(p, "signac.rc")), \
            "a project configuration exists above the scratch directory: " + p
        up = os.path.dirname(p)
        if up == p:
            break
        p = up


# ------------------------------------------------------------------ queries
def make_queries(root, rng, fixed):
    """list of (kind, cwd-rel-or-None, path string builder)"""
    dirs = list_dirs(root)
    phys_dirs = sorted({os.path.relpath(os.path.realpath(os.path.join(root, d)), root) for d in dirs
                        if os.path.realpath(os.path.join(root, d)).startswith(root)})
    phys_dirs = ["" if d == "." else d for d in phys_dirs]
    qs = []
    ghost_id = "".join(rng.choice(HEX) for _ in range(32))
    targets = list(dirs)
    # non-existent paths
    for d in rng.sample(dirs, min(3, len(dirs))):
        targets.append(os.path.join(d, "nope") if d else "nope")
        targets.append(os.path.join(d, ghost_id) if d else ghost_id)
        if os.path.basename(d) == "workspace" or True:
            targets.append(os.path.join(d, ghost_id, "sub") if d else os.path.join(ghost_id, "sub"))
    def special(t):
        """a directory holding .signac/ without a configuration, or a path strictly below a project whose own
        directory is called workspace (both are always queried)."""
        ab = os.path.join(root, t) if t else root
        if os.path.isdir(os.path.join(ab, ".signac")) and not os.path.isfile(os.path.join(ab, ".signac", "config")):
            return True
        parts = t.split("/") if t else []
        return any(parts[i] == "workspace" and os.path.isfile(os.path.join(root, *parts[:i + 1], ".signac", "config"))
                   for i in range(len(parts) - 1))

    if len(targets) > 14 and not fixed:
        sp = [i for i, t in enumerate(targets) if special(t)]
        keep = set(sp if len(sp) <= 6 else rng.sample(sp, 6))
        rest = [i for i in range(len(targets)) if i not in keep]
        keep |= set(rng.sample(rest, 14 - len(keep)))
        targets = [t for i, t in enumerate(targets) if i in keep]
    for t in targets:
        ab = os.path.join(root, t) if t else root
        kinds = [("P", True), ("P", False), ("J", None)]
        for k in kinds:
            qs.append((k, None, ab))
        # relative to other working directories
        for cwd in rng.sample(phys_dirs, min(1 if not fixed else 2, len(phys_dirs))):
            cw = os.path.join(root, cwd) if cwd else root
            rel = os.path.relpath(ab, cw)
            qs.append((rng.choice(kinds), cwd, rel))
        # from inside the directory itself
        if os.path.isdir(ab):
            here = os.path.relpath(os.path.realpath(ab), root)
            if not here.startswith(".."):
                here = "" if here == "." else here
                k = rng.choice(kinds)
                qs.append((k, here, rng.choice([".", None, "./"])))
        # raw decorated forms
        if rng.random() < 0.5:
            deco = rng.choice(["/", "/.", "/..", "/../.", "//", "/./"])
            form = ab + deco if deco != "//" else "/" + ab
            qs.append((rng.choice(kinds), None, form))
        # init_project on every existing project
        if os.path.isfile(os.path.join(ab, ".signac", "config")):
            qs.append((("I", None), None, ab))
            cwd = rng.choice(phys_dirs)
            cw = os.path.join(root, cwd) if cwd else root
            qs.append((("I", None), cwd, os.path.relpath(ab, cw)))
    # init_project on a few non-projects / legacy / non-existent paths, and on the directories that hold a
    # `.signac/` without configuration (re-init of a dissolved project, retry of a failed init)
    others = [t for t in targets if not os.path.isfile(os.path.join(root, t, ".signac", "config"))]
    chosen = rng.sample(others, min(3, len(others)))
    chosen += [t for t in others if t not in chosen and os.path.isdir(os.path.join(root, t, ".signac"))][:3]
    for t in chosen:
        qs.append((("I", None), None, os.path.join(root, t) if t else root))
    return qs


def run_queries(root, pristine, queries):
    import signac

    before = byte_snapshot(root)
    sig = stat_signature(root)
    out = []
    for (kind, arg), cwd, path in queries:
        cw = os.path.join(root, cwd) if cwd else root
        os.chdir(cw if cwd is not None else os.path.dirname(root))
        real_cwd = os.getcwd()
        try:
            if kind == "P":
                p = signac.get_project(path, search=arg)
                res = ("root", p.path)
            elif kind == "J":
                j = signac.get_job(path)
                res = ("job", j.project.path, j.id)
            else:
                p = signac.init_project(path)
                res = ("root", p.path)
        except Exception as e:
            res = ("err", exn_name(e), type(e).__name__)
        os.chdir(os.path.dirname(root))
        after = before
        touched = stat_signature(root) != sig     # nothing was created, removed or written otherwise
        if touched:
            after = byte_snapshot(root)
        changed = after != before
        post = None
        if changed:
            post = coq_node(root)
        if touched:
            shutil.rmtree(root)
            shutil.copytree(pristine, root, symlinks=True)
            assert byte_snapshot(root) == before
            sig = stat_signature(root)
        out.append({"kind": kind, "arg": arg, "cwd": real_cwd, "path": path if path is not None else real_cwd,
                    "none": path is None, "res": res, "changed": changed, "post": post,
                    "diff": [r for r in sorted(set(after) ^ set(before))][:6] if changed else []})
    return out


def based(s, base):
    """Gallina string, written as B ++ suffix when it starts with the scratch base."""
    if s == base:
        return "B"
    if s.startswith(base + "/"):
        return "(B ++ %s)" % coq_str(s[len(base):])
    return coq_str(s)


def count_kind(e, k):
    n = 1 if e.get("k") == k else 0
    for c in e.get("ch", []):
        n += count_kind(c, k)
    for j in e.get("jobs", []):
        n += (1 if j.get("k") == k else 0)
        for c in j.get("ch", []):
            n += count_kind(c, k)
    return n


def run_case(desc):
    import random

    t = desc["tree"]
    with scratch_dir("c19") as d:
        d = os.path.realpath(d)
        check_environment(d)
        root = os.path.join(d, "t")
        pristine = os.path.join(d, "pristine")

        def work():
            os.makedirs(root)
            build_entry(root, dict(t["top"], name=""), root)
            add_links(root, t["links"])
            shutil.copytree(root, pristine, symlinks=True)
            tree = coq_node(root)
            rng = random.Random(t["qseed"])
            qs = make_queries(root, rng, desc.get("fixed", False))
            return tree, run_queries(root, pristine, qs)

        tree, obs = in_child(work)
    qlits = []
    for o in obs:
        kind = {"P": "(QProject %s)" % coq_bool(bool(o["arg"])), "J": "QJob", "I": "QInit"}[o["kind"]]
        r = o["res"]
        if r[0] == "root":
            res = "(RRoot %s)" % based(r[1], root)
        elif r[0] == "job":
            res = "(RJob %s %s)" % (based(r[1], root), coq_str(r[2]))
        else:
            res = "(RErr %s)" % r[1]
        qlits.append("{| q_kind := %s; q_cwd := %s; q_path := %s; q_res := %s; q_changed := %s; q_post := %s |}" % (
            kind, based(o["cwd"], root), based(o["path"], root), res, coq_bool(o["changed"]), coq_opt(o["post"])))
    coq = "(let B := %s in {| c19_base := B; c19_tree := %s; c19_qs := %s |})" % (
        coq_str(root), tree, coq_list(qlits, "query"))
    nproj = count_kind(t["top"], "proj")
    njobs = sum(1 for o in obs if o["res"][0] == "job")
    kinds = ["odd-layout" if t.get("odd") else "layout-ok"]
    kinds += ["queries"] * 0
    hist = {}
    for o in obs:
        hist[o["kind"] + ":" + o["res"][0]] = hist.get(o["kind"] + ":" + o["res"][0], 0) + 1
    for o in obs:
        o.pop("post", None)
        o["cwd"] = os.path.relpath(o["cwd"], root)
        o["path"] = o["path"] if not o["path"].startswith(root) else "<T>" + o["path"][len(root):]
        if o["res"][0] in ("root", "job"):
            o["res"] = [o["res"][0], "<T>" + o["res"][1][len(root):]] + list(o["res"][2:])
        o["diff"] = [[a, b, (c if isinstance(c, str) else c.hex())] for a, b, c in o["diff"]]
    return Case(coq, desc, obs={"queries": len(obs), "by_kind": hist, "sample": obs[:200]},
                nontrivial=(nproj >= 2 or njobs > 0), key=json.dumps(t, sort_keys=True),
                kinds=kinds + ["nested-projects" if nproj >= 2 else "single-or-none"])


def search(desc):
    """neighbours of a disagreeing tree: each top-level entry alone, jobs stripped to one."""
    t = desc["tree"]
    out = []
    top = t["top"]
    for c in top.get("ch", []):
        out.append({"tree": dict(t, top=dict(top, ch=[c]), links=[])})
    for j in top.get("jobs", []):
        out.append({"tree": dict(t, top=dict(top, jobs=[j], ch=[]), links=[])})
    if t["links"]:
        out.append({"tree": dict(t, links=[])})
    return out[:8]
