"""C10 — documents and the state point cache file are replaced atomically."""
import errno
import gzip
import json
import os
import shutil

from .common import Case, coq_bool, coq_list, coq_N, coq_nat, coq_opt, scratch_dir
from .interpose import CrashPoint, Interposer, norm_tmp

PROP = "C10"
IMPORTS = "Base Atomic CorrC10"
CASE_TYPE = "case_C10"
MISMATCHES = "mismatches_C10"
VIOLATIONS = "violations_C10"
KNOWN = "known_C10"
SHARD = 40
RULE = ("scenarios: job document / project document writes (old document absent, {}, small, > 8 KiB and > 64 KiB), "
        "flushes of signac.buffered() blocks over 1-3 jobs (also forced flushes by a small capacity), buffered blocks that "
        "interleave document modifications with doc-filtered find_jobs / len / iteration / groupby('doc.x') on the same "
        "jobs, document writes through unpickled / copy.copy / copy.deepcopy Job and Project objects (document "
        "accessed or not before cloning), document writes through / after lifecycle methods of a Job object (Job.clear / Job.reset; "
        "writes after a state point change - by attribute, update_statepoint, assignment, through a shallow copy -, after "
        "remove() and init(force=True); document handle opened before the lifecycle call or not; object by id / iteration / "
        "get_job / state point), whole assignments `project.doc = {...}` / `job.document = {...}` over non-empty "
        "documents judged as ONE replacement (all write episodes of the call together: content before or after the call, "
        "nothing in between), Job.sync / Project.sync (doc_sync ByKey / update) into existing jobs with and without a "
        "document (the `<doc>~` roll-back copy counts as a temp file), the document "
        "Project.sync(COPY) between projects with different project documents, permission bits of the existing document / cache file "
        "(as created, 0600, 0644, 0664, 0666) and process umask (as is, 002, 022, 077) varied, write of the v1->v2 migration (also with a custom workspace directory and a v1 cache file that is MOVED to its v2 name), Project.update_cache() on growing and shrinking workspaces (3..400 jobs; "
        "gzip stream in several chunks), update_cache() with an injected OSError at every call of the stream "
        "(clean-up branch), and the raw JSON backend with write_concern False/True; each with JSON thread support "
        "forced ON, forced OFF and AS SHIPPED (the class flags a fresh `import signac` of the tree under test leaves).  Per write episode (open .. rename/close) one case: the interposer's mutation trace "
        "(self-checked by replay), every crash prefix x torn offset {1, mid, len-1} materialised and the target "
        "read back with the real json / gzip+json loaders, a reader (real descriptors) opened at every position and "
        "read at every later position, a forked signac reader at every position.  Write episodes are formed per open "
        "file (inode attribution: writes after a rename belong to the renamed file; the episode ends at the last "
        "entry of the descriptor); any entry on a document/cache/temp name outside the episodes, any entry the model "
        "translation does not consume, a failed replay self-check, a scenario without a write and a fault-case count "
        "different from the try body's length are emitted as mismatching cases; input_distribution['scenarios-"
        "attempted'] counts scenarios (quick 213, thorough 336), every scenario yields >= 1 case or a harness error.  non-trivial: the old file "
        "exists or the write has >= 1 chunk of >= 2 bytes; distinct by (scenario, episode)")
TRUSTED = [
    "os.replace is atomic w.r.t. concurrent open; a crash preserves the order of completed calls; an open file keeps its inode",
    "the interposer (completeness self-check: replaying the trace on the pre-state reproduces the post-state byte for byte)",
    "contents are abstracted to chunk ids before they reach Coq; the old/new/torn/empty/missing class of a read-back "
    "is computed by the harness with the real loaders, the decision old-or-new-only is taken in Coq",
]
ASSUMPTIONS = ["single writer per file; power loss / write-back reordering out of scope (as in the property)"]

MODES = [None, 0o664, 0o600, 0o666, 0o644]     # None: as created under the sandbox's umask
UMASKS = [None, 0o002, 0o077, 0o022]
DOC_NAMES = ("signac_job_document.json", "signac_project_document.json", "statepoint_cache.json.gz")


# ------------------------------------------------------------------ scenarios
def _doc(size, salt):
    if size == "absent":
        return None
    if size == "empty":
        return {}
    if size == "small":
        return {"a": salt, "b": [1, 2.5, None], "c": {"d": "é"}}
    n = 300 if size == "large" else 2500
    return {"k%d" % i: "v" * 20 + str(salt) + "-" + str(i) for i in range(n)}


def _set_threads(on):
    import signac
    from synced_collections.backends import collection_json as cj

    for cls in (signac.JSONDict, cj.JSONAttrDict, cj.BufferedJSONAttrDict, cj.JSONDict, cj.BufferedJSONDict):
        (cls.enable_multithreading if on else cls.disable_multithreading)()
    try:
        from signac.job import _StatePointDict
        (_StatePointDict.enable_multithreading if on else _StatePointDict.disable_multithreading)()
    except Exception:  # noqa: BLE001
        pass


# --- the configuration "as shipped" (copied from harness/c12.py, crash-builder): what `import signac` sets up
_CLASSES = ("signac.JSONDict", "cj.JSONAttrDict", "cj.BufferedJSONAttrDict", "cj.JSONDict", "cj.BufferedJSONDict", "_StatePointDict")
_SHIPPED = []


def shipped_threads():
    """Thread-support flags of the JSON classes exactly as `import signac` leaves them in a FRESH interpreter of
    the tree under test (this process has toggled them for the ON / OFF configurations)."""
    if not _SHIPPED:
        import subprocess
        import sys
        code = ("import json, signac\nfrom signac.job import _StatePointDict\n"
                "from synced_collections.backends import collection_json as cj\n"
                "print(json.dumps([bool(c._threading_support_is_active) for c in (%s)]))" % ", ".join(_CLASSES))
        out = subprocess.run([sys.executable, "-c", code], capture_output=True, text=True, timeout=300, check=True).stdout
        _SHIPPED.append(json.loads(out.strip().splitlines()[-1]))
    return _SHIPPED[0]


def apply_threads(flags):
    """Re-establish exactly these flags, touching nothing else."""
    import signac
    from signac.job import _StatePointDict
    from synced_collections.backends import collection_json as cj

    classes = (signac.JSONDict, cj.JSONAttrDict, cj.BufferedJSONAttrDict, cj.JSONDict, cj.BufferedJSONDict, _StatePointDict)
    for cls, on in zip(classes, flags):
        (cls.enable_multithreading if on else cls.disable_multithreading)()


def _write_plain(path, doc):
    with open(path, "wb") as fh:
        fh.write(json.dumps(doc).encode())


def build(desc, root):
    """Set the scene up (not traced) and return (site, act) where act() performs the traced writes."""
    import signac

    kind = desc["kind"]
    if kind in ("jobdoc", "projectdoc"):
        project = signac.init_project(path=root)
        job = project.open_job({"a": 1}).init()
        target = os.path.join(job.path, "signac_job_document.json") if kind == "jobdoc" else os.path.join(root, "signac_project_document.json")
        old = _doc(desc["old"], 0)
        if old is not None:
            _write_plain(target, old)
            if desc.get("mode") is not None:
                os.chmod(target, desc["mode"])     # permission bits of the existing document (private .. group/world writable)
        new = _doc(desc["new"], 1)
        how = desc.get("how", "reset")

        def act(tracing):
            p2 = signac.get_project(root)
            d = p2.open_job(id=job.id).document if kind == "jobdoc" else p2.document
            with tracing():
                if how == "reset":
                    d.reset(new)
                elif how == "assign":
                    # whole assignment through the owner's setter: project.doc = {...} / job.document = {...}
                    owner = p2.open_job(id=job.id) if kind == "jobdoc" else p2
                    if desc.get("alias", True):
                        owner.doc = new
                    else:
                        owner.document = new
                elif how == "update":
                    d.update(new)
                else:
                    d["extra_key"] = new
        return ("SJobDoc" if kind == "jobdoc" else "SProjectDoc"), act
    if kind == "lifecycle":
        # document writes reached through (or after) lifecycle methods of a Job object: Job.clear() / Job.reset() (for the
        # document they are document.clear()), and writes through a Job object AFTER its state point was changed (the
        # directory moved, the document handle is re-created) or after remove() - with the document handle opened
        # before the lifecycle call or not, through the object itself or a shallow copy of it
        import copy
        project = signac.init_project(path=root)
        job = project.open_job({"a": 1}).init()
        old = _doc(desc["old"], 0)
        if old is not None:
            _write_plain(os.path.join(job.path, "signac_job_document.json"), old)
        new = _doc(desc["new"], 1)

        def act(tracing):
            p2 = signac.get_project(root)
            obtain = desc.get("obtain", "id")
            if obtain == "id":
                j = p2.open_job(id=job.id)
            elif obtain == "iter":
                j = next(iter(p2))
            elif obtain == "getjob":
                j = signac.get_job(job.path)
            else:
                j = p2.open_job({"a": 1})
            if desc["accessed"]:
                j.document()                       # the document handle exists before the lifecycle call
            w = j
            pre = desc["pre"]
            if pre == "copy-rekey":
                w = copy.copy(j)                   # the change is made through a shallow copy, the write through j
                w.sp.b = 2
                w = j
            elif pre == "rekey-attr":
                j.sp.b = 2
            elif pre == "rekey-update":
                j.update_statepoint({"b": 2})
            elif pre == "rekey-assign":
                j.statepoint = {"a": 1, "b": 2}
            elif pre == "remove":
                j.remove()
            elif pre == "reinit":
                j.init(force=True)
            write = desc["write"]
            if write == "buffered":
                with tracing(), signac.buffered():
                    w.doc["extra_key"] = new
            else:
                with tracing():
                    if write == "jobclear":
                        w.clear()
                    elif write == "jobreset":
                        w.reset()
                    elif write == "reset":
                        w.document.reset(new)
                    elif write == "assign":
                        w.doc = new
                    else:
                        w.doc["extra_key"] = new
        return "SJobDoc", act
    if kind == "flush":
        project = signac.init_project(path=root)
        jobs = [project.open_job({"a": i}).init() for i in range(desc["njobs"])]
        for i, j in enumerate(jobs):
            if i % 2 == 0:
                _write_plain(os.path.join(j.path, "signac_job_document.json"), _doc("small", i))

        def act(tracing):
            p2 = signac.get_project(root)
            js = [p2.open_job(id=j.id) for j in jobs]
            with tracing(), signac.buffered(desc.get("cap")):
                for r in range(desc["rounds"]):
                    for i, j in enumerate(js):
                        j.doc["r%d" % r] = {"i": i, "pad": "x" * desc.get("pad", 5)}
                    if desc.get("project"):
                        p2.doc["round"] = r
        return "SFlush", act
    if kind == "clone":
        # a document write through an unpickled / copied Job or Project object
        import copy
        import pickle
        project = signac.init_project(path=root)
        job = project.open_job({"a": 1}).init()
        onjob = desc["on"] == "job"
        target = os.path.join(job.path, "signac_job_document.json") if onjob else os.path.join(root, "signac_project_document.json")
        old = _doc(desc["old"], 0)
        if old is not None:
            _write_plain(target, old)
        new = _doc(desc["new"], 1)

        def act(tracing):
            p2 = signac.get_project(root)
            obj = p2.open_job(id=job.id) if onjob else p2
            if desc["accessed"]:
                obj.document()                     # the document handle exists before the object is cloned
            via = desc["via"]
            if via == "pickle":
                clone = pickle.loads(pickle.dumps(obj))
            elif via == "copy":
                clone = copy.copy(obj)
            else:
                clone = copy.deepcopy(obj)
            if desc.get("buffered"):
                with tracing(), signac.buffered():
                    clone.document["extra_key"] = new
            else:
                with tracing():
                    if desc.get("how", "set") == "reset":
                        clone.document.reset(new)
                    else:
                        clone.document["extra_key"] = new
        return ("SJobDoc" if onjob else "SProjectDoc"), act
    if kind == "flushquery":
        # a buffered block that interleaves document modifications with searches / iteration over the same jobs
        project = signac.init_project(path=root)
        jobs = [project.open_job({"a": i}).init() for i in range(desc["njobs"])]
        for i, j in enumerate(jobs):
            if i % 2 == 0:
                _write_plain(os.path.join(j.path, "signac_job_document.json"), {"x": i, "old": True})

        def act(tracing):
            p2 = signac.get_project(root)
            js = [p2.open_job(id=j.id) for j in jobs]
            order = desc.get("order", "modify-first")
            with tracing(), signac.buffered(desc.get("cap")):
                for r in range(desc["rounds"]):
                    if order == "query-first":
                        list(p2.find_jobs({"doc.x": r}))
                    for i, j in enumerate(js):
                        j.doc["x"] = i + r
                        j.doc["r%d" % r] = {"pad": "y" * desc.get("pad", 5)}
                    q = desc["queries"]
                    if "find" in q:
                        list(p2.find_jobs({"doc.x": r}))
                        list(p2.find_jobs({"doc.r%d.pad" % r: {"$exists": True}}))
                    if "len" in q:
                        len(p2.find_jobs({"doc.x": {"$gte": 0}}))
                        len(p2)
                    if "iter" in q:
                        for jj in p2:
                            jj.doc.get("x")
                    if "groupby" in q:
                        for _key, grp in p2.groupby("doc.x"):
                            list(grp)
                    if desc.get("project"):
                        p2.doc["round"] = r
        return "SFlush", act
    if kind == "sync":
        # document writers outside the document API: Job.sync / Project.sync / Project.clone / import_from
        from signac.sync import DocSync, FileSync
        src_root = os.path.join(os.path.dirname(root), "src-" + os.path.basename(root))
        project = signac.init_project(path=root)
        source = signac.init_project(path=src_root)
        sjobs = [source.open_job({"a": i}).init() for i in range(desc.get("njobs", 2))]
        for i, sj in enumerate(sjobs):
            _write_plain(os.path.join(sj.path, "signac_job_document.json"), {"src": i, "blob": "s" * desc.get("pad", 10), "k%d" % i: [1, 2]})
            with open(os.path.join(sj.path, "data.txt"), "w") as fh:
                fh.write("payload %d" % i)
        if desc.get("project_doc"):
            _write_plain(os.path.join(src_root, "signac_project_document.json"), {"psrc": 1})
            _write_plain(os.path.join(root, "signac_project_document.json"), {"pdst": 0})
        if desc["dst"] != "missing":
            for i, sj in enumerate(sjobs):
                dj = project.open_job(sj.statepoint()).init()
                if desc["dst"] == "with-doc":
                    _write_plain(os.path.join(dj.path, "signac_job_document.json"), {"dst": i, "old": True})
        def raising_doc_sync(src_doc, dst_doc):
            # a doc_sync that modifies the destination and then fails: sync restores the document from its `<doc>~` copy
            dst_doc["partial"] = [1, 2, 3]
            raise RuntimeError("doc_sync failed")

        mode = {"bykey": DocSync.ByKey(), "update": DocSync.update, "copy": DocSync.COPY, "no_sync": DocSync.NO_SYNC,
                "raising": raising_doc_sync}[desc["doc_sync"]]

        def act(tracing):
            p2 = signac.get_project(root)
            s2 = signac.get_project(src_root)
            with tracing():
                api = desc["api"]
                if api == "job":
                    for sj in s2:
                        try:
                            p2.open_job(sj.statepoint()).init().sync(sj, strategy=FileSync.always, doc_sync=mode)
                        except RuntimeError:
                            if desc["doc_sync"] != "raising":
                                raise
                elif api == "project":
                    p2.sync(s2, strategy=FileSync.always, doc_sync=mode)
                elif api == "clone":
                    for sj in s2:
                        p2.clone(sj)
                elif api == "import":
                    p2.import_from(src_root)
        return "SFlush", act
    if kind == "migration":
        # v1 layout; optionally with a custom workspace directory and the v1 state point cache file, which the migration
        # MOVES to its v2 name (one rename of a complete file: the cache file appears atomically)
        os.makedirs(os.path.join(root, "ws_old" if desc.get("custom_ws") else "workspace"))
        with open(os.path.join(root, "signac.rc"), "w") as fh:
            fh.write("project = myproject\nschema_version = 1\n" + ("workspace_dir = ws_old\n" if desc.get("custom_ws") else ""))
        if desc.get("v1cache"):
            with gzip.open(os.path.join(root, ".signac_sp_cache.json.gz"), "wb") as fh:
                fh.write(json.dumps({"%032x" % i: {"i": i} for i in range(5)}).encode())
        if desc.get("olddoc"):
            _write_plain(os.path.join(root, "signac_project_document.json"), {"existing": 1})

        def act(tracing):
            import contextlib
            import io as _io
            from signac.migration import apply_migrations
            with tracing(), contextlib.redirect_stderr(_io.StringIO()):
                apply_migrations(root)
        return "SMigration", act
    if kind == "cache":
        project = signac.init_project(path=root)
        mk = lambda i: {"i": i, "h": "%032x" % (i * 0x9E3779B97F4A7C15 % 2 ** 128), "s": desc.get("salt", "")}  # noqa: E731
        for i in range(desc["n0"]):
            project.open_job(mk(i)).init()
        if desc["n0"] and desc.get("precache", True):
            project.update_cache()
            if desc.get("mode") is not None:
                # permission bits of the existing cache file (a project shared in a unix group: g+w)
                os.chmod(os.path.join(root, ".signac", "statepoint_cache.json.gz"), desc["mode"])
        if desc.get("stale_tmp"):
            with open(os.path.join(root, ".signac", "statepoint_cache.json.gz~"), "wb") as fh:
                fh.write(b"stale")

        def act(tracing):
            p2 = signac.get_project(root)
            for i in range(desc["n0"], desc["n1"]):
                p2.open_job(mk(i)).init()
            for i in range(desc.get("remove", 0)):
                p2.open_job(mk(i)).remove()
            with tracing():
                p2.update_cache()
        return "SCache", act
    if kind == "raw":
        from synced_collections.backends.collection_json import BufferedJSONAttrDict

        target = os.path.join(root, "signac_job_document.json")
        old = _doc(desc["old"], 0)
        if old is not None:
            _write_plain(target, old)
        new = _doc(desc["new"], 1)

        def act(tracing):
            with tracing():
                BufferedJSONAttrDict(filename=target, write_concern=desc["write_concern"]).reset(new)
        return ("SRawAtomic" if desc["write_concern"] else "SRawDirect"), act
    raise AssertionError(kind)


# ------------------------------------------------------------------ reading back
def load_real(name, data):
    """The loader the implementation uses for this file; raises on damaged data."""
    if name.endswith(".gz"):
        return json.loads(gzip.decompress(data).decode())
    return json.loads(data.decode())


def classify(name, data, old_b, new_b):
    if data is None:
        return "OOld" if old_b is None else "OMissing"
    if old_b is not None and data == old_b:
        return "OOld"
    if data == new_b:
        return "ONew"
    if data == b"":
        return "OEmpty"
    try:
        v = load_real(name, data)
    except Exception:  # noqa: BLE001
        return "OTorn"
    try:
        if old_b is not None and v == load_real(name, old_b):
            return "OOld"
        if v == load_real(name, new_b):
            return "ONew"
    except Exception:  # noqa: BLE001
        pass
    return "OTorn"


def read_file(path):
    try:
        with open(path, "rb") as fh:
            return fh.read()
    except FileNotFoundError:
        return None


def fork_read(desc, root, ip):
    """A reader in another process, through signac's own API: returns the document as JSON text."""
    r, w = os.pipe()
    pid = os.fork()
    if pid == 0:
        out = "EXC:?"
        try:
            ip.active = False
            os.close(r)
            import signac
            p = signac.get_project(root)
            if desc["kind"] == "jobdoc":
                out = json.dumps(next(iter(p)).document(), sort_keys=True)
            else:
                out = json.dumps(p.document(), sort_keys=True)
        except BaseException as e:  # noqa: BLE001
            out = "EXC:%s" % type(e).__name__
        finally:
            try:
                os.write(w, out.encode())
            finally:
                os._exit(0)
    os.close(w)
    chunks = []
    while True:
        c = os.read(r, 1 << 16)
        if not c:
            break
        chunks.append(c)
    os.close(r)
    os.waitpid(pid, 0)
    return b"".join(chunks).decode()


# ------------------------------------------------------------------ episodes
def is_tmp_of(base, target_base):
    return norm_tmp(base) == "._TMP_" + target_base or base == target_base + "~"


def episodes(muts):
    """Write episodes, by open file (inode attribution): for every create-open at index a the episode is
    (a, b, target, fid) where b is the LAST entry that concerns the opened file — its writes/truncates/close
    (wherever the inode is named by then) and the renames of the name it currently has — and target is the
    name the inode ends up with (the rename destination of the temp-file protocol, else the opened name)."""
    out = []
    for a, op in enumerate(muts):
        if op.op != "open" or not op.flags.get("creat"):
            continue
        cur, end = op.path, a
        for k in range(a + 1, len(muts)):
            o = muts[k]
            if o.fid == op.fid:
                end = k
                if o.op == "close":
                    # a rename of the closed file still belongs to the protocol; look on until the name is reused
                    for k2 in range(k + 1, len(muts)):
                        o2 = muts[k2]
                        if o2.op == "rename" and o2.path == cur:
                            cur, end = o2.path2, k2
                            break
                        if o2.op in ("open", "unlink") and o2.path == cur:
                            break
                    break
            elif o.op == "rename" and o.path == cur:
                cur, end = o.path2, k
        out.append((a, end, cur, op.fid))
    return out


def name_map(target, relpaths):
    d, b = os.path.split(target)
    m = {target: 0}
    nxt = 2
    for p in relpaths:
        if p is None or p in m or os.path.dirname(p) != d:
            continue
        if is_tmp_of(os.path.basename(p), b):
            m[p] = 1
        else:
            m[p] = min(nxt, 3)
            nxt += 1
    return m


def coq_bytes(b):
    return coq_list([coq_N(x) for x in b], "N")


def abstract_chunk(i, n):
    return [] if n == 0 else ([10 + i] if n == 1 else [10 + i, 10 + i])


def to_wsteps(ops, m, fid=None):
    """Translate the recorded ops of one episode to Atomic.wstep literals, names through m; returns
    (steps, chunks, unconsumed).  Writes/closes are attributed to the open file: the model's WAppend goes
    through the writer's descriptor, so a write after the rename lands in the renamed inode there as well.
    `unconsumed` lists entries that have no counterpart in the model (broken correspondence)."""
    steps, chunks, unconsumed = [], [], []
    for o in ops:
        mine = (o.fid == fid) if (fid is not None and o.fid is not None) else (o.path in m)
        if o.op == "open":
            if o.path in m and (o.flags.get("trunc") or not o.flags.get("existed", True)):
                steps.append("(WOpen %s)" % coq_N(m[o.path]))
            elif o.path in m:
                unconsumed.append(o.brief())
        elif o.op == "write":
            if mine:
                c = abstract_chunk(len(chunks), len(o.data))
                chunks.append(c)
                steps.append("(WAppend %s)" % coq_bytes(c))
            elif o.cur in m or o.path in m:
                unconsumed.append(o.brief())
        elif o.op == "close":
            if mine:
                steps.append("WClose")
        elif o.op == "rename":
            if o.path in m and o.path2 in m:
                steps.append("(WRename %s %s)" % (coq_N(m[o.path]), coq_N(m[o.path2])))
            elif o.path in m or o.path2 in m:
                unconsumed.append(o.brief())
        elif o.op == "unlink":
            if o.path in m:
                steps.append("(WUnlink %s)" % coq_N(m[o.path]))
        elif o.op == "truncate":
            if mine or o.path in m:
                unconsumed.append(o.brief())
    return steps, chunks, unconsumed


def dir_entries(root, d):
    p = os.path.join(root, d)
    return set(os.listdir(p)) if os.path.isdir(p) else set()


# ------------------------------------------------------------------ one scenario
def run_scenario(desc, work):
    """Returns a list of Cases (one per write episode of a document / cache file)."""
    thr = desc.get("threads", True)
    cases = []
    if thr == "shipped":
        # the configuration users get: the flags of a fresh `import signac` of the tree under test
        flags = desc.get("shipped_flags") or shipped_threads()
        apply_threads(flags)
        desc = dict(desc, shipped_flags=list(flags))
        thr_model = bool(flags[2])          # BufferedJSONAttrDict: the class of documents and of the raw scenarios
    else:
        _set_threads(thr)
        thr_model = bool(thr)
    umask0 = os.umask(desc["umask"]) if desc.get("umask") is not None else None
    try:
        root = os.path.join(work, "p")
        os.makedirs(root)
        site, act = build(desc, root)
        pre = os.path.join(work, "pre")
        ip = Interposer(root, pre_dir=pre)

        def tracing():
            shutil.copytree(root, pre, symlinks=True)     # the pre-state is the state when tracing starts
            return ip
        act(tracing)
        broken = ip.check_complete(work)
        muts = ip.mutations()
        eps_all = episodes(muts)
        eps = [(a, b, t) for a, b, t, _ in eps_all if os.path.basename(t) in DOC_NAMES]
        ep_fid = {(a, b, t): fid for a, b, t, fid in eps_all}
        # no entry that touches a document / cache file (or one of its temp names) may fall outside the episodes
        # a whole assignment (`project.doc = {...}`, `job.document = {...}`, reset) is ONE replacement of the document:
        # all write episodes of the target are judged together against the content before and after the operation
        if desc.get("single_op") and len(eps) > 1:
            merged = {}
            for a, b, t in eps:
                m0 = merged.setdefault(t, [a, b])
                m0[0], m0[1] = min(m0[0], a), max(m0[1], b)
            eps = sorted((a, b, t) for t, (a, b) in merged.items())
            for a, b, t in eps:
                ep_fid[(a, b, t)] = None          # several descriptors: the translation goes by name
        covered = set()
        for a, b, _ in eps:
            covered.update(range(a, b + 1))
        # a side file under a temp name of a document that never becomes the document (the `<doc>~` backup that
        # sync keeps for its roll-back) is not a document write; it only counts as a stray temp file in the crash states
        for a, b, t, _ in eps_all:
            bt = os.path.basename(t)
            if any(is_tmp_of(bt, n) for n in DOC_NAMES):
                covered.update(range(a, b + 1))

        def doc_related(p):
            if p is None:
                return False
            base = os.path.basename(p)
            return base in DOC_NAMES or any(is_tmp_of(base, n) for n in DOC_NAMES)
        def only_side_file(o):
            # metadata / removal of a side file under a temp name (never of the document or cache file itself)
            names = [p for p in (o.path, o.path2, o.cur) if p is not None]
            if o.op in ("utime", "chmod"):
                return True                      # mode / time stamps only, the content is not touched
            return o.op == "unlink" and not any(os.path.basename(p) in DOC_NAMES for p in names)
        def whole_file_move(o):
            # a complete file that was not written in this trace is given the document's / cache file's name by ONE
            # rename (the v1->v2 migration moves the old cache file into .signac/): atomic by the trusted base, not a
            # write of content; anything else that brings content under such a name is a write episode
            return (o.op == "rename" and not doc_related(o.path) and o.path2 is not None
                    and os.path.basename(o.path2) in DOC_NAMES)
        for n, o in enumerate(muts):
            if n not in covered and not only_side_file(o) and not whole_file_move(o) and (doc_related(o.path) or doc_related(o.path2) or doc_related(o.cur)):
                broken = broken + ["entry outside every write episode: " + o.brief()]
        # ---- second, identical run with readers: descriptors opened at every position, read at every later one
        readers = {}   # target -> {(i, j): bytes|None}, positions = number of completed mutations
        signac_reads = []  # (position, outcome of a forked process reading through signac)
        if eps and desc.get("readers", True):
            root2 = os.path.join(work, "q", "p")
            os.makedirs(root2)
            site2, act2 = build(desc, root2)
            targets = sorted({t for _, _, t in eps})
            held = []          # (event index, {target: fd|None})
            raw = {}           # target -> {(event_i, event_j): bytes|None}
            forked = []        # (event index, json text | None)

            def before(k, op, rel, rel2):
                fds = {}
                for t in targets:
                    try:
                        fds[t] = os.open(os.path.join(root2, t), os.O_RDONLY)
                    except FileNotFoundError:
                        fds[t] = None
                held.append((k, fds))
                for (ki, fi) in held:
                    for t in targets:
                        raw.setdefault(t, {})[(ki, k)] = None if fi[t] is None else os.pread(fi[t], 1 << 26, 0)
                if desc["kind"] in ("jobdoc", "projectdoc"):
                    forked.append((k, fork_read(desc, root2, ip2)))

            ip2 = Interposer(root2, before=before, keep_pre=False)
            act2(lambda: ip2)
            before(1 << 60, "end", None, None)
            for _, fds in held:
                for f in fds.values():
                    if f is not None:
                        os.close(f)
            muts2 = ip2.mutations()
            pos = lambda e: sum(1 for o in muts2 if o.index < e)   # noqa: E731
            for t in targets:
                for (ei, ej), data in raw.get(t, {}).items():
                    readers.setdefault(t, {})[(pos(ei), pos(ej))] = data
            signac_reads = [(pos(e), txt) for e, txt in forked]
            if [o.brief() for o in muts2] != [o.brief() for o in muts]:
                broken = broken + ["second run recorded a different trace"]
        # ---- crash states of the whole trace
        cps = ip.crash_points()
        crash_reads = []    # per crash point: {target: bytes|None}, {dir: entries}
        targets = sorted({t for _, _, t in eps})
        dirs = sorted({os.path.dirname(t) for t in targets})
        for n, cp in enumerate(cps):
            if not any(a <= cp.nops <= b + 1 for a, b, _ in eps):
                crash_reads.append(None)
                continue
            dest = os.path.join(work, "cs")
            ip.materialise(cp, dest)
            crash_reads.append(({t: read_file(os.path.join(dest, t)) for t in targets},
                                {d: dir_entries(dest, d) for d in dirs}))
            shutil.rmtree(dest)
        for (a, b, t) in eps:
            idx = [n for n, cp in enumerate(cps) if a <= cp.nops <= b + 1 and not (cp.nops == b + 1 and cp.torn is not None)]
            n_a = next(n for n, cp in enumerate(cps) if cp.nops == a and cp.torn is None)
            n_b = next(n for n, cp in enumerate(cps) if cp.nops == b + 1 and cp.torn is None)
            old_b, new_b = crash_reads[n_a][0][t], crash_reads[n_b][0][t]
            d, base = os.path.split(t)
            ops = muts[a:b + 1]
            m = name_map(t, [o.path for o in ops] + [o.path2 for o in ops])
            before_entries = crash_reads[n_a][1][d]

            def extra(entries):
                out = []
                for e in sorted(entries - before_entries):
                    if e == base:
                        continue
                    p = os.path.join(d, e)
                    out.append(m.get(p, 1 if is_tmp_of(e, base) else 3))
                return sorted(set(out))

            crash = [(classify(base, crash_reads[n][0][t], old_b, new_b), extra(crash_reads[n][1][d])) for n in idx]
            final = crash[-1] if idx and idx[-1] == n_b else (classify(base, new_b, old_b, new_b), [])
            rd = []
            for (i, j), data in sorted(readers.get(t, {}).items()):
                if a <= i <= j <= b + 1:
                    rd.append(classify(base, data, old_b, new_b))
            if signac_reads:
                first, last = signac_reads[0][1], signac_reads[-1][1]
                for p_, txt in signac_reads:
                    if a <= p_ <= b + 1:
                        rd.append("OOld" if txt == first else ("ONew" if txt == last else ("OEmpty" if txt == "EXC:empty" else "OTorn")))
            steps, chunks, unconsumed = to_wsteps(ops, m, ep_fid[(a, b, t)])
            old_names = []
            if old_b is not None:
                old_names.append((0, [1] if old_b else []))
            for e in before_entries:
                if is_tmp_of(e, base):
                    # the protocol's own temp file (e.g. a stale cache~) is name 1, any other side file (sync's
                    # roll-back copy <doc>~) is just another name
                    old_names.append((1 if m.get(os.path.join(d, e)) == 1 else 2, [2]))
            site_ep = site
            isjobdoc = base == "signac_job_document.json"
            # known finding C10 tag 1 concerns the JOB document only; a write of the PROJECT document in a sync (whatever the
            # doc_sync) must have the atomic shape (unchanged code: Project.sync(COPY) does not touch the project document)
            if desc["kind"] == "sync" and desc["doc_sync"] == "copy" and isjobdoc:
                site_ep = "SSyncCopy"            # known finding C10 tag 1: the document is copied as an ordinary file
            elif (desc["kind"] == "sync" and desc["doc_sync"] == "raising" and isjobdoc
                  and (a, b, t) == max(e for e in eps if e[2] == t)):
                site_ep = "SRollback"            # ... and restored in place after the failing doc_sync (last episode)
            cases.append(emit(desc, site_ep, thr_model, old_names, chunks, None, steps, crash, rd, final,
                              {"episode": [a, b, norm_tmp(t)], "trace": [o.brief() for o in ops],
                               "broken": broken + ["not consumed by the model translation: " + u for u in unconsumed],
                               "old_len": None if old_b is None else len(old_b), "new_len": len(new_b or b"")},
                              nontrivial=(old_b is not None or any(len(c) == 2 for c in chunks))))
        # ---- fault injection into the cache stream (clean-up branch)
        if desc["kind"] == "cache" and desc.get("faults", True):
            for (a, b, t) in eps:
                body = [k for k in range(a, b + 1) if muts[k].op != "rename"]   # every call on the open file
                nfault0 = len(cases)
                for pos, k in enumerate(body):
                    rootf = os.path.join(work, "f%d" % k, "p")
                    os.makedirs(rootf)
                    _, actf = build(desc, rootf)
                    tf = os.path.join(rootf, t)
                    d, base = os.path.split(t)
                    exc = None
                    ipf = Interposer(rootf, faults={muts[k].index: errno.ENOSPC}, keep_pre=False)
                    pre_f = {}

                    def tracing_f():
                        pre_f["old"] = read_file(tf)
                        pre_f["entries"] = dir_entries(rootf, d)
                        return ipf
                    try:
                        actf(tracing_f)
                    except OSError as e:
                        exc = e
                    old_b, before_entries = pre_f.get("old"), pre_f.get("entries", set())
                    mf = ipf.mutations()
                    opsf = [o for o in mf if o.index >= muts[a].index]
                    m = name_map(t, [o.path for o in opsf] + [o.path2 for o in opsf])
                    steps, chunks_f, unconsumed_f = to_wsteps(opsf, m)
                    after = read_file(tf)
                    cls = "OOld" if after == old_b else classify(base, after, old_b, b"\0")
                    ex = sorted({1 if is_tmp_of(e, base) else 3 for e in dir_entries(rootf, d) - before_entries if e != base})
                    _, chunks, _ = to_wsteps(muts[a:b + 1], name_map(t, [o.path for o in muts[a:b + 1]]), ep_fid[(a, b, t)])
                    old_names = [(0, [1] if old_b else [])] if old_b is not None else []
                    for e in before_entries:
                        if is_tmp_of(e, base):
                            old_names.append((1 if m.get(os.path.join(d, e)) == 1 else 2, [2]))
                    cases.append(emit(dict(desc, fault=pos), site, thr_model, old_names, chunks, pos, steps, [], [], (cls, ex),
                                      {"fault_at": pos, "raised": type(exc).__name__ if exc else None,
                                       "trace": [o.brief() for o in opsf],
                                       "broken": ([] if exc is not None else ["no exception raised"])
                                       + ["not consumed by the model translation: " + u for u in unconsumed_f]},
                                      nontrivial=True))
                    shutil.rmtree(os.path.dirname(rootf), ignore_errors=True)
                # one fault case per call of the model's try body [open; append...; close]
                _, ch, _ = to_wsteps(muts[a:b + 1], name_map(t, [o.path for o in muts[a:b + 1]]), ep_fid[(a, b, t)])
                if len(cases) - nfault0 != len(ch) + 2:
                    cases.append(emit(desc, site, thr_model, [], [], None, [], [], [], ("ONew", []),
                                      {"episode": [a, b, norm_tmp(t)], "trace": [o.brief() for o in muts[a:b + 1]],
                                       "broken": ["%d fault cases for a try body of %d calls" % (len(cases) - nfault0, len(ch) + 2)]},
                                      nontrivial=False, force_mismatch=True))
        if not eps:
            cases.append(emit(desc, site, thr_model, [], [], None, [], [], [], ("ONew", []),
                              {"episode": None, "trace": [o.brief() for o in muts], "broken": broken + ["no document/cache write observed"]},
                              nontrivial=False, force_mismatch=True))
    finally:
        _set_threads(True)
        if umask0 is not None:
            os.umask(umask0)
    # accounting: every scenario yields at least one case; the first one carries the scenario marker and the count
    assert cases, "scenario produced no case"
    cases[0].kinds = cases[0].kinds + ("scenarios-attempted",)
    cases[0].obs["cases_of_this_scenario"] = len(cases)
    return cases


def emit(desc, site, thr_model, old_names, chunks, fault, steps, crash, rd, final, obs, nontrivial, force_mismatch=False):
    if obs.get("broken") or force_mismatch:
        # an unobserved mutation / non-reproducible trace: make the case mismatch instead of accepting it
        steps = steps + ["(WUnlink 0%N)", "(WOpen 3%N)"]
    coq = ("{| k_site := %s; k_thread := %s; k_old := %s; k_chunks := %s; k_fault := %s; k_steps := %s; "
           "k_crash := %s; k_reader := %s; k_final := %s |}") % (
        site, coq_bool(thr_model),
        coq_list(["(%s, %s)" % (coq_N(n), coq_bytes(c)) for n, c in old_names], "(N * bytes)"),
        coq_list([coq_bytes(c) for c in chunks], "bytes"),
        coq_opt(None if fault is None else coq_nat(fault)),
        coq_list(steps, "wstep"),
        coq_list(["(%s, %s)" % (o, coq_bytes(e)) for o, e in crash], "(outcome * list N)"),
        coq_list(rd, "outcome"),
        "(%s, %s)" % (final[0], coq_bytes(final[1])))
    obs = dict(obs, site=site, crash=sorted({"%s%s" % (o, e) for o, e in crash}), reader=sorted(set(rd)), final=list(final),
               ncrash=len(crash), nreader=len(rd))
    cfg = desc.get("threads", True)
    kinds = [desc["kind"], "threads-shipped" if cfg == "shipped" else ("threads-on" if cfg else "threads-off")] + (["fault"] if fault is not None else [])
    key = json.dumps([desc, obs.get("episode"), fault], sort_keys=True, default=str)
    return Case(coq, desc, obs=obs, nontrivial=nontrivial, key=key, kinds=kinds)


def run_case(desc):
    with scratch_dir("c10") as work:
        return run_scenario(desc, work)


def gen_inputs(tier, rng):
    descs = []
    quick = tier == "quick"
    # three configurations of the JSON backend's thread support: forced ON, forced OFF, and AS SHIPPED (the flags a
    # fresh `import signac` of the tree under test sets up, read once in a fresh interpreter and re-established as is)
    for thr in (True, False, "shipped"):
        for kind in ("jobdoc", "projectdoc"):
            for old in ("absent", "empty", "small", "large") + (() if quick else ("huge",)):
                for new in ("small", "large") + (() if quick else ("empty", "huge")):
                    if old == new:
                        continue
                    descs.append({"kind": kind, "threads": thr, "old": old, "new": new,
                                  "how": rng.choice(["reset", "update", "set"]) if new != "empty" else "reset",
                                  # permission bits of the existing file and the process umask (dimensions that used to
                                  # be whatever the sandbox has: 0644 / 022)
                                  "mode": None if old == "absent" else rng.choice(MODES),
                                  "umask": rng.choice(UMASKS)})
            # whole assignments over non-empty documents, judged as ONE replacement (content old or new, nothing between)
            for old, new, alias in (("small", "large", True), ("large", "small", False)) + (() if quick else (("small", "huge", False), ("huge", "empty", True))):
                descs.append({"kind": kind, "threads": thr, "old": old, "new": new, "how": "assign", "alias": alias, "single_op": True})
            descs.append({"kind": kind, "threads": thr, "old": "large", "new": "small", "how": "reset", "single_op": True})
        # document writers outside the document API: Job.sync / Project.sync into existing jobs with and without a document
        for api in ("job", "project"):
            for ds in ("bykey", "update"):
                for dst in ("with-doc", "without-doc"):
                    if quick and api == "project" and ds == "update" and dst == "with-doc":
                        continue
                    descs.append({"kind": "sync", "threads": thr, "api": api, "doc_sync": ds, "dst": dst,
                                  "project_doc": api == "project", "pad": rng.choice([10, 9000])})
            # known finding C10 tag 1: doc_sync=COPY onto an existing destination document
            descs.append({"kind": "sync", "threads": thr, "api": api, "doc_sync": "copy", "dst": "with-doc",
                          "project_doc": False, "pad": rng.choice([10, 9000])})
        # Project.sync(COPY) between projects whose PROJECT documents differ (not part of tag 1)
        descs.append({"kind": "sync", "threads": thr, "api": "project", "doc_sync": "copy", "dst": "with-doc",
                      "project_doc": True, "pad": 10})
        # ... and the roll-back after a raising doc_sync
        descs.append({"kind": "sync", "threads": thr, "api": "job", "doc_sync": "raising", "dst": "with-doc",
                      "project_doc": False, "pad": rng.choice([10, 9000])})
        for wc in (False, True):
            for old in ("absent", "small"):
                descs.append({"kind": "raw", "threads": thr, "write_concern": wc, "old": old, "new": "large"})
        flushes = [(1, 1, None, False), (3, 2, None, True), (2, 3, 40, False)]
        if not quick:
            flushes += [(3, 3, 0, True), (2, 2, 200, True), (3, 1, None, False)]
        for nj, rounds, cap, proj in flushes:
            descs.append({"kind": "flush", "threads": thr, "njobs": nj, "rounds": rounds, "cap": cap, "project": proj,
                          "pad": rng.choice([5, 50, 9000])})
        for on in ("job", "project"):
            for via in ("pickle", "copy", "deepcopy"):
                for accessed in (True, False):
                    descs.append({"kind": "clone", "threads": thr, "on": on, "via": via, "accessed": accessed,
                                  "old": rng.choice(["absent", "small", "large"]), "new": "small",
                                  "how": rng.choice(["set", "reset"]), "buffered": False})
            descs.append({"kind": "clone", "threads": thr, "on": on, "via": "pickle", "accessed": True,
                          "old": "small", "new": "large", "buffered": True})
        # document writes through / after lifecycle methods of a Job object (Job.clear / Job.reset; writes after a state
        # point change, remove(), init(force=True)); document handle opened before the lifecycle call or not
        for accessed in (False, True):
            for write in ("jobclear", "jobreset"):
                descs.append({"kind": "lifecycle", "threads": thr, "pre": "none", "accessed": accessed, "write": write,
                              "old": rng.choice(["small", "large"]), "new": "empty",
                              "obtain": rng.choice(["id", "iter", "getjob", "sp"])})
            pres = ["rekey-attr", "rekey-update", "rekey-assign", "copy-rekey", "remove", "reinit"]
            for pre in (pres if not quick else rng.sample(pres[:4], 2) + rng.sample(pres[4:], 1)):
                descs.append({"kind": "lifecycle", "threads": thr, "pre": pre, "accessed": accessed,
                              "write": rng.choice(["set", "reset", "assign", "buffered"]),
                              "old": rng.choice(["small", "large"]), "new": rng.choice(["small", "large"]),
                              # an object opened by id in a fresh session cannot re-create a removed job (by design)
                              "obtain": "sp" if pre == "remove" else rng.choice(["id", "iter", "getjob", "sp"])})
            descs.append({"kind": "lifecycle", "threads": thr, "pre": rng.choice(pres[:4]), "accessed": accessed,
                          "write": rng.choice(["jobclear", "jobreset"]), "old": "small", "new": "empty", "obtain": "sp"})
        fq = [(2, 1, None, ["find"], "modify-first"), (3, 2, 60, ["find", "len", "iter"], "modify-first"),
              (2, 2, None, ["groupby", "iter"], "query-first")]
        if not quick:
            fq += [(3, 3, 0, ["find", "groupby"], "modify-first"), (1, 2, 30, ["len", "find"], "query-first"),
                   (3, 1, None, ["find", "len", "iter", "groupby"], "modify-first")]
        for nj, rounds, cap, queries, order in fq:
            descs.append({"kind": "flushquery", "threads": thr, "njobs": nj, "rounds": rounds, "cap": cap,
                          "queries": queries, "order": order, "project": nj % 2 == 1, "pad": rng.choice([5, 200])})
        descs.append({"kind": "migration", "threads": thr, "olddoc": False})
        descs.append({"kind": "migration", "threads": thr, "olddoc": True})
        descs.append({"kind": "migration", "threads": thr, "olddoc": thr is True, "custom_ws": True, "v1cache": True})
        caches = [(0, 3, 0, False), (3, 5, 0, False), (5, 6, 3, False), (40, 120, 0, True)]
        if not quick:
            caches += [(0, 400, 0, False), (400, 401, 150, False), (120, 300, 20, True), (1, 2, 0, True)]
        for k, (n0, n1, rem, stale) in enumerate(caches):
            # every configuration rewrites a group-writable (0664 / 0666), a private (0600) and a default cache
            descs.append({"kind": "cache", "threads": thr, "n0": n0, "n1": n1, "remove": rem, "stale_tmp": stale,
                          "salt": "%06d" % rng.randint(0, 999999), "faults": True,
                          "mode": MODES[k % len(MODES)] if n0 else None, "umask": UMASKS[k % len(UMASKS)]})
    flags = shipped_threads()
    for d in descs:
        if d["threads"] == "shipped":
            d["shipped_flags"] = list(flags)
    return descs
