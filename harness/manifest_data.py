"""Data for MANIFEST.json (bin/gen_manifest.py)."""
ALL = [f"C{i:02d}" for i in range(1, 21)]

CHECKS = [
 {"property_id": "C01",
  "text": "Theorems (all closed under the global context): the id is invariant under key permutation at every nesting level (C01_order_independent, via norm_jperm), values that differ as JSON values have different canonical token streams (C01_canon_injective_tokens, unique readability), decimal lexemes are injective, ids are 32 lowercase hex chars, and equal ids of different canonical texts can only be an MD5 collision. The model computes the complete id inside Coq (executable RFC 1321 MD5) and is compared with calc_id/open_job/init/reopen on every generated state point in several key orders and container spellings.",
  "note": "float.__repr__ is an oracle table (Section variable) validated per entry; char-level injectivity of the string escape is not proved (token level is); MD5 collision freedom is named, not assumed; the model is tied to /repo by differential correspondence only."},
 {"property_id": "C06",
  "text": "Model of Project._find_job_ids / _SearchIndexer (prefixing, namespace decision, flattening, typed index with Python dict-slot semantics, operator loop, int/float dual lookup, set algebra with early exit) and an independent per-job reference evaluator. Theorems (closed under the global context): the logical structure ($and/$or/$not, early exit) is exact for any per-expression oracle; operator and $exists expressions are exact under NoSlotMerge; implicit equality is exact under NoSlotMerge + probe condition (_partial); locality; $not/$and/$or are complement/intersection/union; the full statement is refuted with machine-checked witnesses (True/1, -1/-1.0) that are a listed known finding. The correspondence runs real projects through Project.find_jobs and evaluates model, reference oracle and known-finding classifier inside Coq.",
  "note": "re.search is an oracle table; math.isclose is PrimFloat arithmetic after CPython; CPython numeric hash assumed as documented for |int|<2^53; transitivity of Python == on nested values is not proved (hence the probe side condition); the lemma that filters without doc-namespace keys never read documents is not proved (top-level theorem is _partial)."},
]

_claimed = {c["property_id"] for c in CHECKS}
NOT_APPLICABLE = [{"property_id": p, "reason": "check not built yet in this revision (work in progress; the technique applies — see DESIGN.md §5)"}
                  for p in ALL if p not in _claimed]
