"""Data for MANIFEST.json (bin/gen_manifest.py)."""
ALL = [f"C{i:02d}" for i in range(1, 21)]

CHECKS = [
 {"property_id": "C01",
  "text": "Theorems (all closed under the global context): the id is invariant under key permutation at every nesting level (C01_order_independent, via norm_jperm), values that differ as JSON values have different canonical token streams (C01_canon_injective_tokens, unique readability), decimal lexemes are injective, ids are 32 lowercase hex chars, and equal ids of different canonical texts can only be an MD5 collision. The model computes the complete id inside Coq (executable RFC 1321 MD5) and is compared with calc_id/open_job/init/reopen on every generated state point in several key orders and container spellings.",
  "note": "float.__repr__ is an oracle table (Section variable) validated per entry; char-level injectivity of the string escape is not proved (token level is); MD5 collision freedom is named, not assumed; the model is tied to /repo by differential correspondence only."},
 {"property_id": "C06",
  "text": "Model of Project._find_job_ids / _SearchIndexer (prefixing, namespace decision, flattening, typed index with Python dict-slot semantics, operator loop, int/float dual lookup, set algebra with early exit) and an independent per-job reference evaluator. Theorems (closed under the global context): the logical structure ($and/$or/$not, early exit) is exact for any per-expression oracle; operator and $exists expressions are exact under NoSlotMerge; implicit equality is exact under NoSlotMerge + probe condition (_partial); locality; $not/$and/$or are complement/intersection/union; the full statement is refuted with machine-checked witnesses (True/1, -1/-1.0) that are a listed known finding. The correspondence runs real projects through Project.find_jobs and evaluates model, reference oracle and known-finding classifier inside Coq.",
  "note": "re.search is an oracle table; math.isclose is PrimFloat arithmetic after CPython; CPython numeric hash assumed as documented for |int|<2^53; transitivity of Python == on nested values is not proved (hence the probe side condition); the lemma that filters without doc-namespace keys never read documents is not proved (top-level theorem is _partial)."},
 {"property_id": "C18",
  "text": "Model of detect_schema (_build_job_statepoint_index over the typed index of C06, constant elimination, placeholder removal) and diff_jobs, plus reference summaries computed directly from the state points. Theorems (closed): reported keys are exactly the dotted leaf keys (no side condition); reported values are exactly the jobs' non-mapping values under NoSlotMerge (_partial), refuted without it by machine-checked witnesses True/1 and -1/-1.0 (listed known finding); exclude_const drops a key iff all jobs have it with one value (_partial, NoSlotMerge+reflexivity); diffs partition each job's pairs into diff and shared-by-all. Correspondence on real projects incl. subsets, exclude_const and diff_jobs over mixed-type universes, with the oracle schema_exact/diff_exact evaluated in Coq.",
  "note": "CPython dict-slot identity as modelled in PyVal.v; subset iteration order replayed by the harness; round trip flatten/nest of diffs is checked by the correspondence, not proved."},
]

_claimed = {c["property_id"] for c in CHECKS}
NOT_APPLICABLE = [{"property_id": p, "reason": "check not built yet in this revision (work in progress; the technique applies — see DESIGN.md §5)"}
                  for p in ALL if p not in _claimed]
