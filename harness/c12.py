"""C12 — concurrent processes initialise jobs and write documents without corruption."""
import json
import logging
import os
import random
import shutil
import subprocess
import sys

from .c11 import Lit, calc_id, observe, set_threads
from .common import Case, coq_bool, coq_json, coq_list, coq_nat, exn_name, scratch_dir
from .interpose import _UUID, norm_tmp
from .sched import LockStep2

PROP = "C12"
IMPORTS = "Base Json FS Proc Crash WsNames CorrC11 CorrC12"
CASE_TYPE = "case_C12"
MISMATCHES = "mismatches_C12"
VIOLATIONS = "violations_C12"
KNOWN = "known_C12"
SHARD = 70
RULE = ("actor scripts over {Project(); open_job(sp).init(); open_job(sp).doc[k]=v; open_job(sp).doc(); project.doc[k]=v; "
        "project.doc(); len(project); document writes / reads in the body of `for job in project`, of a find_jobs() "
        "cursor and of a groupby loop; Project('<relative path>') + `with job:` + init of another job} "
        "(same job / different jobs / reader vs writer of one job document or of the project document / listing vs "
        "initialisers), from an empty project "
        "(no workspace directory yet) and from a populated one, run as FORKED PROCESSES under a lock-step scheduler: "
        "every stat / open / listdir / mkdir / write / close / rename / unlink of an actor below the workspace blocks "
        "on a pipe until granted, one schedule = one sequence of actor indices at file-system-call granularity.  "
        "2 actors: depth-first enumeration of schedules with reduction (a schedule in which a call of a lower-numbered "
        "actor directly follows an independent call of a higher-numbered one is skipped; independence = disjoint "
        "footprints, justified by Proc.exec_diamond) — exhaustive in thorough up to the stated cap per script pair, a "
        "seeded sample of the frontier in quick; 3 actors: sampled.  One case per run: realised schedule, every "
        "actor's values read or exception, final tree / listing / check() through a fresh Project.  JSON thread support "
        "explicitly on everywhere; switched off for the same-job initialisation race (replay of the refutation witness); "
        "CONFIGURATION AS SHIPPED (the flags `import signac` leaves in a fresh interpreter of the tree under test, nothing "
        "toggled by the harness; the model is the documented temp-file protocol) for the document writer/reader pairs, "
        "there WITHOUT reduction: every interleaving of the two processes' calls, i.e. the reader at every file-system "
        "step of the writer, and for a sample of the other scripts. "
        "non-trivial: at least two calls of different actors on comparable paths are adjacent in the schedule; distinct by "
        "(scripts, realised schedule)")
TRUSTED = [
    "os.replace is atomic w.r.t. concurrent open; each hooked call is one atomic step (true preemption INSIDE a system call, "
    "NFS close-to-open semantics and page-cache visibility between hosts cannot be exhibited by the lock-step scheduler)",
    "harness/sched.py: StatInterposer (stat family hooked in addition to harness/interpose.py) and LockStep2",
    "the partial-order reduction of the schedule enumeration (independence of calls with disjoint footprints)",
    "directory listing order and json.loads outcomes are passed to the model with the pre-state",
]
ASSUMPTIONS = ["each job document has at most one writing actor (the property's scope: documents of different jobs)",
               "every action opens a fresh job handle (no _directory_known carried between actions)",
               "reads of .signac/config and of the state point cache during Project() are not scheduling points"]

WSN, SPF, DOCF = "workspace", "signac_statepoint.json", "signac_job_document.json"
PDOCF = "signac_project_document.json"
SP1, SP2, SP3, SPX = {"a": 1}, {"a": 2}, {"b": "z"}, {"x": 0}
KIND = {"stat": "SgStat", "ropen": "SgRead", "listdir": "SgListdir", "mkdir": "SgMkdir", "open": "SgOpen",
        "write": "SgWrite", "close": "SgClose", "rename": "SgRename", "unlink": "SgUnlink", "rmdir": "SgRmdir"}
MUTATING = {"SgMkdir", "SgOpen", "SgWrite", "SgRename", "SgUnlink", "SgRmdir"}


# ------------------------------------------------------------------ configuration
_CLASSES = ("signac.JSONDict", "cj.JSONAttrDict", "cj.BufferedJSONAttrDict", "cj.JSONDict", "cj.BufferedJSONDict", "_StatePointDict")
_SHIPPED = []


def shipped_threads():
    """Thread-support flags of the JSON classes exactly as `import signac` leaves them in a FRESH interpreter of
    the tree under test (the harness process itself has toggled them for other scenarios)."""
    if not _SHIPPED:
        code = ("import json, signac\nfrom signac.job import _StatePointDict\n"
                "from synced_collections.backends import collection_json as cj\n"
                "print(json.dumps([bool(c._threading_support_is_active) for c in (%s)]))" % ", ".join(_CLASSES))
        out = subprocess.run([sys.executable, "-c", code], capture_output=True, text=True, timeout=300, check=True).stdout
        _SHIPPED.append(json.loads(out.strip().splitlines()[-1]))
    return _SHIPPED[0]


def apply_threads(flags):
    import signac
    from signac.job import _StatePointDict
    from synced_collections.backends import collection_json as cj

    classes = (signac.JSONDict, cj.JSONAttrDict, cj.BufferedJSONAttrDict, cj.JSONDict, cj.BufferedJSONDict, _StatePointDict)
    for cls, on in zip(classes, flags):
        (cls.enable_multithreading if on else cls.disable_multithreading)()


# ------------------------------------------------------------------ actors
def make_actor(root, script, counter=None):
    """[counter] = {"n": number of scheduled calls this process has made so far} (incremented by the hook filter
    in the child).  The actor logs every elementary document operation with that number at its start and end."""
    counter = counter if counter is not None else {"n": 0}

    def actor():
        import signac

        logging.disable(logging.CRITICAL)
        out, ops = [], []
        p = None

        def jdoc(job):
            return ["p", WSN, job.id, DOCF]

        def dset(file, doc, k, v):
            n0 = counter["n"]
            doc[k] = v
            ops.append({"set": True, "file": file, "key": k, "val": v, "start": n0, "end": counter["n"]})

        def dread(file, doc):
            n0 = counter["n"]
            val = doc()
            ops.append({"set": False, "file": file, "key": "", "val": val, "start": n0, "end": counter["n"]})
            return val

        for a in script:
            k = a[0]
            if k == "Project":
                p = signac.Project(os.path.join(root, "p"))
                out.append(["unit"])
            elif k == "ProjectRel":
                # a handle made from a RELATIVE path (cwd = the scratch root, changed later by `with job:`)
                os.chdir(root)
                p = signac.Project("p")
                out.append(["unit"])
            elif k == "Init":
                p.open_job(a[1]).init()
                out.append(["unit"])
            elif k == "DocSet":
                job = p.open_job(a[1])
                dset(jdoc(job), job.doc, a[2], a[3])
                out.append(["unit"])
            elif k == "DocRead":
                job = p.open_job(a[1])
                out.append(["doc", dread(jdoc(job), job.doc)])
            elif k == "Len":
                # logged like a read of the workspace directory itself: the count, with the number of this
                # process's scheduled calls before and after
                n0 = counter["n"]
                cnt = len(p)
                ops.append({"set": False, "file": ["p", WSN], "key": "", "val": cnt, "start": n0, "end": counter["n"]})
                out.append(["num", cnt])
            elif k == "PDocSet":
                dset(["p", PDOCF], p.doc, a[1], a[2])
                out.append(["unit"])
            elif k == "PDocRead":
                out.append(["doc", dread(["p", PDOCF], p.doc)])
            elif k == "Each":
                # a document operation in the body of an iteration construct
                kind, body = a[1], a[2]
                if kind[0] == "all":
                    it = iter(p)
                elif kind[0] == "find":
                    it = iter(p.find_jobs())
                else:
                    it = (job for _, group in p.groupby(kind[1]) for job in group)
                docs = []
                for job in it:
                    if body[0] == "set":
                        dset(jdoc(job), job.doc, body[1], body[2])
                    else:
                        docs.append(dread(jdoc(job), job.doc))
                out.append(["unit"] if body[0] == "set" else ["docs", docs])
            elif k == "WithInit":
                with p.open_job(a[1]):
                    p.open_job(a[2]).init()
                out.append(["unit"])
            elif k == "RmWs":
                try:
                    os.rmdir(p.workspace)
                except OSError:
                    pass
                out.append(["unit"])
            else:
                raise AssertionError(a)
        return {"out": out, "ops": ops}
    return actor


def hook_filter(op, rel):
    if op not in KIND or rel is None:
        return False
    c = rel.split(os.sep)
    if len(c) == 2 and c[0] == "p" and c[1].endswith(PDOCF):      # the project document and its temp files
        return True
    return len(c) >= 2 and c[0] == "p" and c[1] == WSN


def build_template(scn, root):
    import signac

    p = signac.init_project(path=os.path.join(root, "p"))
    if scn["pre"] == "empty":
        shutil.rmtree(p.workspace)
    else:                                   # "populated", "populated-pdoc"
        j = p.open_job(SP1).init()
        j.doc["k"] = 0
        jx = p.open_job(SPX).init()
        with open(jx.fn("x.txt"), "wb") as fh:
            fh.write(b"x")
        if scn["pre"] == "populated-pdoc":
            p.doc["pk"] = 0
        if scn["pre"] == "populated2":
            j2 = p.open_job(SP2).init()
            j2.doc["k"] = 0


# ------------------------------------------------------------------ schedules
def sig_of(step, tags):
    """(actor, kind, comps, comps2) with the uuid of temp names replaced by the actor's tag."""
    a, op, rel, rel2 = step

    def comps(r):
        if r is None:
            return ()
        return tuple(_UUID.sub("._TMP_" + tags[a], c) for c in r.split(os.sep))
    return (a, KIND[op], comps(rel), comps(rel2))


def under(p, q):
    return len(q) >= len(p) and q[:len(p)] == p


def dependent(x, y):
    """x, y = (kind, paths...) of two pending calls of different actors."""
    def dep(m, o):
        if m[0] not in MUTATING:
            return False
        for pm in m[1]:
            for po in o[1]:
                if under(pm, po):
                    return True
                if o[0] == "SgListdir" and pm[:-1] == po:
                    return True
        return False
    return dep(x, y) or dep(y, x)


def call_of(pending):
    op, rel, rel2 = pending
    paths = [tuple(norm_tmp(r).split(os.sep)) for r in (rel, rel2) if r is not None]
    return (KIND[op], paths)


class Explorer(LockStep2):
    """One run follows a prefix of actor indices, then the default policy; it reports the alternatives it
    passed by (prefixes that lead to schedules not equivalent to this one)."""

    por = True          # False: every pair of calls counts as dependent (plain enumeration of all interleavings)

    def _dep(self, x, y):
        return True if not self.por else dependent(x, y)

    def explore(self, prefix, sleep0=()):
        """Sleep-set exploration: [sleep0] are the actors that must not move after the prefix until a call
        dependent with their pending one has been made (their next call was explored in a sibling run)."""
        alts = []
        state = {"sleep": set(), "redundant": False}

        def choose(pos, pending, active):
            if pos < len(prefix) and prefix[pos] in active:
                pick = prefix[pos]
                if pos == len(prefix) - 1:
                    c = call_of(pending[pick])
                    state["sleep"] = {x for x in sleep0 if x in active and x != pick
                                      and not self._dep(call_of(pending[x]), c)}
                return pick
            sleep = state["sleep"]
            cand = [b for b in active if b not in sleep]
            if not cand:
                state["redundant"] = True       # every continuation is equivalent to an explored one
                state["sleep"] = set()
                return active[0]
            pick = cand[0]
            c = call_of(pending[pick])
            if not state["redundant"]:
                explored = [pick]
                for b in cand[1:]:
                    cb = call_of(pending[b])
                    sl = [x for x in list(sleep) + explored if x in active and not self._dep(call_of(pending[x]), cb)]
                    alts.append((list(self._done) + [b], sl))
                    explored.append(b)
            state["sleep"] = {x for x in sleep if x in active and not self._dep(call_of(pending[x]), c)}
            return pick

        res = self.run_policy(choose)
        res["alternatives"] = alts
        res["redundant"] = state["redundant"]
        return res

    def run_policy(self, choose):
        import select

        from .sched import _O_CLOSE, _O_WRITE, _recv

        n = len(self.actors)
        chans, pids = [], []
        for i in range(n):
            up_r, up_w = os.pipe()
            down_r, down_w = os.pipe()
            pid = os.fork()
            if pid == 0:
                for (r, w) in chans:
                    _O_CLOSE(r)
                    _O_CLOSE(w)
                _O_CLOSE(up_r)
                _O_CLOSE(down_w)
                self._child(i, up_w, down_r)
            _O_CLOSE(up_w)
            _O_CLOSE(down_r)
            chans.append((up_r, down_w))
            pids.append(pid)
        pending = [None] * n
        results = [None] * n
        steps = []
        self._done = []

        def wait_for(i):
            while pending[i] is None and results[i] is None:
                r, _, _ = select.select([chans[i][0]], [], [], self.timeout)
                if not r:
                    results[i] = ("exc", "Timeout", "actor %d did not reach a step" % i)
                    return
                msg = _recv(chans[i][0])
                if msg is None:
                    results[i] = results[i] or ("exc", "Died", "actor %d exited" % i)
                elif msg[0] == "step":
                    pending[i] = msg[1:]
                else:
                    results[i] = msg[1]

        try:
            for i in range(n):
                wait_for(i)
            while True:
                active = [i for i in range(n) if results[i] is None and pending[i] is not None]
                if not active:
                    break
                a = choose(len(steps), pending, active)
                op = pending[a]
                pending[a] = None
                steps.append((a,) + tuple(op))
                self._done.append(a)
                _O_WRITE(chans[a][1], b"g")
                wait_for(a)
        finally:
            for (r, w), pid in zip(chans, pids):
                for fd in (r, w):
                    try:
                        _O_CLOSE(fd)
                    except OSError:
                        pass
                try:
                    os.waitpid(pid, 0)
                except ChildProcessError:
                    pass
        return {"results": results, "steps": steps}


# ------------------------------------------------------------------ Gallina
def coq_act(a):
    k = a[0]
    if k == "Project":
        return "AProject"
    if k == "Init":
        return f"(AInit {coq_json(a[1])})"
    if k == "DocSet":
        return f"(ADocSet {coq_json(a[1])} {Lit.raw(a[2])} {coq_json(a[3])})"
    if k == "DocRead":
        return f"(ADocRead {coq_json(a[1])})"
    if k == "Len":
        return "ALen"
    if k == "RmWs":
        return "ARmWs"
    if k == "PDocSet":
        return f"(APDocSet {Lit.raw(a[1])} {coq_json(a[2])})"
    if k == "PDocRead":
        return "APDocRead"
    if k == "ProjectRel":
        return "AProject"
    if k == "Each":
        ik = {"all": "IAll", "find": "IFind"}.get(a[1][0]) or "(IGroup %s)" % Lit.raw(a[1][1])
        body = "BRead" if a[2][0] == "read" else "(BSet %s %s)" % (Lit.raw(a[2][1]), coq_json(a[2][2]))
        return f"(AEach {ik} {body})"
    if k == "WithInit":
        return f"(AWithInit {coq_json(a[1])} {coq_json(a[2])})"
    raise AssertionError(a)


def coq_aobs(o):
    if o[0] == "unit":
        return "OUnit"
    if o[0] == "doc":
        return f"(ODoc {coq_json(o[1])})"
    if o[0] == "docs":
        return "(ODocs %s)" % coq_list([coq_json(d) for d in o[1]], "json")
    return f"(ONum {coq_nat(o[1])})"


def tag_of(a):
    return "a%d_" % a


def snapshot12(root):
    """c11.snapshot plus the project document (and temp files of it) next to the workspace."""
    from .c11 import relevant, scan_order
    return [(c[:-1] + [norm_tmp(c[-1])], k, b) for c, k, b in scan_order(root)
            if relevant(c) or (len(c) == 2 and c[1].endswith(PDOCF))]


def one_run(scn, template, work, prefix, n, sleep0=()):
    root = os.path.join(work, "r%d" % n)
    shutil.copytree(template, root, symlinks=True)
    pre = snapshot12(root)
    counter = {"n": 0}          # per process after the fork: the number of scheduled calls made so far

    def counting_filter(op, rel):
        ok = hook_filter(op, rel)
        if ok:
            counter["n"] += 1
        return ok
    actors = [make_actor(root, s, counter) for s in scn["scripts"]]
    ex = Explorer(root, actors, hook_filter=counting_filter, timeout=30.0)
    ex.por = scn.get("por", True)
    res = ex.explore(prefix, sleep0)
    tags = [tag_of(i) for i in range(len(actors))]
    sigs = [sig_of(st, tags) for st in res["steps"]]
    # temp files left behind: map their uuid to the actor that created them
    owner = {}
    for (a, op, rel, rel2) in res["steps"]:
        for r in (rel, rel2):
            if r:
                for m in _UUID.finditer(r):
                    owner[m.group(0)] = a
    for dirpath, dirnames, filenames in os.walk(root):
        for f in filenames:
            m = _UUID.match(f)
            if m and m.group(0) in owner:
                os.rename(os.path.join(dirpath, f), os.path.join(dirpath, "._TMP_" + tags[owner[m.group(0)]] + f[m.end():]))
    _, ws = observe(root)
    snap = snapshot12(root)
    shutil.rmtree(root, ignore_errors=True)
    return pre, res, sigs, snap, ws


class Lit12(Lit):
    def name(self, s):
        if s == PDOCF:
            return "PDOCF"
        if s.startswith("._TMP_a"):
            for base, coq in ((SPF, "SPF"), (DOCF, "DOCF"), (PDOCF, "PDOCF")):
                for a in range(4):
                    if s == "._TMP_" + tag_of(a) + base:
                        return self.define("tmp_%d_%s" % (a, coq.lower()), "(TMPPFX ++ %s ++ %s)" % (Lit.raw(tag_of(a)), coq))
        return super().name(s)

    def content(self, name, data):
        for a in range(4):
            name = name.replace("._TMP_" + tag_of(a), "._TMP_")
        if norm_tmp(name) in (PDOCF, "._TMP_" + PDOCF):       # parsed like a job document
            name = DOCF
        return super().content(name, data)


def emit(scn, thr, pre, res, sigs, snap, ws, prefix):
    L = Lit12()
    nact = len(scn["scripts"])
    sched = ["(%s, {| sg_kind := %s; sg_p := %s; sg_q := %s |})" % (coq_nat(a), k, L.path(list(p1)), L.path(list(p2)))
             for (a, k, p1, p2) in sigs]
    results, robs, docops, dobs = [], [], [], []
    for r in res["results"]:
        if r[0] == "ok":
            results.append("(inl %s)" % coq_list([coq_aobs(o) for o in r[1]["out"]], "aobs"))
            robs.append(r[1]["out"])
            docops.append(coq_list([
                "{| d_set := %s; d_file := %s; d_key := %s; d_val := %s; d_start := %s; d_end := %s |}" % (
                    coq_bool(o["set"]), L.path(o["file"]), Lit.raw(o["key"]), coq_json(o["val"]),
                    coq_nat(o["start"]), coq_nat(o["end"])) for o in r[1]["ops"]], "docop"))
            dobs.append(["%s %s %s calls %d..%d" % ("set" if o["set"] else "read", "/".join(o["file"][2:]) or o["file"][-1],
                                                   json.dumps(o["val"] if not o["set"] else {o["key"]: o["val"]}),
                                                   o["start"], o["end"]) for o in r[1]["ops"]])
        else:
            results.append("(inr %s)" % EXN.get(r[1], "EOther"))
            robs.append("%s: %s" % (r[1], r[2]))
            docops.append(coq_list([], "docop"))
            dobs.append([])
    coq = ("{| q_atomic := %s; q_ftab := []; q_ws := %s; q_pre := %s; q_actors := %s; q_tags := %s; q_sched := %s; "
           "q_results := %s; q_final := %s; q_docops := %s |}") % (
        coq_bool(thr), L.path(["p", WSN]), L.tree(pre),
        coq_list([coq_list([coq_act(a) for a in s], "act") for s in scn["scripts"]], "(list act)"),
        coq_list([Lit.raw(tag_of(i)) for i in range(nact)], "str"),
        coq_list(sched, "(nat * csig)"), coq_list(results, "(list aobs + exn)"), L.fobs(snap, ws),
        coq_list(docops, "(list docop)"))
    order = [a for (a, _, _, _) in sigs]
    # non-trivial: two adjacent calls of different actors on comparable paths
    nontrivial = any(x[0] != y[0] and any(under(p, q) or under(q, p) for p in (x[2], x[3]) if p for q in (y[2], y[3]) if q)
                     for x, y in zip(sigs, sigs[1:]))
    from .c11 import brief_tree, brief_ws
    obs = {"schedule": "".join(str(a) for a in order), "results": robs, "document_operations": dobs,
           "steps": ["%d %s %s" % (a, k, "/".join(p1[2:])) for (a, k, p1, p2) in sigs],
           "final_tree": brief_tree(snap), "projects": brief_ws(ws)}
    desc = {"scn": scn, "prefix": order}
    kinds = [scn["name"]] + ([] if scn.get("por", True) else ["all-interleavings"]) + ["config-default" if scn.get("config") == "default" else ("threads-on" if thr else "threads-off"),
             "actors:%d" % nact]
    return Case(coq, desc, obs=obs, nontrivial=nontrivial, key=json.dumps([scn["scripts"], scn["pre"], thr, scn.get("config"), order]),
                kinds=kinds, prelude=L.items())


EXN = {}


def _exn_table():
    import signac.errors as se
    tab = {}
    for cls in (se.DestinationExistsError, se.JobsCorruptedError, KeyError, LookupError, TypeError, ValueError,
                RuntimeError, OSError, FileExistsError, FileNotFoundError, PermissionError, json.JSONDecodeError,
                NotADirectoryError, IsADirectoryError, se.WorkspaceError):
        tab[cls.__name__] = exn_name(cls.__new__(cls))
    return tab


def run_scenario(desc, work):
    scn = desc["scn"]
    thr = scn.get("threads", True)
    logging.disable(logging.CRITICAL)
    import signac  # noqa: F401  (imported before forking)
    EXN.update(_exn_table())
    if scn.get("config") == "default":
        # as shipped: nothing is switched on or off by the harness; the MODEL is the documented behaviour
        # (temp file + os.replace for state points and documents), so thr stays True
        apply_threads(shipped_threads())
    else:
        set_threads(thr)
    cases = []
    try:
        template = os.path.join(work, "template")
        os.makedirs(template)
        build_template(scn, template)
        if "prefix" in desc:
            todo, budget = [(list(desc["prefix"]), [])], 1
        else:
            todo, budget = [([], [])], desc.get("budget", 50)
        rng = random.Random(desc.get("seed", 0))
        seen = set()
        n = 0
        while todo and n < budget:
            if desc.get("order") == "dfs":
                prefix, sleep0 = todo.pop()
            else:
                prefix, sleep0 = todo.pop(rng.randrange(len(todo)))
            pre, res, sigs, snap, ws = one_run(scn, template, work, prefix, n, sleep0)
            n += 1
            order = tuple(a for (a, _, _, _) in sigs)
            if "prefix" not in desc:
                todo.extend(res["alternatives"])
            if order in seen or (res.get("redundant") and "prefix" not in desc):
                continue
            seen.add(order)
            cases.append(emit(scn, thr, pre, res, sigs, snap, ws, prefix))
        if "prefix" not in desc and cases:
            cases[0].kinds = cases[0].kinds + ("exhausted:%s" % (not todo),)
    finally:
        set_threads(True)
    return cases


def run_case(desc):
    with scratch_dir("c12") as work:
        return run_scenario(desc, work)


def P():
    return ["Project"]


def scenarios():
    I, S, R, Ln = (lambda sp: ["Init", sp]), (lambda sp, k, v: ["DocSet", sp, k, v]), (lambda sp: ["DocRead", sp]), ["Len"]
    return [
        {"name": "init-same-empty", "pre": "empty", "scripts": [[P(), I(SP2)], [P(), I(SP2)]]},
        {"name": "init-same-populated", "pre": "populated", "scripts": [[P(), I(SP2)], [P(), I(SP2)]]},
        {"name": "init-different", "pre": "empty", "scripts": [[P(), I(SP2)], [P(), I(SP3)]]},
        {"name": "init-existing", "pre": "populated", "scripts": [[P(), I(SP1)], [P(), I(SP1), Ln]]},
        # two initialisers of ONE new job, one of them counts the jobs right after its own init() returned: whatever the
        # other process is doing, only one job was ever requested
        {"name": "init-same-then-len", "pre": "empty", "scripts": [[P(), I(SP2)], [P(), I(SP2), Ln]]},
        {"name": "init-same-then-len-populated", "pre": "populated", "scripts": [[P(), I(SP2), Ln], [P(), I(SP2), Ln]]},
        {"name": "docs-different-jobs", "pre": "populated",
         "scripts": [[P(), S(SP1, "u", 1), R(SP1)], [P(), S(SP2, "v", "two"), R(SP2)]]},
        {"name": "doc-reader-writer", "pre": "populated",
         "scripts": [[P(), S(SP1, "k", 1), S(SP1, "m", [2])], [P(), R(SP1), R(SP1), R(SP1)]]},
        {"name": "init-vs-doc-access", "pre": "empty", "scripts": [[P(), I(SP2)], [P(), R(SP2)]]},
        {"name": "init-vs-docset", "pre": "populated", "scripts": [[P(), I(SP2), R(SP2)], [P(), S(SP2, "w", 3)]]},
        {"name": "listing-vs-init", "pre": "empty", "scripts": [[P(), I(SP2), I(SP3)], [P(), Ln, Ln]]},
        # the workspace is missing when the listing runs (the removal is outside the property's alphabet)
        {"name": "listing-missing-workspace", "pre": "empty", "scripts": [[P(), ["RmWs"], Ln, I(SP2), Ln]]},
    ]


def doc_scenarios():
    """A writer and a reader of ONE document in two processes; the document exists and is non-empty, so the old
    content is observable.  Small enough to be enumerated exhaustively in quick."""
    S, R = (lambda sp, k, v: ["DocSet", sp, k, v]), (lambda sp: ["DocRead", sp])
    return [
        {"name": "jobdoc-rw", "pre": "populated", "scripts": [[P(), S(SP1, "k", 1)], [P(), R(SP1)]]},
        {"name": "projdoc-rw", "pre": "populated-pdoc", "scripts": [[P(), ["PDocSet", "pk", 1]], [P(), ["PDocRead"]]]},
    ]


def loop_scenarios():
    """Document operations INSIDE iteration constructs in one process, the other process reads / writes in between;
    and a project handle made from a relative path whose process changes directory (`with job:`)."""
    S, R = (lambda sp, k, v: ["DocSet", sp, k, v]), (lambda sp: ["DocRead", sp])
    E = lambda kind, body: ["Each", kind, body]                                    # noqa: E731
    return [
        {"name": "loop-project-set-vs-read", "pre": "populated2",
         "scripts": [[P(), E(["all"], ["set", "done", 1])], [P(), R(SP1), R(SP2), R(SP1)]]},
        {"name": "loop-find-read-vs-set", "pre": "populated2",
         "scripts": [[P(), E(["find"], ["read"]), E(["find"], ["read"])], [P(), S(SP2, "n", 5)]]},
        {"name": "loop-groupby-set-vs-read", "pre": "populated2",
         "scripts": [[P(), E(["group", "a"], ["set", "done", 1])], [P(), R(SP1), R(SP2), R(SP1)]]},
        {"name": "loop-groupby-read-vs-set", "pre": "populated2",
         "scripts": [[P(), E(["group", "a"], ["read"]), E(["find"], ["read"])], [P(), S(SP1, "n", 5), S(SP1, "m", 6)]]},
        {"name": "relative-project-with-job", "pre": "populated2",
         "scripts": [[["ProjectRel"], ["WithInit", SP1, SP3], ["Len"]], [P(), ["Len"], R(SP1), ["Len"]]]},
        {"name": "relative-project-init", "pre": "empty",
         "scripts": [[["ProjectRel"], ["Init", SP2], ["WithInit", SP2, SP3], ["Len"]], [P(), ["Len"]]]},
    ]


def scenarios3():
    I, S, R, Ln = (lambda sp: ["Init", sp]), (lambda sp, k, v: ["DocSet", sp, k, v]), (lambda sp: ["DocRead", sp]), ["Len"]
    return [
        {"name": "3-init-same", "pre": "empty", "scripts": [[P(), I(SP2)], [P(), I(SP2)], [P(), I(SP2)]]},
        {"name": "3-init-same-vs-len", "pre": "empty", "scripts": [[P(), I(SP2)], [P(), I(SP2)], [P(), Ln, Ln]]},
        {"name": "3-mixed", "pre": "populated",
         "scripts": [[P(), I(SP2), S(SP2, "a", 1)], [P(), S(SP1, "b", 2)], [P(), R(SP1), Ln, R(SP2)]]},
    ]


def gen_inputs(tier, rng):
    quick = tier == "quick"
    descs = []
    for scn in scenarios():
        descs.append({"scn": dict(scn, threads=True), "budget": 250 if quick else 7000, "seed": rng.randrange(10 ** 6),
                      "order": "random" if quick else "dfs"})
    for scn in scenarios3():
        descs.append({"scn": dict(scn, threads=True), "budget": 100 if quick else 2000, "seed": rng.randrange(10 ** 6),
                      "order": "random"})
    # document write/read pairs across two processes: as shipped (whatever `import signac` sets up), and with
    # thread support explicitly on / off (documents use write_concern: atomic either way); exhaustive (dfs)
    for scn in doc_scenarios():
        for cfg in ("default", True, False):
            d = dict(scn, threads=(cfg is not False), name=scn["name"] + ("-default" if cfg == "default" else ("-on" if cfg else "-off")))
            if cfg == "default":
                d["config"] = "default"
            if cfg == "default" or not quick:
                # no reduction: the reader's calls at EVERY position between the writer's file-system calls
                d["por"] = False
            descs.append({"scn": d, "budget": 400 if quick else 4000, "seed": rng.randrange(10 ** 6), "order": "dfs"})
    for scn in loop_scenarios():
        descs.append({"scn": dict(scn, threads=True), "budget": 120 if quick else 3000, "seed": rng.randrange(10 ** 6),
                      "order": "random" if quick else "dfs"})
    for name in ("doc-reader-writer", "init-vs-docset", "init-same-empty"):
        scn = [s for s in scenarios() if s["name"] == name][0]
        descs.append({"scn": dict(scn, threads=True, config="default", name=name + "-default"),
                      "budget": 150 if quick else 3000, "seed": rng.randrange(10 ** 6), "order": "random"})
    for name in ("init-same-empty", "init-same-populated"):
        scn = [s for s in scenarios() if s["name"] == name][0]
        descs.append({"scn": dict(scn, threads=False, name=name + "-direct"), "budget": 100 if quick else 2500,
                      "seed": rng.randrange(10 ** 6), "order": "random"})
    return descs
