"""C05 — job and project documents are faithful persistent dicts; buffering is transparent."""
import copy
import itertools
import json
import os

from .common import (Case, coq_bool, coq_ftab, coq_json, coq_list, coq_N, coq_opt, coq_str, exn_name, scratch_dir,
                     to_plain, typed, untyped)

PROP = "C05"
IMPORTS = "Base Json Canon Doc CorrC05"
CASE_TYPE = "case_C05"
MISMATCHES = "mismatches_C05"
VIOLATIONS = "violations_C05"
KNOWN = "known_C05"
SHARD = 60
RULE = ("programs over the documents of 1-3 jobs + the project document, each through 1-3 Job/Project objects: "
        "item/attribute set, del, update, setdefault, pop, clear, reset (also via `job.document = d`), nested dict and "
        "list mutation by path, reads through every object; a root-level clear of a job document also spelled job.clear() / "
        "job.reset(); Job objects obtained by open_job(statepoint), by iteration, by open_job(id=), by signac.get_job(<abs / "
        "relative job directory>) (project documents also through get_job(...).project), provenance of the Project object "
        "(init_project, get_project abs / rel, Project(rel), Project(path with ..), symlinked prefix); shallow copies "
        "(copy.copy before the document was accessed) that follow a state point change made through another copy; "
        "lifecycle items (init, remove, re-key, move, open by cached id) outside blocks (remove / init also inside); "
        "each base sequence is run unbuffered, wrapped in `with signac.buffered()` (capacities default/0/1/small), and "
        "with random nested sub-blocks + set_buffer_capacity; JSON backend thread support on and off. "
        "quick: seeded random sequences (<=40 ops) + golden scripts; thorough: additionally all sequences of length "
        "<=3 over a 14-symbol alphabet on one job through two objects x {unbuffered, buffered, buffered capacity 0}. "
        "After EVERY item: returned value / exception class, every document file (json.load), the set of job "
        "directories, is_buffered(), stray entries. non-trivial: >=1 mutation and (>=2 objects on one file, or a "
        "mutation inside a buffered block, or a nested/list mutation, or a lifecycle item); distinct by program text")
TRUSTED = [
    "synced_collections 1.0.1 is modelled (merge-on-load, write protocol, serialized file buffer), not verified",
    "float.__repr__ oracle table only influences the byte length of buffer entries (forced-flush timing)",
    "md5 of the buffer entry is modelled as equality of the encoded data (no collision)",
    "file metadata (size, mtime_ns) of a buffered file does not change while it is buffered (single process)",
]
ASSUMPTIONS = [
    "keys are strings without '.', values are JSON values without NaN/inf (validators of the backend reject the rest)",
    "equality of documents is Python's == (True == 1 == 1.0); the type-exact statement is refuted in Coq "
    "(C05_doc_faithful_typed_refuted) and the model reproduces the retained value",
    "re-key/remove are not mixed with buffered blocks (outside the property's statement)",
]

# how a Job/Project object is obtained (handle provenance); all of them must be ONE handle-equivalence class
PROV_INIT, PROV_GET_ABS, PROV_GET_REL, PROV_CTOR_REL, PROV_CTOR_DOTDOT, PROV_CTOR_SYMLINK = range(6)
PROVS = [PROV_INIT, PROV_GET_ABS, PROV_GET_REL, PROV_CTOR_REL, PROV_CTOR_REL, PROV_CTOR_DOTDOT, PROV_CTOR_SYMLINK]
# chdir targets, ALL inside the case's scratch directory: 0 parent of the project, 1 project root, 2 workspace,
# 3 an empty sibling directory `elsewhere`, 4 the deeper `elsewhere/x/y`.  The project sits three levels below the
# case directory (d1/d2/d3/p): a relative path computed in the deepest cwd has three '..' components, so resolved
# against any of the other cwds (by a tree under test that does not absolutise it) it still lands inside the case
# directory — a check must not be able to write outside its scratch tree even against a broken tree.
NCWD = 5
# how a Job object is obtained from its Project object: 0 open_job(statepoint), 1 iteration over the project,
# 2 open_job(id=<full id>), 3 signac.get_job(<job directory>), 4 signac.get_job(<relative path of the job directory>).
# 1-4 need the job directory (the harness falls back to 0 when it does not exist); 3/4 come with a Project object of
# their own.  For a project document 3/4 mean `signac.get_job(<some job directory>).project`.
HOW_SP, HOW_ITER, HOW_ID, HOW_GETJOB, HOW_GETJOB_REL = range(5)

DEFAULT_CAP = 32 * 2 ** 20
NFILES = 4   # file 0 = project document, files 1..3 = jobs with state point {"a": f}
KEYS = ["a", "b", "c", "k d", "é"]
ATOMS = [None, True, False, 0, 1, 1.0, -1, 0.5, "", "x", "é", 2 ** 40]


def sp_of(f):
    return {"a": f}


# ------------------------------------------------------------------ plain reference (generation only)
def _get(d, path):
    for p in path:
        d = d[p]
    return d


def ref_apply(d, path, op):
    """Plain python semantics; returns nothing (mutates d); raises like dict/list."""
    t = _get(d, path)
    k = op[0]
    if k == "get":
        return
    if k == "set":
        t[op[1]] = copy.deepcopy(op[2])
    elif k == "del":
        del t[op[1]]
    elif k == "update":
        t.update(copy.deepcopy(op[1]))
    elif k == "setdefault":
        t.setdefault(op[1], copy.deepcopy(op[2]))
    elif k == "pop":
        t.pop(op[1], None)
    elif k == "clear":
        t.clear()
    elif k == "reset":
        t.clear()
        t.update(copy.deepcopy(op[1]))
    elif k == "append":
        t.append(copy.deepcopy(op[1]))
    elif k == "lset":
        t[op[1]] = copy.deepcopy(op[2])
    elif k == "ldel":
        del t[op[1]]
    elif k == "extend":
        t.extend(copy.deepcopy(op[1]))
    elif k == "insert":
        t.insert(op[1], copy.deepcopy(op[2]))
    elif k == "lclear":
        del t[:]
    else:
        raise AssertionError(op)


def rand_value(rng, depth):
    r = rng.random()
    if depth <= 0 or r < 0.55:
        if rng.random() < 0.15:
            return rng.choice([rng.randint(-10 ** 6, 10 ** 6), rng.uniform(-10, 10), "s" * rng.randint(1, 30)])
        return rng.choice(ATOMS)
    if r < 0.75:
        return [rand_value(rng, depth - 1) for _ in range(rng.randint(0, 3))]
    return {k: rand_value(rng, depth - 1) for k in rng.sample(KEYS, rng.randint(0, 3))}


def containers(d, path=()):
    """All (path, container) pairs inside a plain document."""
    out = [(list(path), d)]
    if isinstance(d, dict):
        for k, v in d.items():
            if isinstance(v, (dict, list)):
                out += containers(v, path + (k,))
    elif isinstance(d, list):
        for i, v in enumerate(d):
            if isinstance(v, (dict, list)):
                out += containers(v, path + (i,))
    return out


def rand_op(rng, doc):
    """A type-correct operation on a random container of the plain document `doc`."""
    cs = containers(doc)
    path, t = cs[0] if rng.random() < 0.6 else rng.choice(cs)
    if isinstance(t, dict):
        present = list(t)
        anykey = lambda: rng.choice(present) if present and rng.random() < 0.6 else rng.choice(KEYS)  # noqa: E731
        kind = rng.choice(["set", "set", "set", "del", "update", "setdefault", "pop", "clear", "reset", "get"])
        if kind == "set":
            return path, ["set", anykey(), rand_value(rng, 2)]
        if kind == "del":
            return path, ["del", anykey()]
        if kind == "update":
            return path, ["update", {k: rand_value(rng, 1) for k in rng.sample(KEYS, rng.randint(0, 3))}]
        if kind == "setdefault":
            return path, ["setdefault", anykey(), rand_value(rng, 1)]
        if kind == "pop":
            return path, ["pop", anykey(), rng.choice([None, 0, "dflt"])]
        if kind == "reset":
            return path, ["reset", {k: rand_value(rng, 1) for k in rng.sample(KEYS, rng.randint(0, 3))}]
        return path, [kind]
    n = len(t)
    kind = rng.choice(["append", "append", "lset", "ldel", "extend", "insert", "lclear", "get"])
    idx = lambda: rng.randint(0, n - 1) if n and rng.random() < 0.85 else n + rng.randint(0, 1)  # noqa: E731
    if kind == "append":
        return path, ["append", rand_value(rng, 1)]
    if kind == "lset":
        return path, ["lset", idx(), rand_value(rng, 1)]
    if kind == "ldel":
        return path, ["ldel", idx()]
    if kind == "extend":
        return path, ["extend", [rand_value(rng, 0) for _ in range(rng.randint(0, 2))]]
    if kind == "insert":
        return path, ["insert", rng.randint(0, n + 1), rand_value(rng, 1)]
    return path, [kind]


class Gen:
    """Generates one base program (no buffering markers) and keeps a plain reference for type-correctness."""

    def __init__(self, rng, nfiles, nhandles, lifecycle):
        self.rng = rng
        self.items = []
        self.ref = {}
        self.dirs = set()
        self.fid = {}       # object -> file
        self.live = []
        self.nj = 0
        self.pobj = {}      # object -> id of the Project object behind it
        self.created = {}   # Project object -> files (ids) whose job directory was created through it: these ids
                            # are in that object's state point cache, also after the job was removed / re-keyed
        self.prov = {}
        self.group = {}     # object -> group of shallow copies (copy.copy): they share the state point, so a state
                            # point change through one of them re-keys all of them
        self.hasdoc = set()  # objects whose `_document` exists (a shallow copy would share it)
        self.nosp = set()    # objects opened by id whose state point may never have been loaded: by design such an object
                             # cannot re-create its job after remove() (JobsCorruptedError) - not used again after one
        files = [0] + rng.sample([1, 2, 3], nfiles - 1) if nfiles > 1 else [rng.choice([0, 1])]
        for f in files:
            for _ in range(rng.randint(1, nhandles)):
                j = self.open(f)
                if lifecycle and f and rng.random() < 0.3:
                    self.copy(j)
        self.lifecycle = lifecycle

    def open(self, f):
        j = self.nj
        self.nj += 1
        rng = self.rng
        same = [x for x in self.live if self.fid[x] // 10 == f // 10]
        # often the way an earlier handle of the same project was obtained (e.g. two objects through the symlink)
        self.prov[j] = self.prov[rng.choice(same)] if same and rng.random() < 0.4 else rng.choice(PROVS)
        how = HOW_SP
        if (f in self.dirs or (f % 10 == 0 and any(g // 10 == f // 10 for g in self.dirs))) and rng.random() < 0.6:
            how = rng.choice([HOW_ITER, HOW_ID, HOW_GETJOB, HOW_GETJOB, HOW_GETJOB_REL]) if f % 10 else HOW_GETJOB
        self.items.append(["open", j, f, self.prov[j], how])
        if how != HOW_SP and f % 10:
            self.nosp.add(j)
        self.fid[j] = f
        self.pobj[j] = j
        self.group[j] = j
        self.live.append(j)
        return j

    def copy(self, j0):
        """jn = copy.copy(j0) of a Job object whose document was not accessed yet (each gets its own document
        handle): another object for the same job that follows state point changes made through j0 - and leads them"""
        if self.fid[j0] % 10 == 0 or j0 in self.hasdoc or j0 not in self.live:
            return None
        jn = self.nj
        self.nj += 1
        self.nosp.discard(j0)                              # copying instantiates the state point
        self.items.append(["copy", jn, j0, self.fid[j0], self.prov[j0]])
        self.fid[jn] = self.fid[j0]
        self.pobj[jn] = self.pobj[j0]
        self.prov[jn] = self.prov[j0]
        self.group[jn] = self.group[j0]
        self.live.append(jn)
        return jn

    def follow(self, j, f2):
        """after a state point change through j: its shallow copies are objects for the re-keyed job now (their lazily
        created document handles were dropped); every other object for the old id is not used again"""
        for x in list(self.live):
            if x == j or self.fid[x] != self.fid[j]:
                continue
            if self.group[x] == self.group[j]:
                self.items.append(["follow", x, f2, self.prov[x]])
                self.fid[x] = f2
                self.hasdoc.discard(x)
            else:
                self.live.remove(x)

    def touch(self, j, doc=True):
        """a document operation / init through j: creates the job directory if it does not exist"""
        f = self.fid[j]
        if doc:
            self.hasdoc.add(j)
        if f % 10 and f not in self.dirs:
            self.created.setdefault(self.pobj[j], set()).add(f)
        self.dirs.add(f)

    def step(self, allow_life):
        rng = self.rng
        if not self.live:
            self.open(rng.choice([0, 1, 2, 3]))
        if self.lifecycle and rng.random() < 0.04:
            self.open(rng.choice([10, 11, 12, 13]))      # a handle in the second project
        if rng.random() < 0.07:
            self.items.append(["chdir", rng.randrange(NCWD)])
        j = rng.choice(self.live)
        f = self.fid[j]
        if allow_life and self.lifecycle and f % 10 != 0 and rng.random() < 0.16:
            kind = rng.choice(["remove", "rekey", "rekey", "init", "open", "move", "openid", "openid", "copy", "copy"])
            if kind == "copy":
                cands = [x for x in self.live if self.fid[x] % 10 and x not in self.hasdoc]
                if cands:
                    self.copy(rng.choice(cands))
                return True
            if kind == "open":
                self.open(rng.choice([0, 1, 2, 3]))
                return True
            if kind == "init":
                self.items.append(["init", j])
                self.touch(j, doc=False)
                return True
            if kind == "openid":
                # project.open_job(id=...) through the Project object of an existing handle, for an id that object has
                # in its state point cache: a current job, a removed one, or a former id of a re-keyed / moved one
                cands = [(x, g) for x in self.live for g in sorted(self.created.get(self.pobj[x], ()))]
                if not cands:
                    return True
                j0, g = rng.choice(cands)
                jn = self.nj
                self.nj += 1
                self.items.append(["openid", jn, j0, g, self.prov[j0]])
                self.fid[jn] = g
                self.pobj[jn] = self.pobj[j0]
                self.prov[jn] = self.prov[j0]
                self.group[jn] = jn
                self.live.append(jn)
                return True
            others = [x for x in self.live if x != j and self.fid[x] == f]
            if kind == "move":
                if f >= 10:
                    return True
                self.items.append(["move", j])
                if f not in self.dirs:
                    pass                                   # RuntimeError: not initialized
                elif f + 10 in self.dirs:
                    pass                                   # DestinationExistsError, nothing changed
                else:
                    self.dirs.discard(f)
                    self.dirs.add(f + 10)
                    if f in self.ref:
                        self.ref[f + 10] = self.ref.pop(f)
                    else:
                        self.ref.pop(f + 10, None)
                    self.fid[j] = f + 10
                    self.nosp.discard(j)
                    self.hasdoc.discard(j)
                    self.group[j] = ("moved", j, len(self.items))  # detached from its shallow copies
                    self.pobj[j] = ("moved", j, len(self.items))   # the destination project's object
                    self.prov[j] = PROV_GET_ABS
                    self.created.setdefault(self.pobj[j], set()).add(f + 10)   # move registers the id there
                    for x in others:
                        self.live.remove(x)
                return True
            if kind == "remove":
                self.items.append(["remove", j])
                if f in self.dirs:
                    self.dirs.discard(f)
                    self.ref.pop(f, None)
                    self.hasdoc.discard(j)
                    for x in others + ([j] if j in self.nosp else []):
                        self.live.remove(x)
                return True
            f2 = rng.choice([x for x in (1, 2, 3) if x != f % 10]) + (f // 10) * 10
            self.items.append(["rekey", j, f2])
            self.nosp.discard(j)
            if f not in self.dirs:
                # not initialised: only the id changes (for every shallow copy as well); other objects stay on f
                for x in [x for x in self.live if x != j and self.fid[x] == f and self.group[x] == self.group[j]]:
                    self.items.append(["follow", x, f2, self.prov[x]])
                    self.fid[x] = f2
                    self.hasdoc.discard(x)
                self.fid[j] = f2
                self.hasdoc.discard(j)
            elif f2 in self.dirs:
                # DestinationExistsError; the job object is left with the new state point in memory (C04's
                # business: a later init() through it writes a state point that does not match its id) - not used again
                for x in [x for x in self.live if self.group[x] == self.group[j]]:
                    self.live.remove(x)
            else:
                self.dirs.discard(f)
                self.dirs.add(f2)
                self.created.setdefault(self.pobj[j], set()).add(f2)     # the new id is registered on re-init
                if f in self.ref:
                    self.ref[f2] = self.ref.pop(f)
                else:
                    self.ref.pop(f2, None)
                self.follow(j, f2)
                self.fid[j] = f2
                self.hasdoc.discard(j)
            return True
        doc = self.ref.setdefault(f, {})
        self.touch(j)
        if rng.random() < 0.08:
            # a statement whose VALUE is a live view of a document: of the same handle, of another handle on the same
            # file, of another file; whole assignment, item assignment, update.  First an explicit read of the
            # viewed document (checked like every read), then the statement; the plain reference takes the value the
            # view had before the statement.
            j2 = rng.choice([x for x in self.live if self.fid[x] == f] if rng.random() < 0.7 else self.live)
            self.touch(j2)
            doc2 = self.ref.setdefault(self.fid[j2], {})
            cs = [(p_, c_) for p_, c_ in containers(doc2) if isinstance(c_, dict)]
            path2, val = rng.choice(cs) if rng.random() < 0.5 else cs[0]
            val = copy.deepcopy(val)
            kind = rng.choice(["reset", "reset", "set", "update"])
            tpath = []
            if kind != "reset":
                dcs = [(p_, c_) for p_, c_ in containers(doc) if isinstance(c_, dict)]
                tpath = (rng.choice(dcs) if rng.random() < 0.4 else dcs[0])[0]
            op = [kind, val] if kind in ("reset", "update") else ["set", rng.choice(KEYS), val]
            if self.fid[j2] == f and kind != "set" and len(path2) > len(tpath) and list(path2)[:len(tpath)] == tpath:
                # reset/update of a container with a view of something INSIDE it: _update works in place on the very
                # object that is the value (unchanged tree: `doc = {'b': {'b': ..}}; doc = doc.b` leaves `{}`) -
                # reported to the coordinator, not generated
                return True
            if self.fid[j2] == f and tpath[:len(path2)] == list(path2) and (kind == "set" or len(tpath) > len(path2)):
                # the viewed value would contain the container it is stored into: a plain dict becomes self-referential
                # there (not a JSON value), so there is no reference to compare with - not generated
                return True
            self.items.append(["op", j2, path2, ["get"]])
            self.items.append(["opl", j, tpath, op, j2, path2, rng.choice(["doc", "document", "copy"])])
            ref_apply(doc, tpath, op)
            return True
        path, op = rand_op(rng, doc)
        if op[0] == "clear" and not path and f % 10:
            # for the document Job.clear() and Job.reset() ARE document.clear() (the job directory exists here)
            self.items.append(["op", j, path, op, rng.choice(["doc", "jobclear", "jobreset", "jobreset"])])
        else:
            self.items.append(["op", j, path, op])
        try:
            ref_apply(doc, path, op)
        except (KeyError, IndexError):
            pass
        return op[0] != "get"

    def reads(self, f=None):
        for j in self.live:
            if f is None or self.fid[j] == f:
                self.items.append(["op", j, [], ["get"]])
                self.touch(j)
                self.ref.setdefault(self.fid[j], {})


def base_program(rng, nops, nfiles, nhandles, lifecycle):
    g = Gen(rng, nfiles, nhandles, lifecycle)
    for _ in range(nops):
        mutated = g.step(True)
        if mutated and rng.random() < 0.5:
            g.reads(g.fid[g.items[-1][1]] if g.items[-1][0] == "op" else None)
    g.reads()
    return g.items, list(g.live)


def wrap_all(items, cap, live):
    opens = [i for i in items if i[0] == "open"]
    rest = [i for i in items if i[0] != "open"]
    return opens + [["enter", cap]] + rest + [["exit"]] + _final_reads(live)


def _final_reads(live):
    """Reads through every Job/Project object that is still in use (objects whose job was removed or re-keyed
    through another object are not used again)."""
    return [["op", j, [], ["get"]] for j in sorted(live)]


def is_life(i):
    return i[0] in ("remove", "rekey", "init", "move")


def strip_life(items):
    """The program without lifecycle items; open-by-id handles (legal only because of them) and their uses go too.
    Shallow copies: without the lifecycle items an object stays on the job it was opened for, and a copy is kept only
    if - in the stripped order - its original has not accessed its document yet (else the two would share one
    document handle, which the programs do not contain)."""
    gone = {i[1] for i in items if i[0] == "openid"}
    fid, hasdoc, out = {}, set(), []
    for i in items:
        k = i[0]
        if is_life(i) or k in ("openid", "follow"):
            continue
        if k == "open":
            fid[i[1]] = i[2]
        elif k == "copy":
            if i[2] in gone or i[2] in hasdoc or i[2] not in fid:
                gone.add(i[1])
                continue
            fid[i[1]] = fid[i[2]]
            i = ["copy", i[1], i[2], fid[i[2]], i[4]]
        elif k in ("op", "opl"):
            if i[1] in gone or (k == "opl" and i[4] in gone):
                continue
            hasdoc.add(i[1])
            if k == "opl":
                hasdoc.add(i[4])
                # inside blocks the statement is written with the plain value (its extra loads of the viewed document
                # would matter for the buffer's flush timing)
                i = ["op"] + i[1:4]
        out.append(i)
    return out


def closes_blocks(i):
    """re-key and move are kept outside buffered blocks (outside the property's statement; see notes: a buffered
    write followed by an id change / move in the same block is lost on the unchanged tree); remove/init/open are not"""
    return i[0] in ("rekey", "move", "opl")


def random_blocks(rng, items, live):
    """Insert properly nested enter/exit markers (and set_buffer_capacity) around runs without lifecycle items."""
    out, depth = [], 0
    for it in items:
        if closes_blocks(it):
            while depth:
                out.append(["exit"])
                depth -= 1
            out.append(it)
            continue
        r = rng.random()
        if r < 0.18 and depth < 3:
            out.append(["enter", rng.choice([None, None, 0, 1, 30, 100, DEFAULT_CAP])])
            depth += 1
        elif r < 0.30 and depth:
            out.append(["exit"])
            depth -= 1
        elif r < 0.34:
            out.append(["setcap", rng.choice([0, 10, 60, 200, DEFAULT_CAP])])
        out.append(it)
    while depth:
        out.append(["exit"])
        depth -= 1
    return out + _final_reads(live)


GOLDEN = [
    # Job.reset() / Job.clear() are document.clear() for the document (seeded C05-10): a second object that has read the
    # document sees the reset; inside a block, with the document file existing before the block, nothing is lost
    {"cap0": DEFAULT_CAP, "threads": True, "label": "golden-job-reset", "prog": [
        ["open", 0, 1, PROV_GET_ABS], ["open", 1, 1, PROV_GET_REL], ["op", 0, [], ["set", "x", 0]], ["op", 0, [], ["set", "y", [1, {"z": 2}]]],
        ["op", 1, [], ["get"]], ["op", 0, [], ["clear"], "jobreset"], ["op", 0, [], ["get"]], ["op", 1, [], ["get"]],
        ["op", 0, [], ["set", "c", 3]], ["op", 1, [], ["get"]], ["op", 1, [], ["clear"], "jobclear"], ["op", 0, [], ["get"]],
        ["op", 0, [], ["set", "d", 4]], ["enter", None], ["op", 0, [], ["set", "a", 1]], ["op", 0, [], ["clear"], "jobreset"],
        ["op", 0, [], ["get"]], ["op", 0, [], ["set", "c", 4]], ["op", 0, [], ["get"]], ["exit"], ["op", 0, [], ["get"]], ["op", 1, [], ["get"]]]},
    # shallow copies of a Job object (taken before its document was accessed) follow - and lead - state point changes
    # (seeded C05-11): objects obtained by iteration and by state point
    {"cap0": DEFAULT_CAP, "threads": True, "label": "golden-copy-follows-rekey", "prog": [
        ["open", 0, 1, PROV_GET_ABS], ["init", 0], ["open", 1, 1, PROV_GET_ABS, HOW_ITER], ["copy", 2, 1, 1, PROV_GET_ABS],
        ["op", 1, [], ["set", "x", 1]], ["op", 2, [], ["get"]], ["rekey", 1, 2], ["follow", 2, 2, PROV_GET_ABS], ["op", 2, [], ["get"]],
        ["op", 2, [], ["set", "z", {"k": None}]], ["op", 1, [], ["del", "x"]], ["op", 1, [], ["get"]], ["op", 2, [], ["get"]],
        ["open", 3, 2, PROV_GET_REL], ["op", 3, [], ["get"]],
        ["open", 4, 3, PROV_CTOR_REL], ["copy", 5, 4, 3, PROV_CTOR_REL], ["op", 4, [], ["set", "q", 1]], ["rekey", 5, 1],
        ["follow", 4, 1, PROV_CTOR_REL], ["op", 4, [], ["get"]], ["op", 5, [], ["get"]], ["op", 5, [], ["set", "r", 2]], ["op", 4, [], ["get"]]]},
    # objects from signac.get_job(<job directory>) (and their .project) next to objects of the Project object the path
    # was taken from, project reached through a symlinked prefix, both writing in one block (seeded C05-12)
    {"cap0": DEFAULT_CAP, "threads": True, "label": "golden-getjob-symlink", "prog": [
        ["open", 0, 1, PROV_CTOR_SYMLINK], ["init", 0], ["open", 1, 1, PROV_CTOR_SYMLINK, HOW_GETJOB], ["open", 2, 0, PROV_CTOR_SYMLINK],
        ["open", 3, 0, PROV_CTOR_SYMLINK, HOW_GETJOB], ["op", 0, [], ["set", "a", 1]], ["op", 1, [], ["get"]],
        ["enter", None], ["op", 0, [], ["set", "b", [2]]], ["op", 1, [], ["set", "c", {"d": None}]], ["op", 2, [], ["set", "p", 1]],
        ["op", 3, [], ["set", "q", [True]]], ["exit"], ["op", 0, [], ["get"]], ["op", 1, [], ["get"]], ["op", 2, [], ["get"]], ["op", 3, [], ["get"]]]},
    # statements whose value is a live view of the same document (seeded C05-7: `job.doc = job.doc` must not empty it)
    {"cap0": DEFAULT_CAP, "threads": True, "label": "golden-live-view", "prog": [
        ["open", 0, 1, PROV_GET_ABS], ["open", 1, 1, PROV_GET_REL], ["op", 0, [], ["reset", {"a": {"k": 1}, "b": [1, 2]}]],
        ["op", 0, [], ["get"]], ["opl", 0, [], ["reset", {"a": {"k": 1}, "b": [1, 2]}], 0, [], "doc"], ["op", 0, [], ["get"]],
        ["op", 0, [], ["get"]], ["opl", 1, [], ["reset", {"a": {"k": 1}, "b": [1, 2]}], 0, [], "document"], ["op", 1, [], ["get"]],
        ["op", 0, [], ["get"]], ["opl", 0, [], ["reset", {"a": {"k": 1}, "b": [1, 2]}], 0, [], "copy"], ["op", 0, [], ["get"]],
        ["op", 0, ["a"], ["get"]], ["opl", 0, [], ["set", "a", {"k": 1}], 0, ["a"], "doc"], ["op", 0, [], ["get"]],
        ["op", 0, [], ["get"]], ["opl", 0, [], ["update", {"a": {"k": 1}, "b": [1, 2]}], 0, [], "doc"], ["op", 0, [], ["get"]],
        ["open", 2, 0, PROV_GET_ABS], ["op", 0, [], ["get"]], ["opl", 2, [], ["reset", {"a": {"k": 1}, "b": [1, 2]}], 0, [], "doc"],
        ["op", 2, [], ["get"]]]},
    # lifecycle between document operations (seeded C05-8 / C05-9): move to the second project; remove + reopen by the
    # cached id; re-key + reopen by the former id - each followed by reads/writes through old and fresh handles
    {"cap0": DEFAULT_CAP, "threads": True, "label": "golden-move", "prog": [
        ["open", 0, 1, PROV_GET_ABS], ["op", 0, [], ["set", "x", 1]], ["move", 0], ["op", 0, [], ["get"]], ["op", 0, [], ["set", "y", 2]],
        ["open", 1, 11, PROV_GET_ABS], ["op", 1, [], ["get"]], ["op", 1, [], ["set", "w", 0]], ["op", 0, [], ["get"]],
        ["enter", None], ["op", 0, [], ["set", "z", 3]], ["op", 0, [], ["get"]], ["exit"], ["op", 1, [], ["get"]], ["op", 0, [], ["get"]]]},
    {"cap0": DEFAULT_CAP, "threads": True, "label": "golden-reopen-removed-id", "prog": [
        ["open", 0, 1, PROV_GET_ABS], ["op", 0, [], ["set", "x", 1]], ["remove", 0], ["openid", 1, 0, 1, PROV_GET_ABS],
        ["op", 1, [], ["set", "y", 2]], ["op", 1, [], ["get"]], ["open", 2, 1, PROV_GET_REL], ["op", 2, [], ["get"]],
        ["remove", 2], ["openid", 3, 0, 1, PROV_GET_ABS], ["enter", None], ["op", 3, [], ["set", "z", 3]], ["op", 3, [], ["get"]], ["exit"],
        ["op", 3, [], ["get"]], ["open", 4, 1, PROV_GET_ABS], ["op", 4, [], ["get"]]]},
    {"cap0": DEFAULT_CAP, "threads": True, "label": "golden-reopen-former-id", "prog": [
        ["open", 0, 1, PROV_CTOR_REL], ["op", 0, [], ["set", "x", 1]], ["rekey", 0, 2], ["openid", 1, 0, 1, PROV_CTOR_REL],
        ["op", 1, [], ["get"]], ["op", 1, [], ["set", "y", 2]], ["op", 0, [], ["get"]], ["open", 2, 1, PROV_GET_ABS], ["op", 2, [], ["get"]],
        ["openid", 3, 0, 2, PROV_CTOR_REL], ["op", 3, [], ["get"]]]},
    # handle provenance and working directory (seeded demo C05-5): a signac.Project("relative") object next to a
    # get_project() object on the project document and on a job document, with chdir in between
    {"cap0": DEFAULT_CAP, "threads": True, "label": "golden-provenance", "prog": [
        ["open", 0, 0, PROV_CTOR_REL], ["open", 1, 0, PROV_GET_ABS], ["op", 0, [], ["set", "a", 1]],
        ["op", 1, [], ["set", "b", {"c": [1, 2]}]], ["op", 0, [], ["get"]], ["op", 1, [], ["get"]],
        ["enter", None], ["op", 0, [], ["set", "x", 10]], ["op", 0, ["b", "c"], ["append", 3]], ["op", 0, [], ["pop", "a", None]],
        ["op", 0, [], ["get"]], ["exit"], ["op", 0, [], ["get"]], ["op", 1, [], ["get"]],
        ["open", 2, 1, PROV_CTOR_REL], ["open", 3, 1, PROV_GET_ABS], ["op", 2, [], ["set", "k", 1]], ["chdir", 2],
        ["op", 2, [], ["get"]], ["op", 3, [], ["get"]], ["op", 2, [], ["set", "m", 2]], ["chdir", 3], ["op", 3, [], ["get"]],
        ["op", 2, [], ["get"]], ["enter", 40], ["op", 3, [], ["set", "n", [1]]], ["chdir", 0], ["op", 3, [], ["get"]], ["exit"],
        ["op", 2, [], ["get"]], ["op", 3, [], ["get"]]]},
    # two spellings of one job document (symlinked prefix) written in one block: two buffer entries (known finding 4)
    {"cap0": DEFAULT_CAP, "threads": True, "label": "golden-symlink-two-keys", "prog": [
        ["open", 0, 1, PROV_GET_ABS], ["open", 1, 1, PROV_CTOR_SYMLINK], ["init", 0], ["enter", None], ["op", 0, [], ["set", "x", 1]],
        ["op", 1, [], ["set", "y", 2]], ["op", 0, [], ["get"]], ["op", 1, [], ["get"]], ["exit"], ["op", 0, [], ["get"]], ["op", 1, [], ["get"]]]},
    {"cap0": DEFAULT_CAP, "threads": True, "label": "golden-provenance-symlink-unbuffered", "prog": [
        ["open", 0, 1, PROV_CTOR_SYMLINK], ["open", 1, 1, PROV_GET_REL], ["open", 2, 1, PROV_CTOR_DOTDOT], ["op", 0, [], ["set", "a", 1]],
        ["chdir", 1], ["op", 1, [], ["set", "b", 2]], ["op", 2, [], ["get"]], ["op", 0, [], ["get"]], ["chdir", 4], ["op", 2, [], ["del", "a"]],
        ["op", 0, [], ["get"]], ["op", 1, [], ["get"]]]},
    # the lost update of two objects in one buffered block (known finding 1)
    {"cap0": DEFAULT_CAP, "threads": True, "label": "golden-lost-update", "prog": [
        ["open", 0, 1], ["open", 1, 1], ["enter", None], ["op", 0, [], ["get"]], ["op", 1, [], ["get"]],
        ["op", 0, [], ["set", "x", 1]], ["op", 0, [], ["get"]], ["exit"], ["op", 0, [], ["get"]], ["op", 1, [], ["get"]]]},
    # update()/reset() keep an existing value that compares == (1 stays 1 when True / 1.0 is stored)
    {"cap0": DEFAULT_CAP, "threads": True, "label": "golden-retention", "prog": [
        ["open", 0, 1], ["op", 0, [], ["set", "x", 1]], ["op", 0, [], ["update", {"x": True}]], ["op", 0, [], ["get"]],
        ["op", 0, [], ["reset", {"x": 1.0}]], ["op", 0, [], ["get"]], ["op", 0, [], ["set", "x", 1.0]], ["op", 0, [], ["get"]]]},
    # with a second (stale) collection and a small capacity the writer does not read its own write back
    # (witness of C05_read_own_writes_refuted; same defect as known finding 1)
    {"cap0": DEFAULT_CAP, "threads": True, "label": "golden-own-write-lost", "prog": [
        ["open", 0, 1], ["open", 1, 1], ["op", 0, [], ["clear"]], ["enter", 3], ["op", 0, [], ["get"]], ["op", 1, [], ["get"]],
        ["op", 0, [], ["set", "x", 1]], ["op", 0, [], ["get"]], ["exit"], ["op", 0, [], ["get"]], ["op", 1, [], ["get"]]]},
    # update() keeps a value that compares == (witness of C05_doc_faithful_typed_refuted; Python-equal, no violation)
    {"cap0": DEFAULT_CAP, "threads": True, "label": "golden-typed", "prog": [
        ["open", 0, 1], ["op", 0, [], ["set", "x", 1]], ["op", 0, [], ["update", {"x": True}]], ["op", 0, [], ["get"]]]},
    # remove + re-init inside one block (seeded demo C05-3): fresh job, the document must start afresh
    {"cap0": DEFAULT_CAP, "threads": True, "label": "golden-remove-in-block", "prog": [
        ["open", 0, 1], ["open", 1, 2], ["init", 0], ["enter", None], ["op", 0, [], ["set", "stale", {"n": [1, 2, 3]}]],
        ["op", 1, [], ["set", "o", 1]], ["op", 0, [], ["get"]], ["remove", 0], ["init", 0], ["op", 0, [], ["get"]],
        ["op", 0, [], ["setdefault", "fresh", True]], ["op", 0, [], ["get"]], ["exit"], ["op", 0, [], ["get"]],
        ["open", 2, 1], ["op", 2, [], ["get"]], ["op", 1, [], ["get"]]]},
    {"cap0": DEFAULT_CAP, "threads": True, "label": "golden-remove-in-block-reopen", "prog": [
        ["open", 0, 1], ["enter", 64], ["op", 0, [], ["set", "stale", 1]], ["remove", 0], ["open", 1, 1],
        ["op", 1, [], ["get"]], ["op", 1, [], ["set", "fresh", 2]], ["exit"], ["op", 1, [], ["get"]]]},
    # the same when the document file already existed: BufferedError on exit, the new data is dropped (known finding 3)
    {"cap0": DEFAULT_CAP, "threads": True, "label": "golden-remove-in-block-existing-file", "prog": [
        ["open", 0, 1], ["op", 0, [], ["set", "old", 1]], ["enter", None], ["op", 0, [], ["set", "stale", 2]], ["remove", 0],
        ["op", 0, [], ["get"]], ["op", 0, [], ["set", "fresh", 3]], ["exit"], ["op", 0, [], ["get"]]]},
    # None cannot replace a container through update()/reset()/reload (known finding 2)
    {"cap0": DEFAULT_CAP, "threads": True, "label": "golden-none-over-container", "prog": [
        ["open", 0, 1], ["op", 0, [], ["set", "c", {"x": 1}]], ["op", 0, [], ["update", {"c": None}]], ["op", 0, [], ["get"]]]},
    {"cap0": DEFAULT_CAP, "threads": True, "label": "golden-none-over-container-reload", "prog": [
        ["open", 0, 1], ["open", 1, 1], ["op", 0, [], ["set", "c", [1]]], ["op", 1, [], ["get"]], ["op", 0, [], ["set", "c", None]],
        ["op", 1, [], ["set", "d", 0]], ["op", 0, [], ["get"]]]},
    # two objects, stale memory of the second one, unbuffered
    {"cap0": DEFAULT_CAP, "threads": True, "label": "golden-two-handles", "prog": [
        ["open", 0, 1], ["open", 1, 1], ["op", 0, [], ["set", "x", 1]], ["op", 1, [], ["get"]], ["op", 0, [], ["set", "x", True]],
        ["op", 1, [], ["set", "y", [1, {"z": 2}]]], ["op", 0, ["y", 1], ["set", "w", 0.5]], ["op", 1, ["y"], ["append", None]],
        ["op", 0, [], ["get"]], ["op", 1, [], ["get"]]]},
    # document handle follows remove and re-key
    {"cap0": DEFAULT_CAP, "threads": True, "label": "golden-follow", "prog": [
        ["open", 0, 1], ["op", 0, [], ["set", "x", 1]], ["rekey", 0, 2], ["op", 0, [], ["get"]], ["op", 0, [], ["set", "y", 2]],
        ["open", 1, 2], ["op", 1, [], ["get"]], ["remove", 0], ["op", 0, [], ["get"]], ["op", 0, [], ["set", "z", 3]],
        ["open", 2, 2], ["op", 2, [], ["get"]], ["open", 3, 0], ["op", 3, [], ["reset", {"p": [1, 2]}]], ["open", 4, 0], ["op", 4, [], ["get"]]]},
    # capacity 0 and nested blocks on two jobs
    {"cap0": DEFAULT_CAP, "threads": True, "label": "golden-nested", "prog": [
        ["open", 0, 1], ["open", 1, 2], ["enter", 0], ["op", 0, [], ["set", "a", 1]], ["enter", None], ["op", 1, [], ["set", "b", [1]]],
        ["exit"], ["op", 1, ["b"], ["append", 2]], ["setcap", 1000], ["op", 0, [], ["set", "c", "x" * 50]], ["exit"],
        ["op", 0, [], ["get"]], ["op", 1, [], ["get"]]]},
]


def alphabet():
    return [
        ["op", 0, [], ["set", "a", 1]], ["op", 1, [], ["set", "a", True]], ["op", 0, [], ["set", "b", {"x": 1}]],
        ["op", 1, ["b"], ["set", "x", [2]]], ["op", 0, [], ["del", "a"]], ["op", 1, [], ["update", {"a": 1.0, "c": None}]],
        ["op", 0, [], ["pop", "a", None]], ["op", 1, [], ["clear"]], ["op", 0, [], ["reset", {"a": 2}]],
        ["op", 0, [], ["setdefault", "a", []]], ["op", 1, ["a"], ["append", 0]], ["op", 0, [], ["get"]], ["op", 1, [], ["get"]],
        ["op", 0, ["b"], ["get"]],
    ]


def exhaustive(maxlen):
    al = alphabet()
    opens = [["open", 0, 1, PROV_CTOR_REL], ["open", 1, 1, PROV_GET_ABS]]
    tail = [["op", 0, [], ["get"]], ["op", 1, [], ["get"]]]
    for n in range(1, maxlen + 1):
        for seq in itertools.product(range(len(al)), repeat=n):
            body = [al[i] for i in seq]
            yield opens + body + tail
            yield opens + [["enter", None]] + body + [["exit"]] + tail
            yield opens + [["enter", 0]] + body + [["exit"]] + tail


def gen_inputs(tier, rng):
    descs = [dict(g, prog=_typed_prog(g["prog"])) for g in GOLDEN]
    nbase = 80 if tier == "quick" else 1500

    def add(prog, label, threads=True, cap0=DEFAULT_CAP):
        descs.append({"cap0": cap0, "threads": threads, "label": label, "prog": _typed_prog(prog)})

    for b in range(nbase):
        nops = rng.choice([3, 6, 10, 20, 40]) if tier == "quick" else rng.choice([2, 4, 8, 16, 30, 40])
        multi = rng.random() < 0.35
        items, live = base_program(rng, nops, rng.randint(1, 4), 3 if multi else 1, lifecycle=rng.random() < 0.5)
        thr = rng.random() < 0.8
        add(items, "unbuffered", thr)
        # without the lifecycle items every object stays in use
        nolife = strip_life(items)
        everyone = sorted({i[1] for i in nolife if i[0] in ("open", "copy")})
        add(wrap_all(nolife, rng.choice([None, None, 0, 1, 40, 200]), everyone), "buffered", thr)
        add(random_blocks(rng, items, live), "sub-blocks", thr, cap0=rng.choice([DEFAULT_CAP, DEFAULT_CAP, 0, 50, 300]))
        if multi:
            add(random_blocks(rng, nolife, everyone), "sub-blocks-shared", thr)
        if any(i[0] == "remove" for i in items) and not any(closes_blocks(i) for i in items):
            # remove / init / re-open inside one block
            add(wrap_all(items, rng.choice([None, None, 0, 40, 200]), live), "buffered-remove", thr)
    if tier != "quick":
        for prog in exhaustive(3):
            add(prog, "exhaustive<=3")
        al = alphabet()
        for _ in range(1500):
            seq = [rng.choice(al) for _ in range(4)]
            opens = [["open", 0, 1], ["open", 1, 1]]
            tail = [["op", 0, [], ["get"]], ["op", 1, [], ["get"]]]
            mode = rng.choice([0, 1, 2])
            pre = [[], [["enter", None]], [["enter", 0]]][mode]
            post = [[], [["exit"]], [["exit"]]][mode]
            add(opens + pre + seq + post + tail, "sampled-4")
    return descs


def _typed_prog(prog):
    return [typed_item(i) for i in prog]


def typed_item(it):
    if it[0] == "op":
        return ["op", it[1], it[2], [it[3][0]] + [typed(x) for x in it[3][1:]]] + list(it[4:])
    if it[0] == "opl":
        return ["opl", it[1], it[2], [it[3][0]] + [typed(x) for x in it[3][1:]]] + list(it[4:])
    return it


def untyped_item(it):
    if it[0] == "opl":
        return ["opl", it[1], it[2], [it[3][0]] + [_untyped_arg(it[3][0], n, x) for n, x in enumerate(it[3][1:])]] + list(it[4:])
    if it[0] == "op":
        return ["op", it[1], it[2], [it[3][0]] + [_untyped_arg(it[3][0], n, x) for n, x in enumerate(it[3][1:])]] + list(it[4:])
    return it


def _untyped_arg(kind, n, x):
    # keys and indices are plain; values are typed()
    if kind in ("set", "setdefault", "pop", "del") and n == 0:
        return x
    if kind in ("lset", "ldel", "insert") and n == 0:
        return x if isinstance(x, int) else untyped(x)
    return untyped(x)


# ------------------------------------------------------------------ emission
def coq_path(p):
    return coq_list(["(PKey %s)" % coq_str(x) if isinstance(x, str) else "(PIdx %s)" % coq_N(x) for x in p], "pelem")


def coq_kvs(d):
    return coq_list(["(%s, %s)" % (coq_str(k), coq_json(v)) for k, v in d.items()], "(str * json)")


def coq_dop(op):
    k = op[0]
    if k == "get":
        return "OGet"
    if k == "set":
        return "(OSet %s %s)" % (coq_str(op[1]), coq_json(op[2]))
    if k == "del":
        return "(ODel %s)" % coq_str(op[1])
    if k == "update":
        return "(OUpdate %s)" % coq_kvs(op[1])
    if k == "setdefault":
        return "(OSetDefault %s %s)" % (coq_str(op[1]), coq_json(op[2]))
    if k == "pop":
        return "(OPop %s %s)" % (coq_str(op[1]), coq_json(op[2]))
    if k == "clear":
        return "OClear"
    if k == "reset":
        return "(OReset %s)" % coq_kvs(op[1])
    if k == "append":
        return "(LAppend %s)" % coq_json(op[1])
    if k == "lset":
        return "(LSet %s %s)" % (coq_N(op[1]), coq_json(op[2]))
    if k == "ldel":
        return "(LDel %s)" % coq_N(op[1])
    if k == "extend":
        return "(LExtend %s)" % coq_list([coq_json(x) for x in op[1]], "json")
    if k == "insert":
        return "(LInsert %s %s)" % (coq_N(op[1]), coq_json(op[2]))
    if k == "lclear":
        return "LClear"
    raise AssertionError(op)


def coq_item(it):
    k = it[0]
    if k == "open":
        return "(JOpen %s %s %s)" % (coq_N(it[1]), coq_N(it[2]), coq_N(it[3] if len(it) > 3 else PROV_GET_ABS))
    if k == "chdir":
        return "(JCwd %s)" % coq_N(it[1])
    if k == "openid":
        # a new Job object for job it[3] through the Project object of handle it[2]; it[4] = that object's provenance
        return "(JOpen %s %s %s)" % (coq_N(it[1]), coq_N(it[3]), coq_N(it[4]))
    if k == "copy":
        # copy.copy of a Job object whose document was not accessed yet: a new object for the same job (it[3]), obtained
        # like the original (it[4]), with a document handle of its own
        return "(JOpen %s %s %s)" % (coq_N(it[1]), coq_N(it[3]), coq_N(it[4]))
    if k == "follow":
        # no action: after a state point change through one of its shallow copies, object it[1] is an object for the
        # re-keyed job it[2] (the reference and the model take it as a fresh object for that job)
        return "(JOpen %s %s %s)" % (coq_N(it[1]), coq_N(it[2]), coq_N(it[3]))
    if k == "move":
        return "(JMove %s)" % coq_N(it[1])
    if k in ("op", "opl"):
        # "opl": the same operation, written in the program with a LIVE view of a document as its value (the model
        # and the reference take the value that view had before the statement - the literal in the item)
        return "(JOp %s %s %s)" % (coq_N(it[1]), coq_path(it[2]), coq_dop(it[3]))
    if k == "rekey":
        return "(JRekey %s %s)" % (coq_N(it[1]), coq_N(it[2]))
    if k == "remove":
        return "(JRemove %s)" % coq_N(it[1])
    if k == "init":
        return "(JInit %s)" % coq_N(it[1])
    if k == "enter":
        return "(JEnter %s)" % coq_opt(None if it[1] is None else coq_N(it[1]))
    if k == "exit":
        return "JExit"
    if k == "setcap":
        return "(JSetCap %s)" % coq_N(it[1])
    raise AssertionError(it)


def coq_res(r):
    return "(Ok %s)" % coq_json(r[1]) if r[0] == "ok" else "(@Err json %s)" % r[1]


def coq_obs(o):
    return "{| o_ret := %s; o_files := %s; o_dirs := %s; o_buffered := %s; o_stray := %s |}" % (
        coq_res(o["ret"]),
        coq_list(["(%s, %s)" % (coq_N(f), coq_json(v)) for f, v in o["files"]], "(N * json)"),
        coq_list([coq_N(f) for f in o["dirs"]], "N"), coq_bool(o["buffered"]), coq_N(o["stray"]))


# ------------------------------------------------------------------ running the implementation
def _reset_backend(signac, cap):
    JD = signac.JSONDict
    ctx = JD._buffer_context
    ctx._count = 0
    ctx._original_buffer_capacitys = []
    ctx._buffer_capacity = None
    JD._buffer.clear()
    JD._buffered_collections = {}
    JD._CURRENT_BUFFER_SIZE = 0
    JD._BUFFER_CAPACITY = cap


def do_op(doc, path, op, rng_attr):
    t = doc
    for p in path:
        t = t[p]
    k = op[0]
    if k == "get":
        if not path:
            return t()
        if not hasattr(t, "_to_base"):
            # d[p1]...[pn] is a scalar: the read is completed by a read of the whole document, so that the statement
            # performs the same loads as for a container (one per path element + one); the observation is the
            # document's value at the path after that load.  (Without it the scalar comes from the LAST path element's
            # load - the same value unless a forced flush between the two loads changed the file under a second buffer
            # key, i.e. only in known-finding-4 programs; found by thorough, round 4.)
            doc()
            v = doc._to_base()
            for p in path:
                v = v[p]
            return v
        # d[p1]...[pn]() loads once more; if that load replaces the child (its type changed on disk / in the buffer
        # through another object) the reference held here is detached and would show the old content.  The
        # observation is the document's value at the path after that load, navigated without further loads.
        t()
        v = doc._to_base()
        for p in path:
            v = v[p]
        return v
    if k == "set":
        key = op[1]
        if rng_attr and key.isidentifier() and not key.startswith("_") and hasattr(t, "_PROTECTED_KEYS") and key not in t._PROTECTED_KEYS:
            setattr(t, key, op[2])
        else:
            t[key] = op[2]
        return None
    if k == "del":
        del t[op[1]]
        return None
    if k == "update":
        return t.update(op[1])
    if k == "setdefault":
        return t.setdefault(op[1], op[2])
    if k == "pop":
        return t.pop(op[1], op[2])
    if k == "clear":
        return t.clear()
    if k == "reset":
        return t.reset(op[1])
    if k == "append":
        return t.append(op[1])
    if k == "lset":
        t[op[1]] = op[2]
        return None
    if k == "ldel":
        del t[op[1]]
        return None
    if k == "extend":
        return t.extend(op[1])
    if k == "insert":
        return t.insert(op[1], op[2])
    if k == "lclear":
        return t.clear()
    raise AssertionError(op)


def project_by_provenance(signac, project, root, prov):
    """A Project object for the project at `root`, obtained in one of the ways users obtain one."""
    if prov == PROV_INIT:
        # a NEW object every time (two handles must be two objects): init_project on an existing project
        return signac.init_project(path=root)
    if prov == PROV_GET_ABS:
        return signac.get_project(root)
    if prov == PROV_GET_REL:
        return signac.get_project(os.path.relpath(root))
    if prov == PROV_CTOR_REL:
        return signac.Project(os.path.relpath(root))
    if prov == PROV_CTOR_DOTDOT:
        return signac.Project(os.path.join(root, "workspace", "..") + os.sep)
    if prov == PROV_CTOR_SYMLINK:
        return signac.Project(os.path.join(os.path.dirname(root), "lnk", os.path.basename(root)))
    raise AssertionError(prov)


def obtain(signac, pr, n, ids, how, may_rel):
    """The object for job n (0: the project itself) of Project object `pr`, obtained in one of the ways users obtain
    one; returns (object, its Project object)."""
    if n == 0:
        if how in (HOW_GETJOB, HOW_GETJOB_REL):
            ws = pr.workspace
            for name in sorted(os.listdir(ws)) if os.path.isdir(ws) else []:
                if name in ids.values() and os.path.isdir(os.path.join(ws, name)):
                    p2 = signac.get_job(os.path.join(ws, name)).project
                    return p2, p2
        return pr, pr
    jid = ids[n]
    jdir = os.path.join(pr.workspace, jid)
    if how == HOW_SP or not os.path.isdir(jdir):
        return pr.open_job(sp_of(n)), pr
    if how == HOW_ITER:
        return next(j for j in pr if j.id == jid), pr
    if how == HOW_ID:
        return pr.open_job(id=jid), pr
    job = signac.get_job(os.path.relpath(jdir) if how == HOW_GETJOB_REL and may_rel else jdir)
    return job, job.project


def _misplaced(root):
    """Entries of the case directory that a correct tree never creates (a relative path resolved against the wrong
    working directory lands here — inside the scratch tree by construction of the layout)."""
    base = os.path.dirname(root)
    top = os.path.dirname(os.path.dirname(os.path.dirname(base)))
    expect = {top: {"d1"}, os.path.join(top, "d1"): {"d2"}, os.path.join(top, "d1", "d2"): {"d3"},
              base: {"p", "p2", "lnk", "elsewhere"}, os.path.join(base, "elsewhere"): {"x"},
              os.path.join(base, "elsewhere", "x"): {"y"}, os.path.join(base, "elsewhere", "x", "y"): set()}
    n = 0
    for d, ok in expect.items():
        try:
            n += len(set(os.listdir(d)) - ok)
        except OSError:
            n += 1
    return n


def run_live(objs, it):
    """`job.doc = other.doc`, `d[k] = view`, `d.update(view)`: the value is a live view of a document (of the same
    or another handle), possibly reached through copy.copy(job).  If the view does not hold the literal of the item
    (the reference diverged in a known-finding program) the statement is executed with the literal instead."""
    import copy as _copy
    _, j, path, op, j2, path2, spelling = it
    src = objs[j2]
    if spelling == "copy" and hasattr(src, "statepoint"):
        src = _copy.copy(src)
    view = src.document
    for p in path2:
        view = view[p]
    # what the view holds NOW (the statement itself loads it as well; outside blocks a load is idempotent)
    snap = view() if hasattr(view, "_to_base") else view
    lit = op[1] if op[0] in ("reset", "update") else op[2]
    value = view if to_plain(snap) == to_plain(lit) and typed(to_plain(snap)) == typed(to_plain(lit)) else lit
    o = objs[j]
    if op[0] == "reset" and not path:
        if spelling == "document":
            o.document = value
        else:
            o.doc = value
        return
    t = o.document
    for p in path:
        t = t[p]
    if op[0] == "reset":
        t.reset(value)
    elif op[0] == "update":
        t.update(value)
    else:
        t[op[1]] = value


def observe(signac, root, ids):
    """Both projects: file ids 0 / n for the first (root), 10 / 10 + n for the second (root + '2')."""
    files, dirs, stray = [], [], _misplaced(root)
    byid = {v: k for k, v in ids.items()}
    paths = {}
    for off, r in ((0, root), (10, root + "2")):
        for name in sorted(os.listdir(r)):
            if name not in (".signac", "workspace", "signac_project_document.json"):
                stray += 1
        paths[off] = os.path.join(r, "signac_project_document.json")
        ws = os.path.join(r, "workspace")
        for name in sorted(os.listdir(ws)) if os.path.isdir(ws) else []:
            f = byid.get(name)
            if f is None or not os.path.isdir(os.path.join(ws, name)):
                stray += 1
                continue
            dirs.append(off + f)
            for e in os.listdir(os.path.join(ws, name)):
                if e == "signac_job_document.json":
                    paths[off + f] = os.path.join(ws, name, e)
                elif e != "signac_statepoint.json":
                    stray += 1
    for f in sorted(paths):
        if os.path.isfile(paths[f]):
            with open(paths[f], "rb") as fh:
                files.append((f, json.loads(fh.read())))
    return {"files": files, "dirs": sorted(dirs), "buffered": bool(signac.is_buffered()), "stray": stray}


def run_case(desc):
    import signac

    prog = [untyped_item(i) for i in desc["prog"]]
    JD = signac.JSONDict
    thr = desc.get("threads", True)
    obs = []
    stack = []
    cwd0 = os.getcwd()
    with scratch_dir("c05") as top:
        top = os.path.realpath(top)
        base = os.path.join(top, "d1", "d2", "d3")
        root = os.path.join(base, "p")
        cwds = [base, root, os.path.join(root, "workspace"), os.path.join(base, "elsewhere"),
                os.path.join(base, "elsewhere", "x", "y")]
        os.makedirs(cwds[4])
        os.symlink(base, os.path.join(base, "lnk"))      # target inside the case directory
        os.chdir(base)
        project = signac.init_project(path=root)
        signac.init_project(path=root + "2")              # the second project (move destination)
        _reset_backend(signac, desc["cap0"])
        (JD.enable_multithreading if thr else JD.disable_multithreading)()
        ids = {f: project.open_job(sp_of(f)).id for f in range(1, NFILES)}
        objs = {}
        fid_of = {}
        proj_of = {}
        try:
            for n, it in enumerate(prog):
                k = it[0]
                try:
                    val = None
                    if k == "open":
                        r_ = root + "2" if it[2] >= 10 else root
                        prov = it[3] if len(it) > 3 else PROV_GET_ABS
                        pr = project_by_provenance(signac, project, r_, prov)
                        objs[it[1]], proj_of[it[1]] = obtain(signac, pr, it[2] % 10, ids, it[4] if len(it) > 4 else HOW_SP,
                                                             prov != PROV_CTOR_SYMLINK)
                        fid_of[it[1]] = it[2]
                    elif k == "copy":
                        objs[it[1]] = copy.copy(objs[it[2]])
                        proj_of[it[1]] = proj_of[it[2]]
                        fid_of[it[1]] = it[3]
                    elif k == "follow":
                        fid_of[it[1]] = it[2]              # nothing is done: the object followed its shallow copy
                    elif k == "openid":
                        # a new Job object by id through the Project object of handle it[2] (the id is in its cache)
                        pr = proj_of[it[2]]
                        objs[it[1]] = pr.open_job(id=ids[it[3] % 10])
                        proj_of[it[1]] = pr
                        fid_of[it[1]] = it[3]
                    elif k == "move":
                        dst = signac.get_project(root + "2")
                        objs[it[1]].move(dst)
                        proj_of[it[1]] = dst
                        fid_of[it[1]] = fid_of[it[1]] + 10
                    elif k == "chdir":
                        os.chdir(cwds[it[1]])
                    elif k == "opl":
                        run_live(objs, it)
                    elif k == "op":
                        o = objs[it[1]]
                        spell = it[4] if len(it) > 4 else ("jobclear" if n % 2 == 1 else "doc")
                        isjob = it[3][0] == "clear" and not it[2] and fid_of.get(it[1], 0) % 10 != 0
                        if it[3][0] == "reset" and not it[2] and n % 2 == 0:
                            o.document = it[3][1]          # the setter spelling of reset
                        elif isjob and spell == "jobclear" and os.path.isdir(o.path):
                            o.clear()                      # Job.clear(): for the document this is document.clear()
                        elif isjob and spell == "jobreset" and os.path.isdir(o.path):
                            o.reset()                      # Job.reset() = clear() + init()
                        else:
                            val = do_op(o.document if n % 3 else o.doc, it[2], copy.deepcopy(it[3]), n % 2 == 1)
                    elif k == "rekey":
                        objs[it[1]].statepoint = sp_of(it[2] % 10)
                        fid_of[it[1]] = it[2]
                    elif k == "remove":
                        try:
                            objs[it[1]].remove()
                        except Exception:
                            # remove() raised half way (BufferedError of a forced flush): the object is discarded,
                            # the program continues with a fresh Job object for the same job
                            objs[it[1]] = proj_of[it[1]].open_job(sp_of(fid_of[it[1]] % 10))
                            raise
                    elif k == "init":
                        objs[it[1]].init()
                    elif k == "enter":
                        cm = signac.buffered() if it[1] is None else signac.buffered(it[1])
                        cm.__enter__()
                    elif k == "exit":
                        # `with` blocks nest on one class-level context object; its counter is the depth
                        if JD._buffer_context._count > 0:
                            JD._buffer_context.__exit__(None, None, None)
                    elif k == "setcap":
                        signac.set_buffer_capacity(it[1])
                    # a returned nested collection is converted without going through its (loading) accessors
                    ret = ("ok", to_plain(val._to_base() if hasattr(val, "_to_base") else val))
                except Exception as e:  # noqa: BLE001
                    name = exn_name(e)
                    if isinstance(e, AttributeError):
                        name = "ETypeError"  # a method the container type does not have
                    ret = ("err", name)
                o = observe(signac, root, ids)
                o["ret"] = ret
                obs.append(o)
        finally:
            while JD._buffer_context._count > 0:
                try:
                    JD._buffer_context.__exit__(None, None, None)
                except Exception:  # noqa: BLE001
                    pass
            _reset_backend(signac, DEFAULT_CAP)
            JD.enable_multithreading()
            os.chdir(cwd0)
    values = [it[3][1:] for it in prog if it[0] in ("op", "opl")] + [[o["ret"][1]] for o in obs if o["ret"][0] == "ok"] + \
             [[v for _, v in o["files"]] for o in obs]
    coq = "{| c5_ftab := %s; c5_cap0 := %s; c5_prog := %s; c5_obs := %s |}" % (
        coq_ftab(values), coq_N(desc["cap0"]), coq_list([coq_item(i) for i in prog], "jitem"),
        coq_list([coq_obs(o) for o in obs], "obs5"))
    muts = [i for i in prog if i[0] in ("op", "opl") and i[3][0] != "get"]
    perfile = {}
    for i in prog:
        if i[0] == "open":
            perfile.setdefault(i[2], set()).add(i[1])
    depth, inblock = 0, False
    for i in prog:
        if i[0] == "enter":
            depth += 1
        elif i[0] == "exit":
            depth = max(0, depth - 1)
        elif depth and i[0] == "op" and i[3][0] != "get":
            inblock = True
    nontriv = bool(muts) and (any(len(v) > 1 for v in perfile.values()) or inblock
                              or any(i[2] or i[3][0] in ("append", "lset", "ldel", "extend", "insert", "lclear") for i in muts)
                              or any(is_life(i) for i in prog))
    kinds = [desc.get("label", "random"), "threads-on" if thr else "threads-off"]
    jobs = {"ret": [list(o["ret"]) if o["ret"][0] == "err" else ["ok", typed(o["ret"][1])] for o in obs],
            "final_files": [[f, typed(v)] for f, v in obs[-1]["files"]] if obs else [],
            "final_dirs": obs[-1]["dirs"] if obs else []}
    return Case(coq, desc, obs=jobs, nontrivial=nontriv, key=json.dumps(desc["prog"], sort_keys=True), kinds=kinds)


def search(desc):
    """Neighbours of a mismatching program: every prefix (cut before an item, blocks closed) and the
    program without one item."""
    prog = desc["prog"]
    out = []

    def close(p):
        d = 0
        for i in p:
            d += 1 if i[0] == "enter" else (-1 if i[0] == "exit" and d else 0)
        js = sorted({i[1] for i in p if i[0] == "open"})
        return p + [["exit"]] * d + [["op", j, [], ["get"]] for j in js]

    for n in range(1, len(prog)):
        out.append(dict(desc, prog=close(prog[:n]), label="search-prefix"))
    for n in range(len(prog)):
        if prog[n][0] == "op":
            out.append(dict(desc, prog=prog[:n] + prog[n + 1:], label="search-drop"))
    return out[:120]
