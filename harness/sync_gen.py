"""Shared scenario generator / runner for the sync properties C13, C14, C15.

A scenario is a JSON-able description of two projects (jobs by state point, files with explicit mtimes,
nested directories, job documents, project documents), the options of one synchronisation call and the
entry point.  run_scenario builds both projects for real, calls the real signac, snapshots both trees before
and after (scandir order, bytes, mtimes), repeats the call / runs the companion call, and emits the Gallina
literal of type SV.SyncObs.case_sync.
"""
import contextlib
import filecmp
import io
import json
import logging
import os
import re
import shutil

from .common import (Case, coq_bool, coq_ftab, coq_json, coq_list, coq_opt, coq_str, coq_Z, exn_name,
                     scratch_dir)

FN_SP = "signac_statepoint.json"
FN_DOC = "signac_job_document.json"
FN_PDOC = "signac_project_document.json"
JSON_NAMES = (FN_SP, FN_DOC, FN_PDOC)
MT_SCALE = 2 ** 23
DEFAULT_MT = 1500
META_MT = 1200


# ------------------------------------------------------------------------------------------ building
def _write_file(path, data, mt):
    os.makedirs(os.path.dirname(path), exist_ok=True)
    with open(path, "wb") as fh:
        fh.write(data.encode("latin-1") if isinstance(data, str) else bytes(data))
    return (path, mt)


def build_project(pdesc, path):
    import signac

    project = signac.init_project(path=path)
    stamps = []
    ids = {}
    for jd in pdesc["jobs"]:
        job = project.open_job(jd["sp"])
        ids[json.dumps(jd["sp"], sort_keys=True)] = job.id
        if not jd.get("init", True):
            continue
        job.init()
        for rel, (data, mt) in jd.get("files", {}).items():
            stamps.append(_write_file(os.path.join(job.path, rel), data, mt))
        for rel in jd.get("dirs", []):
            os.makedirs(os.path.join(job.path, rel), exist_ok=True)
        for rel, target in jd.get("links", {}).items():      # symbolic links (outside the model, see has_links)
            os.makedirs(os.path.dirname(os.path.join(job.path, rel)), exist_ok=True)
            os.symlink(target, os.path.join(job.path, rel))
        if jd.get("doc") is not None:
            job.document.reset(jd["doc"])
            if not os.path.exists(job.fn(FN_DOC)):      # reset({}) may not write
                with open(job.fn(FN_DOC), "w") as fh:
                    fh.write(json.dumps(jd["doc"]))
        for rel, mt in jd.get("meta_mt", {}).items():
            stamps.append((os.path.join(job.path, rel), mt))
        for rel, mode in jd.get("modes", {}).items():        # permission bits of user files (chmod keeps the mtime)
            if os.path.isfile(os.path.join(job.path, rel)):
                os.chmod(os.path.join(job.path, rel), mode)
    if pdesc.get("pdoc") is not None:
        project.document.reset(pdesc["pdoc"])
        if not os.path.exists(os.path.join(path, FN_PDOC)):
            with open(os.path.join(path, FN_PDOC), "w") as fh:
                fh.write(json.dumps(pdesc["pdoc"]))
    for rel, (data, mt) in pdesc.get("top_files", {}).items():
        stamps.append(_write_file(os.path.join(path, rel), data, mt))
    # explicit mtimes on every file
    given = dict(stamps)
    for dp, _, fns in os.walk(path):
        for fn in fns:
            p = os.path.join(dp, fn)
            mt = given.get(p, META_MT if fn in JSON_NAMES else DEFAULT_MT)
            os.utime(p, (mt, mt), follow_symlinks=False)
    return ids


def build_pair(desc, root):
    ids_s = build_project(desc["src"], os.path.join(root, "src"))
    ids_d = build_project(desc["dst"], os.path.join(root, "dst"))
    return ids_s, ids_d


# ------------------------------------------------------------------------------------------ snapshots
def snap_node(path):
    """('f', bytes, mt) | ('d', [(name, node)...]) in os.scandir order."""
    if os.path.islink(path):
        return ("f", b"\x00symlink->" + os.fsencode(os.readlink(path)), int(os.lstat(path).st_mtime * MT_SCALE))
    if os.path.isdir(path):
        with os.scandir(path) as it:
            names = [e.name for e in it]
        return ("d", [(n, snap_node(os.path.join(path, n))) for n in names])
    st = os.stat(path)
    with open(path, "rb") as fh:
        data = fh.read()
    return ("f", data, int(st.st_mtime * MT_SCALE))


def snap_project(path, order=None):
    root = snap_node(path)[1]
    top, ws, rest = [], [], []
    for name, node in root:
        if name == "workspace" and node[0] == "d":
            ws = node[1]
        elif name == ".signac":
            rest.append((name, strip_mt(node)))
        else:
            top.append((name, node))
    if order:
        pos = {i: k for k, i in enumerate(order)}
        ws = sorted(ws, key=lambda kn: pos.get(kn[0], len(pos)))      # stable: unknown ids keep scan order
    return {"top": top, "ws": ws, "rest": rest}


PERM_DEFAULT = 0o644


def snap_modes(root):
    """{(is_dst, workspace path as a tuple): st_mode & 07777} for every regular file (no links) of both workspaces."""
    import stat

    out = {}
    for is_dst, side in ((False, "src"), (True, "dst")):
        ws = os.path.join(root, side, "workspace")
        for dp, _, fns in os.walk(ws):
            for fn in fns:
                st = os.lstat(os.path.join(dp, fn))
                if stat.S_ISREG(st.st_mode):
                    rel = os.path.relpath(os.path.join(dp, fn), ws)
                    out[(is_dst, tuple(rel.split(os.sep)))] = stat.S_IMODE(st.st_mode)
    return out


def coq_perm_rows(before, after):
    rows = []
    for key in sorted(set(before) | set(after)):
        b, a = before.get(key, PERM_DEFAULT), after.get(key, PERM_DEFAULT)
        if b != PERM_DEFAULT or a != PERM_DEFAULT:
            rows.append("{| pr_dst := %s; pr_path := %s; pr_before := %d; pr_after := %d |}" % (
                coq_bool(key[0]), coq_list([coq_str(x) for x in key[1]], "str"), b, a))
    return coq_list(rows, "perm_row")


def preserve_kwargs(opts):
    """opts['preserve'] = 'p' (preserve_permissions) | 'pt' (permissions and times); collect_stats at project level."""
    kw = {}
    if opts.get("preserve"):
        kw["preserve_permissions"] = True
        if opts["preserve"] == "pt":
            kw["preserve_times"] = True
    return kw


def strip_mt(node):
    if node[0] == "f":
        return ("f", node[1])
    return ("d", sorted((n, strip_mt(x)) for n, x in node[1]))


def plain_tree(entries):
    """JSON-able, order-free, mtime-free rendering for evidence / replay files."""
    out = {}
    for n, x in entries:
        out[n] = x[1].decode("latin-1") if x[0] == "f" else plain_tree(x[1])
    return out


def json_values(entries, acc):
    for n, x in entries:
        if x[0] == "d":
            json_values(x[1], acc)
        elif n in JSON_NAMES:
            v = parse_json_file(x[1])
            if v is not None:
                acc.append(v)
    return acc


def parse_json_file(data):
    try:
        v = json.loads(data)
    except Exception:
        return None
    if isinstance(v, dict) and json.dumps(v).encode() == data:
        return v
    return None


# ------------------------------------------------------------------------------------------ Gallina
def coq_node(name, node):
    if node[0] == "d":
        return "(Dir " + coq_dir(node[1]) + ")"
    data, mt = node[1], node[2]
    v = parse_json_file(data) if name in JSON_NAMES else None
    if v is not None:
        return f"(File (JDoc {coq_json(v)}) {coq_Z(mt)})"
    return f"(File (Bytes {coq_str(data)}) {coq_Z(mt)})"


def coq_dir(entries):
    return coq_list([f"({coq_str(n)}, {coq_node(n, x)})" for n, x in entries], "(str * node)")


def coq_project(snap):
    return "{| p_top := %s; p_ws := %s |}" % (coq_dir(snap["top"]), coq_dir(snap["ws"]))


def coq_tabf(table):
    return "(tabf " + coq_list([f"({coq_str(k)}, {coq_bool(b)})" for k, b in sorted(table.items())], "(str * bool)") + ")"


def all_names(entries, acc):
    for n, x in entries:
        acc.add(n)
        if x[0] == "d":
            all_names(x[1], acc)
    return acc


def all_relpaths(entries, prefix, acc):
    for n, x in entries:
        p = n if not prefix else prefix + "/" + n
        acc.add(p)
        if x[0] == "d":
            all_relpaths(x[1], p, acc)
    return acc


def key_names(v, path, acc):
    """Candidate names a ByKey key strategy can be asked about: full dotted paths and every suffix."""
    if isinstance(v, dict):
        for k, x in v.items():
            p = path + [k]
            for i in range(len(p)):
                acc.add(".".join(p[i:]))
            key_names(x, p, acc)
    return acc


# ------------------------------------------------------------------------------------------ options
def exclude_fn(ex):
    if ex is None:
        return lambda name: False
    pats = ex if isinstance(ex, list) else [ex]
    return lambda name: any(re.match(p, name) for p in pats)


class _Raises(Exception):
    """marker used by the table builder only"""


def key_strategy_obj(ks):
    """None | ['pred', [names]] | ['regex', pattern] | ['fault', [names], [raising names], exception class name]
    -> (python object for ByKey, function name -> True / False / None (= raises))."""
    if ks is None:
        return None, None
    if ks[0] == "fault":
        names, bad = set(ks[1]), set(ks[2])
        exc = {"KeyboardInterrupt": KeyboardInterrupt, "SystemExit": SystemExit}[ks[3]]

        def strategy(key):
            if key in bad:
                raise exc("key strategy interrupted at " + key)
            return key in names

        return strategy, (lambda key: None if key in bad else key in names)
    if ks[0] == "pred":
        names = set(ks[1])
        f = lambda key: key in names       # noqa: E731
        return f, f
    pat = ks[1]
    return pat, (lambda key: bool(re.match(pat, key)))


def make_call_objects(opts):
    from signac.sync import DocSync, FileSync

    s = opts.get("strategy")
    if s is None:
        strategy = None
    elif s == "always":
        strategy = FileSync.always
    elif s == "never":
        strategy = FileSync.never
    elif s == "update":
        strategy = FileSync.update
    else:
        yes = set(s[1])
        strategy = lambda src, dst, fn: fn in yes      # noqa: E731
    d = opts.get("doc_sync")
    if d is None:
        doc_sync = None
    elif d == "update":
        doc_sync = DocSync.update
    elif d == "nosync":
        doc_sync = DocSync.NO_SYNC
    elif d == "copy":
        doc_sync = DocSync.COPY
    else:
        doc_sync = DocSync.ByKey(key_strategy_obj(d[1])[0])
    ex = opts.get("exclude")
    exclude = list(ex) if isinstance(ex, list) else ex
    return strategy, doc_sync, exclude


def prime_call(desc, root, opts):
    """desc['prime'] = [src state point, dst state point]: the caller's own ByKey() instance is first used for a
    sync_jobs call on that (conflicting) pair; the same instance then serves the observed call.  Returns the
    call objects and the exception class of the priming call."""
    import signac
    from signac.sync import sync_jobs

    objs = make_call_objects(opts)
    src = signac.get_project(os.path.join(root, "src"))
    dst = signac.get_project(os.path.join(root, "dst"))
    ssp, dsp = desc["prime"]
    try:
        if desc.get("reuse_exclude"):      # the caller's own exclude LIST serves this call and the observed one
            sync_jobs(src=src.open_job(ssp), dst=dst.open_job(dsp), strategy=objs[0], exclude=objs[2])
        else:
            sync_jobs(src=src.open_job(ssp), dst=dst.open_job(dsp), doc_sync=objs[1], strategy=objs[0])
        return objs, None
    except Exception as e:       # noqa: BLE001
        return objs, exn_name(e)


def apply_history(desc, root, ids_s, ids_d, opts):
    """What happened in this process before the observed call: a priming call with the caller's own objects, and / or
    an earlier deep comparison of the same paths followed by a content change that keeps size and mtime."""
    import signac

    objs, primed = None, None
    if desc.get("prime"):
        objs, primed = prime_call(desc, root, opts)
    if desc.get("deep_history"):
        do_call(desc, root, ids_s, ids_d, opts)
        for side, sp, rel, data in desc["deep_history"]:
            job = signac.get_project(os.path.join(root, side)).open_job(sp)
            st = os.stat(job.fn(rel))
            with open(job.fn(rel), "wb") as fh:
                fh.write(data.encode("latin-1"))
            os.utime(job.fn(rel), ns=(st.st_atime_ns, st.st_mtime_ns))
    return objs, primed


def do_call(desc, root, ids_s, ids_d, opts, objs=None):
    """Run the real call with fresh handles; returns the exception class name or None."""
    import signac

    # NB: filecmp's process-wide cache is deliberately NOT cleared here (it used to be, which hid 23d4b64's defect)
    src = signac.get_project(os.path.join(root, "src"))
    dst = signac.get_project(os.path.join(root, "dst"))
    strategy, doc_sync, exclude = objs if objs is not None else make_call_objects(opts)
    entry = desc["entry"]
    buf = io.StringIO()
    with contextlib.redirect_stdout(buf):      # a dry run prints the relative path of every file it would copy
        return _do_call_inner(desc, src, dst, strategy, doc_sync, exclude, opts, entry)


def _do_call_inner(desc, src, dst, strategy, doc_sync, exclude, opts, entry):
    from signac.sync import sync_jobs, sync_projects

    try:
        if entry in ("Project.sync", "sync_projects"):
            sel = opts.get("selection")
            if sel is None:
                selection = None
            else:
                sids = [calc(sp) for sp in sel[1]]
                kind = sel[0]
                if kind == "ids":
                    selection = sids
                elif kind == "jobs":
                    selection = [src.open_job(sp) for sp in sel[1]]
                elif kind == "gen_ids":                       # one-shot iterables
                    selection = (i for i in sids)
                elif kind == "gen_jobs":
                    selection = (src.open_job(sp) for sp in sel[1])
                elif kind == "iter_ids":
                    selection = iter(list(sids))
                elif kind == "map_jobs":
                    selection = map(src.open_job, list(sel[1]))
                else:                                         # "groupby": the first group of project.groupby('a')
                    selection = next(iter(src.groupby("a")), (None, iter(())))[1]
            kwargs = dict(strategy=strategy, exclude=exclude, doc_sync=doc_sync, selection=selection,
                          check_schema=opts.get("check_schema", True), recursive=opts.get("recursive", False),
                          deep=opts.get("deep", False), dry_run=opts.get("dry_run", False),
                          parallel=opts.get("parallel", False))
            if "follow_symlinks" in opts:
                kwargs["follow_symlinks"] = opts["follow_symlinks"]
            kwargs.update(preserve_kwargs(opts))
            if opts.get("collect_stats"):
                kwargs["collect_stats"] = True
            if entry == "Project.sync":
                dst.sync(src, **kwargs)
            else:
                sync_projects(source=src, destination=dst, **kwargs)
        else:
            kind, ssp, dsp = entry
            sj = src.open_job(ssp)
            dj = dst.open_job(dsp)
            kwargs = dict(strategy=strategy, exclude=exclude, doc_sync=doc_sync,
                          recursive=opts.get("recursive", False), deep=opts.get("deep", False),
                          dry_run=opts.get("dry_run", False))
            if "follow_symlinks" in opts:
                kwargs["follow_symlinks"] = opts["follow_symlinks"]
            kwargs.update(preserve_kwargs(opts))
            if kind == "Job.sync":
                dj.sync(sj, **kwargs)
            else:
                sync_jobs(src=sj, dst=dj, **kwargs)
        return None
    except (Exception, KeyboardInterrupt, SystemExit) as e:       # noqa: BLE001  (strategy callbacks may raise these)
        return exn_name(e)
    finally:
        # ThreadPool.terminate() does not join its worker threads: after an exception they may still be
        # synchronising other jobs.  Observe the state only once they are done.
        import threading

        for t in threading.enumerate():
            if t is not threading.current_thread() and t is not threading.main_thread():
                t.join(timeout=10)


def calc(sp):
    from signac.job import calc_id

    return calc_id(sp)


# ------------------------------------------------------------------------------------------ observation
def observe(root, order_s, order_d):
    import signac

    s = snap_project(os.path.join(root, "src"), order_s)
    d = snap_project(os.path.join(root, "dst"), order_d)
    # documents via fresh handles must agree with the files
    ok = True
    try:
        for side, snap in (("src", s), ("dst", d)):
            pr = signac.get_project(os.path.join(root, side))
            for jid, node in snap["ws"]:
                if node[0] != "d" or not any(n == FN_SP for n, _ in node[1]):
                    continue
                on_disk = {}
                for n, x in node[1]:
                    if n == FN_DOC and x[0] == "f":
                        on_disk = json.loads(x[1])
                if pr.open_job(id=jid).document() != on_disk:
                    ok = False
            top = dict(snap["top"])
            on_disk = json.loads(top[FN_PDOC][1]) if FN_PDOC in top and top[FN_PDOC][0] == "f" else {}
            if pr.document() != on_disk:
                ok = False
    except Exception:       # noqa: BLE001
        ok = False
    return s, d, ok


def coq_obs(exn, s, d, rest_ok):
    return "{| ob_exn := %s; ob_src := %s; ob_dst := %s; ob_rest_ok := %s |}" % (
        coq_opt(exn), coq_project(s), coq_project(d), coq_bool(rest_ok))


def run_scenario(desc, prop):
    logging.disable(logging.CRITICAL)
    opts = desc["opts"]
    with scratch_dir("sync") as root:
        main = os.path.join(root, "main")
        ids_s, ids_d = build_pair(desc, main)
        import signac

        order_s = [j.id for j in signac.get_project(os.path.join(main, "src"))]
        order_d = [j.id for j in signac.get_project(os.path.join(main, "dst"))]
        group_ids = [j.id for j in next(iter(signac.get_project(os.path.join(main, "src")).groupby("a")), (None, []))[1]] \
            if (opts.get("selection") or [None])[0] == "groupby" else []
        objs, primed = apply_history(desc, main, ids_s, ids_d, opts)       # before the "before" snapshot
        excl_before = list(objs[2]) if objs is not None and isinstance(objs[2], list) else None
        s0, d0, ok0 = observe(main, order_s, order_d)
        modes0 = snap_modes(main)
        exn1 = do_call(desc, main, ids_s, ids_d, opts, objs)
        modes1 = snap_modes(main)
        if excl_before is not None and (objs[2] != excl_before or list(objs[2]) != list(opts.get("exclude") or [])):
            ok0 = False                                       # the caller's exclude list was modified
        s1, d1, ok1 = observe(main, order_s, order_d)
        rest1 = ok0 and ok1 and s0["rest"] == s1["rest"] and d0["rest"] == d1["rest"]
        again = None
        if exn1 is None and not opts.get("dry_run"):
            exn2 = do_call(desc, main, ids_s, ids_d, opts)
            s2, d2, ok2 = observe(main, order_s, order_d)
            again = (exn2, s2, d2, ok2 and s2["rest"] == s1["rest"] and d2["rest"] == d1["rest"])
        ref = None
        ref_opts = None
        if opts.get("dry_run"):
            ref_opts = dict(opts, dry_run=False)
        elif opts.get("parallel"):
            ref_opts = dict(opts, parallel=False)
        if ref_opts is not None:
            rdir = os.path.join(root, "ref")
            build_pair(desc, rdir)
            apply_history(desc, rdir, ids_s, ids_d, ref_opts)     # same history; the companion call uses fresh objects
            rs0, rd0, rok0 = observe(rdir, order_s, order_d)
            same_pre = (strip_order(rs0) == strip_order(s0) and strip_order(rd0) == strip_order(d0))
            exnr = do_call(desc, rdir, ids_s, ids_d, ref_opts)
            rs1, rd1, rok1 = observe(rdir, order_s, order_d)
            ref = (exnr, rs1, rd1, same_pre and rok0 and rok1 and rs0["rest"] == rs1["rest"] and rd0["rest"] == rd1["rest"])

    # ---- oracle tables
    names = set(JSON_NAMES)
    rels = set()
    for snap in (s0, d0, s1, d1):
        all_names(snap["ws"], names)
        all_names(snap["top"], names)
    for _, node in s0["ws"] + d0["ws"]:
        if node[0] == "d":
            all_relpaths(node[1], "", rels)
    exf = exclude_fn(opts.get("exclude"))
    ex_tab = {n: True for n in names if exf(n)}
    s = opts.get("strategy")
    if s is None:
        strat = "None"
    elif isinstance(s, str):
        strat = f"(Some FS_{s})"
    else:
        yes = set(s[1])
        strat = "(Some (FS_custom %s))" % coq_tabf({r: True for r in rels if r in yes})
    docs = []
    for snap in (s0, d0):
        json_values(snap["ws"], docs)
        json_values(snap["top"], docs)
    dsy = opts.get("doc_sync")
    if dsy is None:
        ds = "(DS_bykey None)"
    elif dsy == "update":
        ds = "DS_update"
    elif dsy == "nosync":
        ds = "DS_nosync"
    elif dsy == "copy":
        ds = "DS_copy"
    else:
        _, kf = key_strategy_obj(dsy[1])
        if kf is None:
            ds = "(DS_bykey None)"
        else:
            cand = set()
            for v in docs:
                key_names(v, [], cand)
            raising = sorted(k for k in cand if kf(k) is None)
            ds = "(DS_bykey (Some (tabk %s %s)))" % (
                coq_list([f"({coq_str(k)}, true)" for k in sorted(cand) if kf(k)], "(str * bool)"),
                coq_list([coq_str(k) for k in raising], "str"))
    sel = opts.get("selection")
    if sel is None:
        selection = "None"
    elif sel[0] == "groupby":
        selection = "(Some %s)" % coq_list([coq_str(i) for i in group_ids], "str")
    else:
        selection = "(Some %s)" % coq_list([coq_str(calc(sp)) for sp in sel[1]], "str")
    o = ("{| o_strategy := %s; o_docsync := %s; o_recursive := %s; o_exclude := %s; o_selection := %s; "
         "o_check_schema := %s; o_deep := %s; o_dry_run := %s; o_top := true |}" % (
             strat, ds, coq_bool(opts.get("recursive", False)), coq_tabf(ex_tab), selection,
             coq_bool(opts.get("check_schema", True)), coq_bool(opts.get("deep", False)),
             coq_bool(opts.get("dry_run", False))))
    entry = desc["entry"]
    if entry in ("Project.sync", "sync_projects"):
        en = "E_project"
    else:
        en = "(E_job %s %s %s)" % (coq_str(calc(entry[1])), coq_str(calc(entry[2])), coq_json(entry[2]))
    inp = "{| i_src := %s; i_dst := %s; i_opts := %s; i_entry := %s; i_parallel := %s; i_unmodelled := %s |}" % (
        coq_project(s0), coq_project(d0), o, en, coq_bool(bool(opts.get("parallel", False))), coq_bool(has_links(desc)))
    allsnaps = [s0, d0, s1, d1] + ([again[1], again[2]] if again else []) + ([ref[1], ref[2]] if ref else [])
    vals = []
    for snap in allsnaps:
        json_values(snap["ws"], vals)
        json_values(snap["top"], vals)
    if entry not in ("Project.sync", "sync_projects"):
        vals.append(entry[2])
    coq = "{| cs_ftab := %s; cs_case := {| c_in := %s; c_obs := %s; c_again := %s; c_ref := %s |}; cs_perm := %s |}" % (
        coq_ftab(vals), inp, coq_obs(exn1, s1, d1, rest1),
        coq_opt(coq_obs(*again) if again else None), coq_opt(coq_obs(*ref) if ref else None),
        coq_perm_rows(modes0, modes1))
    changed = strip_order(d1) != strip_order(d0)
    perm_changes = {("dst/" if k[0] else "src/") + "/".join(k[1]): [oct(modes0.get(k, PERM_DEFAULT)), oct(modes1.get(k, PERM_DEFAULT))]
                    for k in sorted(set(modes0) | set(modes1)) if k in modes0 and k in modes1 and modes0[k] != modes1[k]}
    obs = {"exception": exn1, "priming_call_exception": primed, "dst_changed": changed, "src_changed": strip_order(s1) != strip_order(s0),
           "permission_bits_changed_on_existing_files": perm_changes,
           "dst_after": {"top": plain_tree(d1["top"]), "workspace": plain_tree(d1["ws"])},
           "repeat": None if again is None else {"exception": again[0], "dst_changed_again": strip_order(again[2]) != strip_order(d1)},
           "companion": None if ref is None else {"exception": ref[0], "dst_equal_to_main_run": strip_order(ref[2]) == strip_order(d1)}}
    kinds = ["entry=" + (entry if isinstance(entry, str) else entry[0]),
             "strategy=" + (s if isinstance(s, str) else ("None" if s is None else "custom")),
             "doc_sync=" + (dsy if isinstance(dsy, str) else ("default" if dsy is None else "ByKey:" + ("None" if dsy[1] is None else dsy[1][0]))),
             "outcome=" + (exn1 or ("changed" if changed else "no-change"))]
    if desc.get("reuse_exclude"):
        kinds.append("caller-exclude-list-reused")
    elif desc.get("prime"):
        kinds.append("ByKey-instance-reused-after-" + str(primed))
    if desc.get("deep_history"):
        kinds.append("earlier-deep-comparison-then-same-size-same-mtime-change")
    if has_links(desc):
        kinds.append("symlinks(unmodelled)")
        kinds.append("follow_symlinks=" + str(opts.get("follow_symlinks", True)))
    for flag in ("recursive", "deep", "dry_run", "parallel", "collect_stats"):
        if opts.get(flag):
            kinds.append(flag)
    if opts.get("preserve"):
        kinds.append("preserve=" + opts["preserve"])
    if any(j.get("modes") for side in ("src", "dst") for j in desc[side]["jobs"]):
        kinds.append("permission-bits")
    if opts.get("exclude"):
        kinds.append("exclude")
    if opts.get("selection") is not None:
        kinds.append("selection=" + opts["selection"][0])
    if not opts.get("check_schema", True):
        kinds.append("check_schema=False")
    return Case(coq, desc, obs=obs, nontrivial=bool(changed or exn1 or (ref and (ref[0] or strip_order(ref[2]) != strip_order(d0)))),
                kinds=kinds)


def has_links(desc):
    return any(j.get("links") for side in ("src", "dst") for j in desc[side]["jobs"])


def strip_order(snap):
    return (sorted((n, strip_mt(x)) for n, x in snap["top"]), sorted((n, strip_mt(x)) for n, x in snap["ws"]))


# ------------------------------------------------------------------------------------------ generation
CONTENTS = ["A", "B", "AA", "BB", "CCC", ""]
MTIMES = [1000, 2000, 3000]
TOP_FILES = ["x", "y.txt", "log.out", "data.bin"]
NESTED = ["sub/y", "sub/x", "sub/deep/z", "other/w", "other/lvl2/lvl3/v"]
EMPTY_DIRS = ["emp", "sub/emp2"]
EDGE_FILES = ["tags", ".git/cfg", "sub/CVS", "signac_statepoint.json.bak", "signac_job_documentXjson", "sub/signac_job_document.json",
              "sub/signac_statepoint.json", "signac", "json", "state", "document"]
# ordinary names that are proper substrings (prefix / infix / suffix) of the job's own two file names
OWN_SUBSTRINGS = ["signac", "state", "json", "point.json", "signac_statepoint.jso", "t", "document", "job", "ignac_job_document.json", "_"]
MODES = [0o755, 0o600, 0o664, 0o700, 0o640]         # owner read/write always set: the outcome does not depend on the uid
DOC_KEYS = ["a", "b", "c", "n", "m"]
SCALARS = [0, 1, 2, 1.0, 2.5, True, False, None, "s", "t", "", [1, 2], [1, 2.0], []]


def rand_files(rng, density, edge=0.0):
    files = {}
    for n in TOP_FILES:
        if rng.random() < density:
            files[n] = [rng.choice(CONTENTS), rng.choice(MTIMES)]
    for n in NESTED:
        if rng.random() < density * 0.7:
            files[n] = [rng.choice(CONTENTS), rng.choice(MTIMES)]
    for n in EDGE_FILES:
        if rng.random() < edge:
            files[n] = [rng.choice(CONTENTS), rng.choice(MTIMES)]
    return files


def rand_doc_value(rng, depth):
    if depth > 0 and rng.random() < 0.4:
        return rand_doc(rng, depth - 1, lo=0)
    return rng.choice(SCALARS)


def rand_doc(rng, depth, lo=1):
    keys = rng.sample(DOC_KEYS, rng.randint(lo, 3))
    return {k: rand_doc_value(rng, depth) for k in keys}


def perturb_doc(rng, doc, depth, conflict):
    """A destination document related to doc: shared keys equal / differing, extra keys, nested overlaps."""
    out = {}
    for k, v in doc.items():
        r = rng.random()
        if r < 0.25:
            continue                                   # only in the source
        if isinstance(v, dict) and rng.random() < 0.75:
            out[k] = perturb_doc(rng, v, depth - 1, conflict)
        elif r < 0.25 + conflict:
            nv = rand_doc_value(rng, max(depth - 1, 0))
            out[k] = nv
        else:
            out[k] = v
    for k in DOC_KEYS:
        if k not in doc and rng.random() < 0.25:
            out[k] = rand_doc_value(rng, max(depth - 1, 0))     # only in the destination
    keys = list(out)
    rng.shuffle(keys)
    return {k: out[k] for k in keys}


def perturb_files(rng, files, conflict):
    out = {}
    for n, (c, mt) in files.items():
        r = rng.random()
        if r < 0.3:
            continue                                   # only in the source
        if r < 0.3 + conflict:
            kind = rng.random()
            if kind < 0.4:                             # same size, different content
                alt = {"A": "B", "B": "A", "AA": "BB", "BB": "AA", "CCC": "CCD", "": "A"}[c]
                out[n] = [alt, rng.choice([mt, mt, rng.choice(MTIMES)])]
            else:
                out[n] = [rng.choice([x for x in CONTENTS if x != c]), rng.choice(MTIMES)]
        else:
            out[n] = [c, rng.choice([mt, rng.choice(MTIMES)])]
    for n in TOP_FILES + NESTED:
        if n not in files and rng.random() < 0.15:
            out[n] = [rng.choice(CONTENTS), rng.choice(MTIMES)]       # only in the destination
    return out


def rand_job_pair(rng, sp, p):
    """(source job desc or None, destination job desc or None) for one state point."""
    depth = rng.choice([1, 2, 2, 3])
    sj = {"sp": sp, "files": rand_files(rng, p["density"], p.get("edge", 0.02)), "dirs": [d for d in EMPTY_DIRS if rng.random() < 0.15]}
    if rng.random() < p["doc"]:
        sj["doc"] = rand_doc(rng, depth) if rng.random() < 0.9 else {}
    dj = {"sp": sp, "files": perturb_files(rng, sj["files"], p["fconflict"]),
          "dirs": [d for d in EMPTY_DIRS if rng.random() < 0.1]}
    if rng.random() < p["doc"]:
        if "doc" in sj and rng.random() < 0.85:
            dj["doc"] = perturb_doc(rng, sj["doc"], depth, p["dconflict"])
        else:
            dj["doc"] = rand_doc(rng, depth) if rng.random() < 0.8 else {}
    if rng.random() < p.get("modes", 0.15):               # permission bits other than the umask default, on either side
        for jd in (sj, dj):
            jd["modes"] = {n: rng.choice(MODES) for n in sorted(jd["files"]) if rng.random() < 0.5}
    if dj.get("doc") and rng.random() < p.get("stale", 0.05):
        dj["files"][FN_DOC + "~"] = [rng.choice(['{"old": 1}', "xx"]), rng.choice(MTIMES)]    # stale backup file
    if rng.random() < p.get("funny", 0.03) and sj["files"]:
        n = rng.choice(list(sj["files"]))
        if "/" not in n and n not in dj["files"]:
            dj["dirs"] = dj["dirs"] + [n]                 # file on one side, directory on the other
    return sj, dj


def rand_pair(rng, p):
    n_src = rng.choice([0, 1, 1, 2, 2, 3, 4])
    n_dst = rng.choice([0, 1, 1, 2, 2, 3, 4])
    fam = rng.random()
    pool = list(range(6))
    s_idx = rng.sample(pool, n_src)
    overlap = [i for i in s_idx if rng.random() < 0.6]
    d_idx = list(overlap)
    others = [i for i in pool if i not in s_idx]
    while len(d_idx) < n_dst and others and rng.random() < 0.7:
        d_idx.append(others.pop(rng.randrange(len(others))))
    rng.shuffle(d_idx)

    def sp_of(i, side):
        if fam < p.get("schema_mix", 0.12) and side == "dst" and i not in s_idx:
            return {"b": i}                                # different schema key
        if fam > 0.9:
            return {"a": i, "t": "x"}
        return {"a": i}

    src_jobs, dst_jobs = [], {}
    for i in s_idx:
        sj, dj = rand_job_pair(rng, sp_of(i, "src"), p)
        src_jobs.append(sj)
        if i in d_idx:
            dst_jobs[i] = dj
    for i in d_idx:
        if i not in dst_jobs:
            _, dj = rand_job_pair(rng, sp_of(i, "dst"), p)
            dj["files"] = rand_files(rng, p["density"])
            dj["dirs"] = [d for d in dj["dirs"] if d not in dj["files"]]
            dst_jobs[i] = dj
    src = {"jobs": src_jobs}
    dst = {"jobs": [dst_jobs[i] for i in d_idx]}
    if rng.random() < p["pdoc"]:
        src["pdoc"] = rand_doc(rng, 2)
    if rng.random() < p["pdoc"]:
        dst["pdoc"] = perturb_doc(rng, src["pdoc"], 2, p["dconflict"]) if "pdoc" in src and rng.random() < 0.8 else rand_doc(rng, 2)
    if dst.get("pdoc") and rng.random() < p.get("stale", 0.05):
        dst["top_files"] = {FN_PDOC + "~": ['{"old": 1}', 1000]}
    return src, dst


def rand_strategy(rng, src, weights):
    k = rng.choices(["None", "always", "never", "update", "custom"], weights)[0]
    if k == "None":
        return None
    if k == "custom":
        rels = sorted({r for j in src["jobs"] for r in j.get("files", {})} | set(TOP_FILES[:2]))
        return ["custom", [r for r in rels if rng.random() < 0.5]]
    return k


def doc_key_names(src, dst):
    cand = set()
    for pr in (src, dst):
        for j in pr["jobs"]:
            if j.get("doc"):
                key_names(j["doc"], [], cand)
        if pr.get("pdoc"):
            key_names(pr["pdoc"], [], cand)
    return sorted(cand)


def rand_doc_sync(rng, src, dst, weights):
    k = rng.choices(["default", "bykey-none", "pred", "regex", "update", "nosync", "copy"], weights)[0]
    if k == "default":
        return None
    if k == "bykey-none":
        return ["bykey", None]
    if k == "pred":
        names = doc_key_names(src, dst)
        return ["bykey", ["pred", [n for n in names if rng.random() < 0.5]]]
    if k == "regex":
        return ["bykey", ["regex", rng.choice(["a", "[ab]", ".*", "n\\.", "b$", "(a|n\\.b)$", ".*\\.c", "[^.]*$", "x"])]]
    return k


def rand_exclude(rng):
    r = rng.random()
    if r < 0.45:
        return rng.choice(["x", "y", "log", ".*\\.txt", "sub", "deep", "z", "data\\.bin$", "emp", "lvl", "v",
                           "signac", ".*json", ".*", "signac_statepoint"])      # the last four also match signac's own files
    if r < 0.8:
        return [rng.choice(["x$", "log.*", "z", "signac_job.*"]), rng.choice(["y", "w", "sub", "deep", "lvl3"])]
    return []


def rand_selection(rng, src, dst):
    sps = [j["sp"] for j in src["jobs"]]
    extra = [j["sp"] for j in dst["jobs"] if j["sp"] not in sps] + [{"a": 77}]
    chosen = [sp for sp in sps if rng.random() < 0.5]
    if rng.random() < 0.3:
        chosen.append(rng.choice(extra))
    return [rng.choice(["ids", "jobs", "ids", "jobs", "gen_ids", "gen_jobs", "iter_ids", "map_jobs", "groupby"]), chosen]


def rand_job_entry(rng, src, dst):
    kind = rng.choice(["Job.sync", "sync_jobs"])
    s_sps = [j["sp"] for j in src["jobs"]]
    d_sps = [j["sp"] for j in dst["jobs"]]
    r = rng.random()
    if s_sps and r < 0.9:
        ssp = rng.choice(s_sps)
    else:
        ssp = {"a": 99}                                 # uninitialised source job
        src["jobs"].append({"sp": ssp, "init": False})
    r = rng.random()
    if ssp in d_sps and r < 0.6:
        dsp = ssp
    elif d_sps and r < 0.9:
        dsp = rng.choice(d_sps)                         # a job with another state point
    else:
        dsp = {"a": 98}                                 # uninitialised destination job
        dst["jobs"].append({"sp": dsp, "init": False})
    return [kind, ssp, dsp]


PROFILES = {
    # success-oriented: strategies and key strategies given, few unresolved conflicts
    "C13": dict(density=0.45, doc=0.7, pdoc=0.5, fconflict=0.25, dconflict=0.25,
                strat=[1, 3, 3, 3, 2], docs=[2, 1, 3, 2, 3, 2, 2], dry=0.0, deep=0.0, parallel=0.0,
                exclude=0.3, selection=0.3, recursive=0.5, noschema=0.7, job_entry=0.3),
    # conflict-oriented
    "C14": dict(density=0.5, doc=0.85, pdoc=0.5, fconflict=0.5, dconflict=0.5,
                strat=[3, 2, 2, 3, 3], docs=[3, 2, 4, 3, 2, 1, 1], dry=0.0, deep=0.25, parallel=0.0,
                exclude=0.15, selection=0.15, recursive=0.6, noschema=0.8, job_entry=0.4),
    # option-oriented
    "C15": dict(density=0.45, doc=0.7, pdoc=0.5, fconflict=0.35, dconflict=0.3,
                strat=[2, 3, 2, 2, 2], docs=[2, 1, 3, 2, 2, 1, 1], dry=0.4, deep=0.4, parallel=0.3,
                exclude=0.45, selection=0.45, recursive=0.5, noschema=0.8, job_entry=0.3),
}


def rand_scenario(rng, prop):
    p = PROFILES[prop]
    src, dst = rand_pair(rng, p)
    opts = {"strategy": rand_strategy(rng, src, p["strat"]), "doc_sync": rand_doc_sync(rng, src, dst, p["docs"]),
            "recursive": rng.random() < p["recursive"], "check_schema": not (rng.random() < p["noschema"])}
    if rng.random() < p["exclude"]:
        opts["exclude"] = rand_exclude(rng)
    if rng.random() < p["dry"]:
        opts["dry_run"] = True
    if rng.random() < p["deep"]:
        opts["deep"] = True
    if rng.random() < p.get("preserve", 0.15):
        opts["preserve"] = rng.choice(["p", "pt"])
    if rng.random() < p["job_entry"] and (src["jobs"] or dst["jobs"]):
        entry = rand_job_entry(rng, src, dst)
    else:
        entry = rng.choice(["Project.sync", "sync_projects"])
        if rng.random() < p["selection"]:
            opts["selection"] = rand_selection(rng, src, dst)
        if rng.random() < p["parallel"]:
            opts["parallel"] = rng.choice([2, True])
        if rng.random() < 0.1:
            opts["collect_stats"] = True
    return {"src": src, "dst": dst, "opts": opts, "entry": entry}


def shrink_neighbours(desc):
    """Neighbours of a mismatching scenario: one job pair at a time, options switched off one by one."""
    out = []
    sps = [j["sp"] for j in desc["src"]["jobs"]] + [j["sp"] for j in desc["dst"]["jobs"]]
    seen = []
    for sp in sps:
        if sp in seen:
            continue
        seen.append(sp)
        d = json.loads(json.dumps(desc))
        d["src"]["jobs"] = [j for j in d["src"]["jobs"] if j["sp"] == sp or (isinstance(d["entry"], list) and j["sp"] in d["entry"][1:]) or j["sp"] in d.get("prime", [])]
        d["dst"]["jobs"] = [j for j in d["dst"]["jobs"] if j["sp"] == sp or (isinstance(d["entry"], list) and j["sp"] in d["entry"][1:]) or j["sp"] in d.get("prime", [])]
        if d["opts"].get("selection"):
            d["opts"]["selection"][1] = [x for x in d["opts"]["selection"][1] if x == sp]
        out.append(d)
    for flag in ("exclude", "selection", "parallel", "deep", "recursive"):
        if desc["opts"].get(flag):
            d = json.loads(json.dumps(desc))
            d["opts"].pop(flag)
            out.append(d)
    for side in ("src", "dst"):
        if desc[side].get("pdoc") is not None:
            d = json.loads(json.dumps(desc))
            d[side].pop("pdoc")
            out.append(d)
    return out[:12]


# ------------------------------------------------------------------------------------------ bounded-exhaustive cores
def core_file_cases(deeps=(False,), dries=(False,)):
    """One file present on both sides: content relation x mtime relation x strategy x depth x recursive x entry."""
    out = []
    for (cs, cd) in (("A", "B"), ("A", "BB"), ("A", "A")):
        for ms in (1000, 2000):
            for md in (1000, 2000):
                for strat in (None, "always", "never", "update", ["custom", ["x", "sub/x"]], ["custom", []]):
                    for rel in ("x", "sub/x"):
                        for recursive in (False, True):
                            for deep in deeps:
                                for dry in dries:
                                    for entry in ("Project.sync", ["Job.sync", {"a": 0}, {"a": 0}]):
                                        src = {"jobs": [{"sp": {"a": 0}, "files": {rel: [cs, ms], "only_src": ["S", 1000]}, "dirs": []}]}
                                        dst = {"jobs": [{"sp": {"a": 0}, "files": {rel: [cd, md], "only_dst": ["D", 1000]}, "dirs": []}]}
                                        opts = {"strategy": strat, "recursive": recursive, "check_schema": False, "doc_sync": "nosync"}
                                        if deep:
                                            opts["deep"] = True
                                        if dry:
                                            opts["dry_run"] = True
                                        out.append({"src": src, "dst": dst, "opts": opts, "entry": entry})
    return out


CORE_VALUES = [0, 1, 1.0, True, "s", None, [1, 2], {"p": 0}, {"p": 1, "q": 2}, {}]


def core_doc_cases(dries=(False,)):
    """One key present in both documents at depth 1, 2 or 3: value pair x document strategy x entry."""
    out = []
    for depth in (1, 2, 3):
        for vs in CORE_VALUES:
            for vd in CORE_VALUES:
                for ds in (None, ["bykey", ["pred", ["k", "a.k", "a.b.k", "k.p", "a.k.p", "a.b.k.p"]]], ["bykey", ["pred", ["b.k", "k.q"]]],
                           ["bykey", ["regex", "a\\."]], "update", "nosync"):
                    for dry in dries:
                        def wrap(v, other):
                            d = {"k": v, other: 7}
                            for name in ("b", "a")[3 - depth:]:
                                d = {name: d}
                            return d
                        entry = ["Job.sync", {"a": 0}, {"a": 0}] if (depth + len(out)) % 2 else "Project.sync"
                        src = {"jobs": [{"sp": {"a": 0}, "files": {}, "dirs": [], "doc": wrap(vs, "s_only")}]}
                        dst = {"jobs": [{"sp": {"a": 0}, "files": {}, "dirs": [], "doc": wrap(vd, "d_only")}]}
                        opts = {"doc_sync": ds, "check_schema": False}
                        if dry:
                            opts["dry_run"] = True
                        out.append({"src": src, "dst": dst, "opts": opts, "entry": entry})
    return out


def core_nested_cases(deeps=(False,)):
    """Deep trees whose intermediate levels are identical on both sides: the only difference sits 3 or 4 levels down
    (an extra source file, or a differing file — also with equal size and mtime)."""
    out = []
    for chain in (["data", "run1"], ["data", "run1", "raw"], ["a", "b", "c", "d"]):
        for same_level_file in (False, True):
            for kind in ("extra", "differ", "differ_same_sig", "same"):
                for strat in (None, "always", "never", "update"):
                    for recursive in (False, True):
                        for deep in deeps:
                            for entry in ("Project.sync", ["sync_jobs", {"a": 0}, {"a": 0}]):
                                leaf = "/".join(chain) + "/out.txt"
                                sfiles, dfiles = {}, {}
                                if same_level_file:       # identical files on the intermediate levels
                                    for i in range(1, len(chain)):
                                        p = "/".join(chain[:i]) + "/keep"
                                        sfiles[p] = ["K", 1000]
                                        dfiles[p] = ["K", 1000]
                                sfiles[leaf] = ["AA", 2000]
                                ddirs = []
                                if kind == "extra":
                                    ddirs = ["/".join(chain)]
                                elif kind == "differ":
                                    dfiles[leaf] = ["B", 1000]
                                elif kind == "differ_same_sig":
                                    dfiles[leaf] = ["BB", 2000]
                                else:
                                    dfiles[leaf] = ["AA", 2000]
                                src = {"jobs": [{"sp": {"a": 0}, "files": sfiles, "dirs": []}]}
                                dst = {"jobs": [{"sp": {"a": 0}, "files": dfiles, "dirs": ddirs}]}
                                opts = {"strategy": strat, "recursive": recursive, "check_schema": False, "doc_sync": "nosync"}
                                if deep:
                                    opts["deep"] = True
                                out.append({"src": src, "dst": dst, "opts": opts, "entry": entry})
    return out


def core_backup_cases(dries=(False,)):
    """A stale '<document>~' backup file next to the destination document (create_backup must refuse it)."""
    out = []
    pairs = [({"k": 1}, {"k": 2}), ({"k": 1, "n": 3}, {"k": 1}), ({"k": 1}, {"k": 1}), ({"k": 1}, {}), ({"k": {"p": 1}}, {"k": 5}),
             ({"n": {"p": 1, "q": 2}}, {"n": {"p": 1}, "k": 0})]
    for sdoc, ddoc in pairs:
        for stale in ('{"old": true}', "garbage"):
            for ds in (None, ["bykey", ["pred", ["k"]]], "update", "nosync", "copy"):
                for level in ("job", "project"):
                    for dry in dries:
                        for strat in (None, "always"):
                            if level == "job":
                                src = {"jobs": [{"sp": {"a": 0}, "files": {}, "dirs": [], "doc": sdoc}]}
                                dst = {"jobs": [{"sp": {"a": 0}, "files": {FN_DOC + "~": [stale, 1000]}, "dirs": [], "doc": ddoc}]}
                                entry = ["Job.sync", {"a": 0}, {"a": 0}] if len(out) % 2 else "Project.sync"
                            else:
                                src = {"jobs": [{"sp": {"a": 0}, "files": {"x": ["A", 1000]}, "dirs": []}], "pdoc": sdoc}
                                dst = {"jobs": [], "pdoc": ddoc, "top_files": {FN_PDOC + "~": [stale, 1000]}}
                                entry = "sync_projects"
                            opts = {"doc_sync": ds, "strategy": strat, "check_schema": False}
                            if dry:
                                opts["dry_run"] = True
                            out.append({"src": src, "dst": dst, "opts": opts, "entry": entry})
    return out


def core_reuse_cases(dries=(False,)):
    """The caller reuses ONE ByKey() instance: first for a sync_jobs call on a conflicting pair (DocumentSyncConflict,
    rolled back), then for the observed, conflict-free call (job level, or project level restricted to that job)."""
    out = []
    for ds in (None, ["bykey", None]):
        for sdoc, ddoc in (({"k": 1, "n": 2}, {"k": 1}), ({"n": {"p": 1, "q": 2}}, {"n": {"p": 1}}), ({"k": 1}, None), ({"k": 1}, {"k": 1})):
            for dry in dries:
                for entry in (["Job.sync", {"a": 0}, {"a": 0}], ["sync_jobs", {"a": 0}, {"a": 0}], "Project.sync", "sync_projects"):
                    sj = {"sp": {"a": 0}, "files": {"x": ["A", 1000]}, "dirs": [], "doc": sdoc}
                    dj = {"sp": {"a": 0}, "files": {}, "dirs": []}
                    if ddoc is not None:
                        dj["doc"] = ddoc
                    src = {"jobs": [sj, {"sp": {"a": 1}, "files": {}, "dirs": [], "doc": {"c": 1, "m": 5}}]}
                    dst = {"jobs": [dj, {"sp": {"a": 1}, "files": {}, "dirs": [], "doc": {"c": 2}}]}
                    opts = {"doc_sync": ds, "check_schema": False, "strategy": "always"}
                    if dry:
                        opts["dry_run"] = True
                    if isinstance(entry, str):
                        opts["selection"] = ["ids", [{"a": 0}]]
                    out.append({"src": src, "dst": dst, "opts": opts, "entry": entry, "prime": [{"a": 1}, {"a": 1}]})
    return out


def core_exclude_cases(dries=(False,)):
    """Excluded names where copytree does the copying: inside a cloned job, inside left-only directories at depth 2-3,
    excluded directory names, patterns that match the state point / document name; exclude as None / str / list."""
    out = []
    tree = {"x": ["A", 1000], "keep": ["K", 1000], "sub/x": ["B", 1000], "sub/keep": ["K", 1000], "sub/deep/x": ["C", 1000],
            "sub/deep/keep": ["K", 1000], "logs/a": ["L", 1000], "logs/x": ["M", 1000],
            "sub/" + FN_SP: ['{"nested": 1}', 1000], "sub/deep/" + FN_DOC: ['{"nested": 2}', 1000]}   # merely carry the names
    patterns = [None, "x", ["x"], ["x", "keep$"], "logs", ["deep", "logs"], "sub", ".*", "signac", [".*json", "x"], []]
    for ex in patterns:
        for scen in ("clone", "leftonly_dir", "common_dirs", "mixed"):
            for recursive in (False, True):
                for ds in (None, "copy"):
                    for dry in dries:
                        for entry in ("Project.sync", ["Job.sync", {"a": 0}, {"a": 0}]):
                            if scen == "clone" and entry != "Project.sync":
                                continue
                            sj = {"sp": {"a": 0}, "files": dict(tree), "dirs": ["emp"], "doc": {"k": 1}}
                            if scen == "clone":
                                djobs = [{"sp": {"a": 1}, "files": {"x": ["D", 1000]}, "dirs": []}]
                            elif scen == "leftonly_dir":
                                djobs = [{"sp": {"a": 0}, "files": {"keep": ["K", 1000]}, "dirs": []}]
                            elif scen == "common_dirs":
                                djobs = [{"sp": {"a": 0}, "files": {"sub/deep/other": ["O", 1000], "logs/a": ["L", 1000]}, "dirs": []}]
                            else:
                                djobs = [{"sp": {"a": 0}, "files": {"x": ["Z", 2000], "sub/x": ["ZZ", 2000], "keep": ["K", 1000]}, "dirs": ["logs"],
                                          "doc": {"d": 2}}]
                            src = {"jobs": [sj] + ([{"sp": {"a": 2}, "files": dict(tree), "dirs": []}] if scen == "mixed" else [])}
                            opts = {"strategy": "always", "recursive": recursive, "check_schema": False, "doc_sync": ds}
                            if ex is not None:
                                opts["exclude"] = ex
                            if dry:
                                opts["dry_run"] = True
                            out.append({"src": src, "dst": {"jobs": djobs}, "opts": opts, "entry": entry})
    return out


def core_selection_cases():
    """selection given as list / one-shot iterables (generator, iter, map, a groupby group) of ids or jobs."""
    out = []
    for kind in ("ids", "jobs", "gen_ids", "gen_jobs", "iter_ids", "map_jobs", "groupby"):
        for chosen in ([{"a": 0}], [{"a": 0}, {"a": 1}], [{"a": 1}, {"a": 7}], []):
            for entry in ("Project.sync", "sync_projects"):
                for parallel in (False, 2):
                    src = {"jobs": [{"sp": {"a": i}, "files": {"x": ["A%d" % i, 1000]}, "dirs": [], "doc": {"k": i}} for i in range(3)]}
                    dst = {"jobs": [{"sp": {"a": 1}, "files": {}, "dirs": []}]}
                    opts = {"strategy": "always", "check_schema": False, "selection": [kind, chosen]}
                    if parallel:
                        opts["parallel"] = parallel
                    out.append({"src": src, "dst": dst, "opts": opts, "entry": entry})
    return out


def core_fault_cases():
    """A key strategy callback that raises KeyboardInterrupt / SystemExit (an interactive strategy interrupted, sys.exit in
    a callback) after earlier keys have been merged: the document must be rolled back like after any other failure."""
    out = []
    docs = [({"a": 1, "b": 2, "c": 3, "new": 9}, {"a": 0, "b": 0, "c": 0, "keep": 5}),
            ({"new": 9, "n": {"p": 1, "q": 2}, "z": 1}, {"n": {"p": 0, "q": 0}, "z": 0}),
            ({"a": 1}, {"a": 0})]
    for sdoc, ddoc in docs:
        for bad in (["a"], ["b"], ["c"], ["z"], ["n.q"], ["n.p", "z"]):
            for exc in ("KeyboardInterrupt", "SystemExit"):
                for level in ("job", "project", "pdoc"):
                    for dry in (False, True):
                        ks = ["fault", ["a", "b", "c", "z", "n.p", "n.q"], bad, exc]
                        opts = {"doc_sync": ["bykey", ks], "check_schema": False, "strategy": "always"}
                        if dry:
                            opts["dry_run"] = True
                        if level == "pdoc":
                            src = {"jobs": [], "pdoc": sdoc}
                            dst = {"jobs": [], "pdoc": ddoc}
                            entry = "Project.sync"
                        else:
                            src = {"jobs": [{"sp": {"a": 0}, "files": {"x": ["A", 1000]}, "dirs": [], "doc": sdoc}]}
                            dst = {"jobs": [{"sp": {"a": 0}, "files": {}, "dirs": [], "doc": ddoc}]}
                            entry = ["Job.sync", {"a": 0}, {"a": 0}] if level == "job" else "sync_projects"
                        out.append({"src": src, "dst": dst, "opts": opts, "entry": entry})
    return out


def core_symlink_cases():
    """Dry runs over trees with symbolic links (file links inside the job, to a file outside it, dangling), with
    follow_symlinks True / False.  Outside the model (i_unmodelled): only "a dry run changes nothing and ends like the
    real run" is checked, on the observation."""
    out = []
    for follow in (True, False):
        for link, target in (("lnk", "real.txt"), ("lnk", "../../outside.txt"), ("lnk", "missing"), ("sub/lnk", "../real.txt")):
            for dst_kind in ("absent", "file_same", "file_other", "link_other"):
                for strat in (None, "always", "never"):
                    for recursive in (False, True):
                        for entry in ("Project.sync", ["Job.sync", {"a": 0}, {"a": 0}]):
                            sj = {"sp": {"a": 0}, "files": {"real.txt": ["REAL", 1000]}, "dirs": ["sub"], "links": {link: target}}
                            dj = {"sp": {"a": 0}, "files": {"real.txt": ["REAL", 1000]}, "dirs": ["sub"]}
                            if dst_kind == "file_same":
                                dj["files"][link] = ["REAL", 1000]
                            elif dst_kind == "file_other":
                                dj["files"][link] = ["OTHER", 2000]
                            elif dst_kind == "link_other":
                                dj["files"]["v1.txt"] = ["V1", 1000]
                                dj["links"] = {link: ("v1.txt" if "/" not in link else "../v1.txt")}
                            src = {"jobs": [sj, {"sp": {"a": 1}, "files": {"t": ["T", 1000]}, "dirs": [], "links": {"l2": "t"}}],
                                   "top_files": {"outside.txt": ["OUT", 1000]}}
                            opts = {"strategy": strat, "recursive": recursive, "check_schema": False, "dry_run": True,
                                    "follow_symlinks": follow, "doc_sync": "nosync"}
                            out.append({"src": src, "dst": {"jobs": [dj]}, "opts": opts, "entry": entry})
    return out


def core_deep_history_cases():
    """deep=True after an earlier deep comparison of the same paths in the same process: the files were identical then;
    one of them has since changed content keeping size and mtime."""
    out = []
    for rel in ("x", "sub/x"):
        for side in ("dst", "src"):
            for strat in (None, "always", "never"):
                for entry in ("Project.sync", ["Job.sync", {"a": 0}, {"a": 0}]):
                    for dry in (False, True):
                        src = {"jobs": [{"sp": {"a": 0}, "files": {rel: ["AAAA", 1000], "keep": ["K", 1000]}, "dirs": []}]}
                        dst = {"jobs": [{"sp": {"a": 0}, "files": {rel: ["AAAA", 1000], "keep": ["K", 1000]}, "dirs": []}]}
                        opts = {"strategy": strat, "recursive": True, "deep": True, "check_schema": False, "doc_sync": "nosync"}
                        if dry:
                            opts["dry_run"] = True
                        out.append({"src": src, "dst": dst, "opts": opts, "entry": entry,
                                    "deep_history": [[side, {"a": 0}, rel, "BBBB"]]})
    return out


def core_reuse_exclude_cases():
    """One caller-owned exclude LIST serves two calls: sync_jobs with the default document strategy on another pair, then
    the observed call (DocSync.COPY among others).  The list must come back unchanged and the second call must behave
    as with a fresh list."""
    out = []
    for ex in (["x"], [], [".*\\.tmp", "y"]):
        for ds in ("copy", None, "update", "nosync"):
            for entry in (["Job.sync", {"a": 0}, {"a": 0}], "Project.sync"):
                for ddoc in (None, {"d": 1}):
                    sj = {"sp": {"a": 0}, "files": {"x": ["A", 1000], "z": ["Z", 1000]}, "dirs": [], "doc": {"result": 42}}
                    dj = {"sp": {"a": 0}, "files": {}, "dirs": []}
                    if ddoc is not None:
                        dj["doc"] = ddoc
                    src = {"jobs": [sj, {"sp": {"a": 1}, "files": {}, "dirs": [], "doc": {"k": 1}}]}
                    dst = {"jobs": [dj, {"sp": {"a": 1}, "files": {}, "dirs": []}]}
                    opts = {"doc_sync": ds, "exclude": ex, "check_schema": False, "strategy": "always"}
                    if isinstance(entry, str):
                        opts["selection"] = ["ids", [{"a": 0}]]
                    out.append({"src": src, "dst": dst, "opts": opts, "entry": entry, "prime": [{"a": 1}, {"a": 1}], "reuse_exclude": True})
    return out


def core_clash_cases():
    """A name that is a file on one side and a directory on the other, at the top level and nested; and user files
    that carry the name of the state point / document file in a sub-directory."""
    out = []
    for rel, skind in (("out", "dir"), ("out", "file"), ("sub/out", "dir"), ("sub/out", "file")):
        for strat in (None, "always", "never"):
            for recursive in (False, True):
                for ex in (None, "out", "data"):
                    for entry in ("Project.sync", ["sync_jobs", {"a": 0}, {"a": 0}]):
                        sfiles, dfiles, sdirs, ddirs = {"keep": ["K", 1000]}, {"keep": ["K", 1000]}, [], []
                        if "/" in rel:
                            sfiles["sub/keep"] = ["K", 1000]
                            dfiles["sub/keep"] = ["K", 1000]
                        if skind == "dir":
                            sfiles[rel + "/data.txt"] = ["payload", 1000]
                            dfiles[rel] = ["i am a file", 1000]
                        else:
                            sfiles[rel] = ["source file", 1000]
                            ddirs.append(rel)
                        opts = {"strategy": strat, "recursive": recursive, "check_schema": False, "doc_sync": "nosync"}
                        if ex:
                            opts["exclude"] = ex
                        out.append({"src": {"jobs": [{"sp": {"a": 0}, "files": sfiles, "dirs": sdirs}]},
                                    "dst": {"jobs": [{"sp": {"a": 0}, "files": dfiles, "dirs": ddirs}]}, "opts": opts, "entry": entry})
    for name in (FN_SP, FN_DOC):
        for kind in ("conflict", "src_only", "in_leftonly_dir", "same"):
            for strat in (None, "always", "never"):
                for ds in (None, "copy"):
                    for ex in (None, "signac"):
                        for entry in ("Project.sync", ["Job.sync", {"a": 0}, {"a": 0}]):
                            sfiles, dfiles = {"inner/" + name: ['{"who": "src"}', 1000], "inner/c": ["C", 1000]}, {"inner/c": ["C", 1000]}
                            if kind == "conflict":
                                dfiles["inner/" + name] = ['{"who": "dst"}', 2000]
                            elif kind == "same":
                                dfiles["inner/" + name] = ['{"who": "src"}', 1000]
                            elif kind == "in_leftonly_dir":
                                dfiles = {}
                            opts = {"strategy": strat, "recursive": True, "check_schema": False, "doc_sync": ds}
                            if ex:
                                opts["exclude"] = ex
                            out.append({"src": {"jobs": [{"sp": {"a": 0}, "files": sfiles, "dirs": [], "doc": {"k": 1}}]},
                                        "dst": {"jobs": [{"sp": {"a": 0}, "files": dfiles, "dirs": []}]}, "opts": opts, "entry": entry})
    return out


def core_parallel_cases():
    """Pools of every size against 1-7 source jobs (some cloned, some synchronised): every job must be processed whatever
    N modulo the number of workers is; real and dry runs, with and without a conflict."""
    out = []
    for n in range(1, 8):
        for parallel in (2, 3, True):
            for dry in (False, True):
                for conflict in (False, True):
                    src = {"jobs": [{"sp": {"a": i}, "files": {"x": ["A%d" % i, 2000], "only": ["S", 1000]}, "dirs": [], "doc": {"k": i}}
                                    for i in range(n)]}
                    dst = {"jobs": [{"sp": {"a": i}, "files": {"x": ["B", 1000]}, "dirs": []} for i in range(0, n, 2)]}
                    opts = {"strategy": None if conflict else "always", "check_schema": False, "parallel": parallel}
                    if dry:
                        opts["dry_run"] = True
                    out.append({"src": src, "dst": dst, "opts": opts, "entry": "Project.sync" if n % 2 else "sync_projects"})
    return out


def core_ignores_cases():
    """Names of filecmp.DEFAULT_IGNORES on both sides / on one side: same size and mtime but different content (deep must
    see it), different size, identical; as file and as directory."""
    out = []
    for name in ("tags", "CVS", ".git/config", "sub/tags", "__pycache__/m.pyc"):
        for kind in ("same_sig", "differ", "same", "src_only"):
            for deep in (False, True):
                for strat in (None, "always", "never", "update"):
                    for entry in ("Project.sync", ["Job.sync", {"a": 0}, {"a": 0}]):
                        sfiles, dfiles = {name: ["AAAA", 1000], "keep": ["K", 1000]}, {"keep": ["K", 1000]}
                        if kind == "same_sig":
                            dfiles[name] = ["BBBB", 1000]
                        elif kind == "differ":
                            dfiles[name] = ["B", 2000]
                        elif kind == "same":
                            dfiles[name] = ["AAAA", 1000]
                        opts = {"strategy": strat, "recursive": True, "check_schema": False, "doc_sync": "nosync"}
                        if deep:
                            opts["deep"] = True
                        out.append({"src": {"jobs": [{"sp": {"a": 0}, "files": sfiles, "dirs": []}]},
                                    "dst": {"jobs": [{"sp": {"a": 0}, "files": dfiles, "dirs": []}]}, "opts": opts, "entry": entry})
    return out


def core_ownname_cases(dries=(False,)):
    """Top-level user files whose names are proper substrings of the job's own file names ('state', 'json', 'signac',
    'point.json', 'document', ...): source-only / differing / identical, under every document strategy (DocSync.COPY
    changes which of the two own files take part in the walk), strategy, entry point."""
    out = []
    for variant in range(4):
        for ds in (None, "copy", "update", "nosync"):
            for strat in (None, "always", "never"):
                for entry in ("Project.sync", ["sync_jobs", {"a": 0}, {"a": 0}]):
                    for dry in dries:
                        sfiles, dfiles = {}, {"only_dst": ["D", 1000]}
                        for k, n in enumerate(OWN_SUBSTRINGS):
                            kind = 0 if variant == 3 else (k + variant) % 3
                            sfiles[n] = ["S%d" % k, 2000]
                            if kind == 1:
                                dfiles[n] = ["D", 1000]
                            elif kind == 2:
                                dfiles[n] = list(sfiles[n])
                        opts = {"strategy": strat, "recursive": False, "check_schema": False, "doc_sync": ds}
                        if dry:
                            opts["dry_run"] = True
                        out.append({"src": {"jobs": [{"sp": {"a": 0}, "files": sfiles, "dirs": [], "doc": {"k": 1}}]},
                                    "dst": {"jobs": [{"sp": {"a": 0}, "files": dfiles, "dirs": [], "doc": {"d": 2}}]},
                                    "opts": opts, "entry": entry})
    return out


def core_perm_cases(dries=(False, True)):
    """Permission bits: counterpart files with different bits (differing content / identical content), source-only and
    destination-only files with non-default bits, nested, a job that is cloned; x preserve_permissions / preserve_times x
    dry run x strategy x entry point.  A copy carries the source's bits, nothing else may change a bit."""
    out = []
    for preserve in (None, "p", "pt"):
        for dry in dries:
            for strat in (None, "always", "never", "update"):
                for entry in ("Project.sync", "sync_projects", ["Job.sync", {"a": 0}, {"a": 0}], ["sync_jobs", {"a": 0}, {"a": 0}]):
                    for conflict in ((True, False) if strat is None else (True,)):
                        sj = {"sp": {"a": 0}, "dirs": [], "doc": {"k": {"n": 1}},
                              "files": {"same.sh": ["echo", 1000], "only_src.sh": ["x", 1000], "sub/n.sh": ["new", 2000], "plain": ["P", 1000]},
                              "modes": {"same.sh": 0o755, "only_src.sh": 0o700, "sub/n.sh": 0o755}}
                        dj = {"sp": {"a": 0}, "dirs": [], "doc": {"k": {"m": 2}},
                              "files": {"same.sh": ["echo", 1000], "only_dst.sh": ["y", 1000], "sub/n.sh": ["old version", 1000]},
                              "modes": {"same.sh": 0o600, "only_dst.sh": 0o640, "sub/n.sh": 0o600}}
                        if conflict:
                            sj["files"]["run.sh"], sj["modes"]["run.sh"] = ["#!/bin/sh new", 2000], 0o755
                            dj["files"]["run.sh"], dj["modes"]["run.sh"] = ["#!/bin/sh old version", 1000], 0o600
                            sj["files"]["newer_at_dst"] = ["S", 1000]
                            dj["files"]["newer_at_dst"], dj["modes"]["newer_at_dst"] = ["DD", 2000], 0o664
                        else:
                            del dj["files"]["sub/n.sh"], dj["modes"]["sub/n.sh"]
                            dj["dirs"] = ["sub"]
                        cl = {"sp": {"a": 1}, "dirs": [], "files": {"tool": ["T", 1000], "d/e": ["E", 1000]}, "modes": {"tool": 0o755, "d/e": 0o600}}
                        opts = {"strategy": strat, "recursive": True, "check_schema": False}
                        if preserve:
                            opts["preserve"] = preserve
                        if dry:
                            opts["dry_run"] = True
                        if entry == "sync_projects":
                            opts["parallel"] = 2
                            opts["collect_stats"] = True
                        out.append({"src": {"jobs": [sj, cl]}, "dst": {"jobs": [dj]}, "opts": opts, "entry": entry})
    return out


def core_cross_cases(dries=(False,)):
    """Job.sync / sync_jobs between jobs whose STATE POINTS DIFFER (Project.sync only pairs equal ids): the two state
    point files differ, so every option combination must still leave the destination's identity alone.  x document
    strategy (DocSync.COPY changes which own files take part in the walk) x file strategy (incl. a custom strategy that
    says yes to the state point file, and update with the source's state point file newer / older) x destination
    initialised or not."""
    out = []
    for ds in ("copy", None, "update", "nosync", ["bykey", ["pred", ["k"]]]):
        for strat in (None, "always", "never", "update", ["custom", [FN_SP, FN_DOC, "x"]], ["custom", []]):
            for kind in ("Job.sync", "sync_jobs"):
                for dst_init in (True, False):
                    for sp_newer in (True, False):
                        for dry in dries:
                            sj = {"sp": {"a": 0}, "files": {"x": ["S", 2000], "only_src": ["O", 1000], "same": ["=", 1000]}, "dirs": [],
                                  "doc": {"k": 1, "s": 2}, "meta_mt": {FN_SP: 2000 if sp_newer else 1000, FN_DOC: 2000 if sp_newer else 1000}}
                            dj = {"sp": {"a": 1, "b": "other"}, "files": {"x": ["D", 1000], "only_dst": ["P", 1000], "same": ["=", 1000]}, "dirs": [],
                                  "doc": {"k": 1, "d": 3}, "meta_mt": {FN_SP: 1500, FN_DOC: 1500}}
                            if not dst_init:
                                dj = {"sp": dj["sp"], "init": False}
                            opts = {"strategy": strat, "doc_sync": ds, "recursive": False, "check_schema": False}
                            if dry:
                                opts["dry_run"] = True
                            out.append({"src": {"jobs": [sj]}, "dst": {"jobs": [dj, {"sp": {"a": 0}, "files": {"x": ["Q", 1000]}, "dirs": []}]},
                                        "opts": opts, "entry": [kind, sj["sp"], dj["sp"]]})
    return out
