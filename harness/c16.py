"""C16 — export then import reproduces the project; nothing dropped, merged or misplaced."""
import contextlib
import json
import os
import shutil
import tarfile
import warnings
import zipfile

from .common import (Case, coq_bool, coq_fl, coq_json, coq_list, coq_str, exn_name, float_me, scratch_dir, scratch_root,
                     to_plain, typed, untyped)

PROP = "C16"
IMPORTS = "Base Json MD5 Canon Export CorrC16"
CASE_TYPE = "case_C16"
MISMATCHES = "mismatches_C16"
VIOLATIONS = "violations_C16"
KNOWN = "known_C16"
SHARD = 16
RULE = ("one case = one export_to + import_from round trip on a real project of 0-12 jobs (quick: 0-7) whose state "
        "points are drawn from textually colliding universes (1/10/100; 1/1.0/'1'/True/'True'; -1/-1.0; prefix keys "
        "a/ab/a_b; nested keys; heterogeneous key sets; strings with spaces, dots, '/', '..', trailing '/'; lists; "
        "None), jobs carry documents, nested files, empty directories and nested state-point files; target kind in "
        "{dir,.zip,.tar,.tar.gz,.tar.bz2,.tar.xz}; path spec in {None, False, format strings incl. {{auto}}/"
        "{{auto:sep}}/{job.id}/{job.sp.k}/nested keys/missing keys, callables (unique, duplicate, nested, "
        "string-prefix, trailing slash)}; import schema in {None, schema string derived from the layout (right and "
        "wrong types), callable}; listing order of os.listdir/os.scandir ascending or descending; optionally jobs "
        "already present in the importing project, optionally state point files stripped from the exported "
        "directory.  Round 4 classes (after the earlier cases): falsy state points incl. the empty one {} for every kind; "
        "format strings ending in a literal component with the schema string that describes them; a callable schema "
        "wrong for the k-th exported directory; directory targets whose NAME holds a regex metacharacter.  "
        "Model (Coq) is run on the same input and compared on: exception classes, returned "
        "destinations, the exported tree / archive members with bytes, the imported workspace tree with bytes.  "
        "non-trivial: >= 2 jobs; distinct by (state points, files, kind, path spec, schema, order, pre, strip)")
TRUSTED = [
    "float.__repr__, str(tuple), format(list,''), json.loads of the state point files: oracle tables in the case",
    "posixpath.join/normpath/dirname/relpath, str.split/startswith, zipfile arcname normalisation, tarfile member "
    "naming and the 'data' extraction filter, os.makedirs, shutil.copytree, re.match for the RE_TYPES classes, "
    "int()/float() of plain decimals: written out in Export.v (modelled, validated by the correspondence)",
    "os.listdir/os.scandir are replaced in the harness process by versions that sort ascending or descending "
    "(one admissible file system); the model takes the same order as input",
    "job ids: Canon.calc_id (C01) recomputed in Coq for every imported state point",
]
ASSUMPTIONS = [
    "no symbolic links; state point keys and values contain no '{' '}' and no key is called 'job' or 'auto'",
    "exported paths are relative (no state point value starts with '/'); at most three '..' components",
    "schema strings and the paths BELOW the origin are ASCII without regex metacharacters other than '.'; the origin's "
    "own name may hold them: whether it matches itself as a regular expression is a library fact carried by the case",
    "the process's current directory is deeper than any '..' occurring in an archive member name",
]

KINDS = ["dir", "zip", "tar", "tar.gz", "tar.bz2", "tar.xz"]
FN_SP = "signac_statepoint.json"


# ------------------------------------------------------------------ generators
def _universe(rng):
    u = rng.choice(["pow10", "one", "one", "neg", "prefixkeys", "nested", "hetero", "hetero", "strings", "strings",
                    "seps", "seps", "lists", "two", "two", "floats", "mixed", "mixed", "bools", "bools", "boolstr", "signed", "signed", "numstr", "originkey", "constkeys", "constkeys"])
    R = rng.random
    if u == "pow10":
        pool = [{"a": v} for v in (1, 10, 100, 1000, 11, 2)]
    elif u == "one":
        pool = [{"a": v} for v in (1, 1.0, "1", True, "True", "1.0", 2)]
    elif u == "neg":
        pool = [{"a": v} for v in (-1, -1.0, -2, -2.0, 3, 0, 0.0, False)]
    elif u == "prefixkeys":
        pool = [{k: v} for k in ("a", "ab", "a_b") for v in (1, 2)] + \
               [{"a": v, "ab": w} for v in (1, 2) for w in (1, 12)] + [{"a": 1, "a_b": 2, "ab": 3}]
    elif u == "nested":
        pool = [{"a": {"b": v}} for v in (1, 2, "x")] + [{"a": {"b": 1, "c": w}} for w in (1, 2)] + \
               [{"a": {"b": {"c": 1}}}, {"a": 1}, {"a": {}, "d": 1}, {"a": {}, "d": 2}, {"a": {"b": 1}, "d": 3}]
    elif u == "hetero":
        pool = [{"a": 1}, {"a": 2}, {"a": 1, "b": 1}, {"a": 1, "b": 2}, {"a": 2, "b": 2}, {"a": 2, "b": 3},
                {"b": 1}, {"c": 1, "a": 1}, {"a": 1, "b": 1, "c": 1}, {}, {"a": 3, "b": 3}]
    elif u == "strings":
        pool = [{"a": v} for v in ("x y", "v1.5", "a.b", "x", "x ", " x", "X", "x_y", "1e3", "é", "None", None)] + \
               [{"a": "x y", "b k": 1}, {"a": "x y", "b k": 2}]
    elif u == "seps":
        pool = [{"a": v} for v in ("x/y", "x/", "x", "x//y", "./x", ".", "..", "../../zz", "../x", "x/../y", "y", "x/y/z")]
    elif u == "lists":
        pool = [{"a": v} for v in ([1, "x"], [1.0, "x"], [True, "x"], [], [2], [[1], 2], 1, "x")]
    elif u == "two":
        pool = [{"a": v, "b": w} for v in (1, 2, 10) for w in ("x", "y", 1.5)]
    elif u == "bools":
        pool = [{"flag": f, "n": n} for f in (True, False) for n in (1, 2, 3)] + [{"flag": True, "n": 10}]
    elif u == "signed":    # negative / positive plain decimals and integers behind {x:float} / {n:int}
        pool = [{"x": x, "n": n} for x in (-0.25, 0.5, -1.5, 2.0, -10.75, 0.125) for n in (-3, 7, -12, 0)]
    elif u == "originkey":   # a key that is called like the (relative) origin: layout exp/exp/<v>, schema exp/{exp:int}
        pool = [{"exp": v} for v in (0, 1, 2, 10)] + [{"exp": 1, "b": "x"}, {"exp": 2, "b": "y"}]
    elif u == "constkeys":   # keys that are constant across the jobs are left out of the auto path: a schema string
        # derived from the layout then describes a strict subset of the state point (files present -> conflict)
        pool = [{"a": i, "mode": "fast", "box": {"L": 8}} for i in (0, 1, 2, 3)] + [{"a": 7, "mode": "fast", "box": {"L": 8}, "b": 1}]
    elif u == "numstr":    # strings that ':float' / ':int' fields read as numbers (signed, bare '.5', '5.')
        pool = [{"x": x, "n": n} for x, n in (("+1.5", "+7"), ("-2", "-2"), (".5", "007"), ("5.", "5"), ("1e3", "12"),
                                              ("-.5", "-0"), ("+.25", "+0"), ("1.5.2", "1_0"))]
    elif u == "boolstr":   # strings that a ':bool' field reads as booleans (or not)
        pool = [{"flag": f, "n": 1} for f in ("true", "True", "TRUE", "false", "False", "FALSE", "0", "1", "yes", "no", "f")]
    elif u == "floats":
        pool = [{"a": v} for v in (0.5, 1.5, 2.25, -0.5, 1e22, 1.0, 10.0, 0.1, 3)] + [{"a": 0.5, "b": True}, {"a": 0.5, "b": False}]
    else:
        pool = [{"a": v, "k": w} for v in (1, "1", True) for w in ("p", "p1", "p10")] + [{"a": 7}, {"k": "p"}]
    n = rng.choice([0, 1, 1, 2, 2, 2, 3, 3, 3, 4, 4, 5, 6, 7])
    n = min(n, len(pool))
    return u, rng.sample(pool, n)


def _big_universe(rng):
    u, sps = _universe(rng)
    _, more = _universe(rng)
    out = list(sps)
    for sp in more:
        if all(typed(sp) != typed(x) for x in out) and len(out) < 12:
            out.append(sp)
    return u, out


def _small_zip():
    """bytes of a small, deterministic zip file"""
    import io
    buf = io.BytesIO()
    with zipfile.ZipFile(buf, "w") as z:
        z.writestr(zipfile.ZipInfo("hello.txt"), "hi")
    return buf.getvalue()


def _small_tar():
    """bytes of a small, deterministic tar file (one member, padding cut to two zero blocks)"""
    import io
    buf = io.BytesIO()
    with tarfile.open(fileobj=buf, mode="w", format=tarfile.USTAR_FORMAT) as t:
        ti = tarfile.TarInfo("hello.txt")
        ti.size = 2
        t.addfile(ti, io.BytesIO(b"hi"))
    return buf.getvalue()[:2048]


def _files(rng, i):
    """extra files of a job: {relative path: hex bytes | None for a directory}"""
    fs = {}
    r = rng.random
    if r() < 0.6:
        fs["f.txt"] = (b"f%d" % i).hex()
    if r() < 0.35:
        fs["sub"] = None
        fs["sub/g.bin"] = bytes([i, 0, 255]).hex()
        if r() < 0.4:
            fs["sub/deep"] = None
            fs["sub/deep/h"] = b"".hex()
    if r() < 0.12:
        fs["emptydir"] = None
    if r() < 0.08:                       # an empty directory next to files, one level down
        fs.setdefault("sub", None)
        fs["sub/e2"] = None
    if r() < 0.08:                       # a directory that only contains an empty directory
        fs["only"] = None
        fs["only/inner"] = None
    if r() < 0.05:                       # a chain of otherwise empty directories
        fs["d1"] = None
        fs["d1/d2"] = None
        fs["d1/d2/d3"] = None
    if r() < 0.15:
        fs["nested"] = None
        fs["nested/" + FN_SP] = json.dumps({"zz": i}).encode().hex()
        fs["nested/data"] = b"n".hex()
    if r() < 0.12:                       # a bare state point file two levels below the job directory
        fs["x"] = None
        fs["x/y"] = None
        fs["x/y/" + FN_SP] = json.dumps({"deep": i}).encode().hex()
        fs["x/y/payload"] = b"xy".hex()
    if r() < 0.12:                       # a nested signac project: state point files three levels down
        fs.update({k: v for k, v in _nested_files(i).items() if k.startswith("analysis")})
    if r() < 0.06:                       # archive files among the job data
        fs["bundle.zip"] = _small_zip().hex()
    if r() < 0.03:
        fs["inner.tar"] = _small_tar().hex()
    if r() < 0.08:
        fs["10"] = None
        fs["10/x"] = b"ten".hex()
    return fs


def _leaf_keys(sp, pre=()):
    out = []
    for k, v in sp.items():
        if isinstance(v, dict) and v:
            out += _leaf_keys(v, pre + (k,))
        else:
            out.append(pre + (k,))
    return out


def _fmt_spec(rng, sps):
    keys = []
    for sp in sps:
        for k in _leaf_keys(sp):
            if k not in keys:
                keys.append(k)
    if not keys:
        keys = [("a",)]
    r = rng.random()
    segs = []
    ks = rng.sample(keys, min(len(keys), rng.choice([1, 1, 2])))
    if r < 0.30:      # k/{k}/k2/{k2}
        for i, k in enumerate(ks):
            segs += [["lit", ("/" if i else "") + ".".join(k) + "/"], ["key", list(k)]]
    elif r < 0.40:    # {k}_{k2}
        for i, k in enumerate(ks):
            segs += ([["lit", "_"]] if i else []) + [["key", list(k)]]
    elif r < 0.55:    # k/{k}/{{auto}}
        k = ks[0]
        segs = [["lit", ".".join(k) + "/"], ["key", list(k)], ["lit", "/"], ["auto", ""]]
    elif r < 0.65:
        segs = [["auto", rng.choice(["_", "-", "", " ", "."])]]
    elif r < 0.72:
        segs = [["lit", "id/"], ["jobid"]]
    elif r < 0.80:
        k = ks[0]
        segs = [["lit", "s/"], ["jobsp", list(k)]]
    elif r < 0.86:    # missing / unknown key
        segs = [["lit", "q/"], ["key", ["nokey"]]]
    elif r < 0.93:    # a key plus the id, always unique
        k = ks[0]
        segs = [["key", list(k)], ["lit", "/"], ["jobid"]]
    else:             # constant: duplicates for >= 2 jobs
        segs = [["lit", "same"]]
    return {"t": "fmt", "segs": segs}


def _call_spec(rng, n):
    mode = rng.choice(["uniq", "uniq", "dup", "nested", "nested_rev", "strprefix", "trail", "deep", "dot"])
    names = []
    for i in range(n):
        if mode == "uniq":
            names.append("j%d" % i)
        elif mode == "dup":
            names.append("j%d" % (i // 2))
        elif mode == "nested":
            names.append("p" + "/q" * i)
        elif mode == "nested_rev":
            names.append("p" + "/q" * (n - 1 - i))
        elif mode == "strprefix":
            names.append("d/p1" + "0" * i)
        elif mode == "trail":
            names.append("x" + ("/" if i % 2 else "") if i < 2 else "y%d" % i)
        elif mode == "deep":
            names.append("a/b%d/c" % i)
        else:
            names.append("." if i == 0 else "r%d" % i)
    return {"t": "call", "names": names, "mode": mode}


def _one(rng, tier, big=False):
    u, sps = _big_universe(rng) if big else _universe(rng)
    jobs = []
    for i, sp in enumerate(sps):
        j = {"sp": typed(sp), "files": _files(rng, i)}
        if rng.random() < 0.3:
            j["doc"] = typed({"d": i, "n": {"x": [1, 2.5, None]}})
        jobs.append(j)
    kind = rng.choice(KINDS if rng.random() < 0.5 else ["dir", "zip", "tar"])
    r = rng.random()
    if r < 0.40:
        path = {"t": "none"}
    elif r < 0.48:
        path = {"t": "false"}
    elif r < 0.85:
        path = _fmt_spec(rng, sps)
    else:
        path = _call_spec(rng, len(sps))
    r = rng.random()
    if r < 0.55:
        schema = {"t": "none"}
    elif r < 0.80:
        schema = {"t": "auto_str", "wrong": rng.random() < 0.2}
    else:
        schema = {"t": "call", "mode": rng.choice(["faithful", "faithful", "drop_one", "wrong_one"])}
    if u in ("bools", "boolstr") and sps:
        # the layout flag/<value>/n/<value> read back with a ':bool' field, with and without state point files
        path = {"t": "fmt", "segs": [["lit", "flag/"], ["key", ["flag"]], ["lit", "/n/"], ["key", ["n"]]]}
        schema = {"t": "auto_str", "wrong": False, "force": {"flag": "bool"}}
        if rng.random() < 0.5:
            kind = "dir"
    if u in ("signed", "numstr") and sps:
        path = {"t": "fmt", "segs": [["lit", "x/"], ["key", ["x"]], ["lit", "/n/"], ["key", ["n"]]]}
        schema = {"t": "auto_str", "wrong": False, "force": {"x": "float", "n": "int"}}
        strip = kind == "dir" and rng.random() < 0.4
    force_spell = None
    if u == "originkey" and sps:
        path = {"t": "none"}
        schema = {"t": "auto_str", "wrong": False}
        kind = "dir"
        strip = rng.random() < 0.3
        force_spell = rng.choice(["exp", "exp", "./exp", "abs"])
    if u == "constkeys" and sps:
        path = rng.choice([{"t": "none"}, {"t": "fmt", "segs": [["lit", "a/"], ["key", ["a"]]]}])
        schema = rng.choice([{"t": "auto_str", "wrong": False}, {"t": "call", "mode": "subset"}])
    zip_extra = kind == "zip" and rng.random() < 0.25
    pre = []
    if jobs and rng.random() < 0.2:
        if rng.random() < 0.6:
            pre.append({"sp": jobs[rng.randrange(len(jobs))]["sp"], "files": {"old.txt": b"old".hex()}})
        else:
            pre.append({"sp": typed({"unrelated": 1}), "files": {"old.txt": b"old".hex()}})
    sepvals = []
    for sp in sps:
        all_values(sp, sepvals)
    if (any(isinstance(v, str) and ("/" in v or v in (".", "..")) for v in sepvals)
            and path["t"] in ("fmt", "call") and kind.startswith("tar")):
        kind = rng.choice(["dir", "zip"])     # inner '..' in tar member names: outside the model's domain
    strip = kind == "dir" and schema["t"] != "none" and rng.random() < (0.5 if u in ("bools", "boolstr") else 0.35)
    return {"universe": u, "jobs": jobs, "asc": rng.random() < 0.6, "kind": kind, "path": path, "schema": schema,
            "pre": pre, "strip": strip or zip_extra,
            "tspell": rng.choice(["abs", "abs", "abs", "exp", "./exp", "exp/"]) if kind == "dir" else "abs",
            "ospell": (force_spell or rng.choice(["abs", "abs", "exp", "./exp", "exp/", "exp/../exp", ".//exp", "exp/."]))
            if kind == "dir" else "abs",
            "tloc": rng.choice(["workspace_old", "workspace~", "workspaceX"]) if kind == "dir" and rng.random() < 0.12 else None}


def _nested_files(v):
    """a job payload with a bare x/y/signac_statepoint.json and a nested signac project (two inner jobs)"""
    fs = {"f.txt": b"f".hex(), "x": None, "x/y": None, "x/y/" + FN_SP: json.dumps({"deep": v}).encode().hex(),
          "analysis": None, "analysis/workspace": None}
    for k in range(2):
        inner = "%032x" % (0xabc0 + 16 * v + k)
        fs["analysis/workspace/" + inner] = None
        fs["analysis/workspace/%s/%s" % (inner, FN_SP)] = json.dumps({"inner": k, "of": v}).encode().hex()
        fs["analysis/workspace/%s/out.txt" % inner] = b"o".hex()
    return fs


FIXED = [
    # the former counterexamples (F6, F7, F15, F18, F19: repaired, must now round-trip or be refused
    # cleanly) and the witnesses of the remaining _refuted theorems (F20' root / lex, F21)
    {"universe": "F6", "jobs": [{"sp": typed({"a": v}), "files": {"f.txt": b"x".hex()}} for v in (1, 10, 100)],
     "asc": True, "kind": "zip", "path": {"t": "none"}, "schema": {"t": "none"}, "pre": [], "strip": False},
    {"universe": "F7", "jobs": [{"sp": typed({"a": v}), "files": {}} for v in (1, "1")],
     "asc": True, "kind": "dir", "path": {"t": "none"}, "schema": {"t": "none"}, "pre": [], "strip": False},
    {"universe": "F7", "jobs": [{"sp": typed({"a": v}), "files": {}} for v in (1, "1")],
     "asc": True, "kind": "zip", "path": {"t": "none"}, "schema": {"t": "none"}, "pre": [], "strip": False},
    {"universe": "F15", "jobs": [{"sp": typed({"a": 1}), "files": {}}, {"sp": typed({"a": 2}), "files": {}}],
     "asc": True, "kind": "dir", "path": {"t": "call", "names": ["a", "a/b"], "mode": "byid_asc"},
     "schema": {"t": "none"}, "pre": [], "strip": False},
    {"universe": "F15", "jobs": [{"sp": typed({"a": 1}), "files": {}}, {"sp": typed({"a": 2}), "files": {}}],
     "asc": True, "kind": "dir", "path": {"t": "call", "names": ["a/b", "a"], "mode": "byid_asc"},
     "schema": {"t": "none"}, "pre": [], "strip": False},
    {"universe": "F18", "jobs": [{"sp": typed({"a": 1}), "files": {"f.txt": b"x".hex()}}],
     "asc": True, "kind": "zip", "path": {"t": "none"}, "schema": {"t": "none"}, "pre": [], "strip": False},
    {"universe": "F18", "jobs": [{"sp": typed({"a": 1}), "files": {"f.txt": b"x".hex()}}],
     "asc": True, "kind": "tar", "path": {"t": "none"}, "schema": {"t": "none"}, "pre": [], "strip": False},
    {"universe": "F19", "jobs": [{"sp": typed({"a": v}), "files": {}} for v in ("x", "../../zz")],
     "asc": True, "kind": "dir", "path": {"t": "none"}, "schema": {"t": "none"}, "pre": [], "strip": False},
    {"universe": "F6-overwrite",
     "jobs": [{"sp": typed({"a": 2}), "files": {"f.txt": b"two".hex()}}, {"sp": typed({"a": 10}), "files": {"f.txt": b"ten".hex()}}],
     "asc": True, "kind": "zip",
     "path": {"t": "call", "names": ["4", "42b7b4f2921788ea14dac5566e6f06d0"], "mode": "byid_desc"},
     "schema": {"t": "none"}, "pre": [{"sp": typed({"a": 1}), "files": {"f.txt": b"one".hex()}}], "strip": False},
    {"universe": "F20", "jobs": [{"sp": typed({"a": 1}), "files": {}}, {"sp": typed({"a": 2}), "files": {}}],
     "asc": True, "kind": "dir", "path": {"t": "call", "names": [".", "r1"], "mode": "byid_asc"},
     "schema": {"t": "none"}, "pre": [], "strip": False},
    {"universe": "F20-lex", "jobs": [{"sp": typed({"a": 1}), "files": {}}, {"sp": typed({"a": 2}), "files": {}}],
     "asc": True, "kind": "dir", "path": {"t": "call", "names": ["a/x/../y", "a/x"], "mode": "byid_asc"},
     "schema": {"t": "none"}, "pre": [], "strip": False},
    {"universe": "F20-root-empty", "jobs": [{"sp": typed({"a": 1}), "files": {}}, {"sp": typed({"a": 2}), "files": {}}],
     "asc": True, "kind": "zip", "path": {"t": "call", "names": [".", ""], "mode": "byid_asc"},
     "schema": {"t": "none"}, "pre": [], "strip": False},
    # a schema that describes only a strict subset of the state point while state point files are present
    {"universe": "schema-subset", "jobs": [{"sp": typed({"a": i, "mode": "fast", "box": {"L": 8}}), "files": {"f.txt": b"f".hex()}} for i in (0, 1, 2)],
     "asc": True, "kind": "dir", "path": {"t": "none"}, "schema": {"t": "auto_str", "wrong": False}, "pre": [], "strip": False},
    {"universe": "schema-subset", "jobs": [{"sp": typed({"a": i, "mode": "fast", "box": {"L": 8}}), "files": {"f.txt": b"f".hex()}} for i in (0, 1, 2)],
     "asc": True, "kind": "zip", "path": {"t": "none"}, "schema": {"t": "auto_str", "wrong": False}, "pre": [], "strip": False},
    {"universe": "schema-subset", "jobs": [{"sp": typed({"a": i, "mode": "fast", "box": {"L": 8}}), "files": {"f.txt": b"f".hex()}} for i in (0, 1, 2)],
     "asc": True, "kind": "tar", "path": {"t": "none"}, "schema": {"t": "auto_str", "wrong": False}, "pre": [], "strip": False},
    {"universe": "schema-subset", "jobs": [{"sp": typed({"a": i, "mode": "fast", "box": {"L": 8}}), "files": {"f.txt": b"f".hex()}} for i in (0, 1, 2)],
     "asc": True, "kind": "zip", "path": {"t": "none"}, "schema": {"t": "call", "mode": "subset"}, "pre": [], "strip": False},
    {"universe": "schema-subset", "jobs": [{"sp": typed({"a": i, "mode": "fast", "box": {"L": 8}}), "files": {"f.txt": b"f".hex()}} for i in (0, 1, 2)],
     "asc": True, "kind": "dir", "path": {"t": "none"}, "schema": {"t": "call", "mode": "subset"}, "pre": [], "strip": False},
    # the three import repairs 7b4884e / 54d0555 / 18617f5
    {"universe": "origin-next-to-workspace", "jobs": [{"sp": typed({"a": v}), "files": {"f.txt": b"f".hex()}} for v in (0, 1, 2)],
     "asc": True, "kind": "dir", "path": {"t": "none"}, "schema": {"t": "none"}, "pre": [], "strip": False, "tloc": "workspace_old"},
    {"universe": "origin-next-to-workspace", "jobs": [{"sp": typed({"a": v}), "files": {"f.txt": b"f".hex()}} for v in (0, 1, 2)],
     "asc": True, "kind": "dir", "path": {"t": "none"}, "schema": {"t": "none"}, "pre": [], "strip": False, "tloc": "workspace~"},
    {"universe": "origin-next-to-workspace", "jobs": [{"sp": typed({"a": v}), "files": {"f.txt": b"f".hex()}} for v in (0, 1, 2)],
     "asc": True, "kind": "dir", "path": {"t": "none"}, "schema": {"t": "none"}, "pre": [], "strip": False, "tloc": "workspaceX"},
    {"universe": "origin-next-to-workspace", "jobs": [{"sp": typed({"a": v}), "files": {}} for v in (0, 1, 2)],
     "asc": False, "kind": "dir", "path": {"t": "none"}, "schema": {"t": "auto_str", "wrong": False}, "pre": [], "strip": True,
     "tloc": "workspace_old"},
    {"universe": "relative-origin-key", "jobs": [{"sp": typed({"exp": v}), "files": {}} for v in (0, 1, 2)],
     "asc": True, "kind": "dir", "path": {"t": "none"}, "schema": {"t": "auto_str", "wrong": False}, "pre": [], "strip": False,
     "tspell": "exp", "ospell": "exp"},
    {"universe": "relative-origin-key", "jobs": [{"sp": typed({"exp": v}), "files": {"f.txt": b"f".hex()}} for v in (0, 1, 2)],
     "asc": False, "kind": "dir", "path": {"t": "none"}, "schema": {"t": "auto_str", "wrong": False}, "pre": [], "strip": True,
     "tspell": "abs", "ospell": "./exp"},
    {"universe": "relative-origin-key", "jobs": [{"sp": typed({"exp": v}), "files": {}} for v in (0, 1, 2)],
     "asc": True, "kind": "dir", "path": {"t": "none"}, "schema": {"t": "auto_str", "wrong": False}, "pre": [], "strip": False,
     "tspell": "abs", "ospell": "abs"},
    {"universe": "tar-with-zip-inside", "jobs": [{"sp": typed({"a": v}), "files": {"bundle.zip": _small_zip().hex()}} for v in (0, 1)],
     "asc": True, "kind": "tar", "path": {"t": "none"}, "schema": {"t": "none"}, "pre": [], "strip": False},
    {"universe": "tar-with-zip-inside", "jobs": [{"sp": typed({"a": 0}), "files": {"bundle.zip": _small_zip().hex()}}],
     "asc": True, "kind": "tar", "path": {"t": "none"}, "schema": {"t": "none"}, "pre": [], "strip": False},
    {"universe": "zip-with-tar-inside", "jobs": [{"sp": typed({"a": v}), "files": {"inner.tar": _small_tar().hex()}} for v in (0, 1)],
     "asc": True, "kind": "zip", "path": {"t": "none"}, "schema": {"t": "none"}, "pre": [], "strip": False},
    {"universe": "targz-with-zip-inside", "jobs": [{"sp": typed({"a": v}), "files": {"bundle.zip": _small_zip().hex(), "inner.tar": _small_tar().hex()}} for v in (0, 1)],
     "asc": True, "kind": "tar.gz", "path": {"t": "none"}, "schema": {"t": "none"}, "pre": [], "strip": False},
    # negative / signed numbers behind typed schema fields, every target kind; origin spellings
    {"universe": "signed-dir", "jobs": [{"sp": typed({"x": x, "n": n}), "files": {"f.txt": b"f".hex()}}
                                       for x, n in ((-0.25, -3), (0.5, 7), (-10.75, -12), (2.0, 0))],
     "asc": True, "kind": "dir", "path": {"t": "fmt", "segs": [["lit", "x/"], ["key", ["x"]], ["lit", "/n/"], ["key", ["n"]]]}, "schema": {"t": "auto_str", "wrong": False, "force": {"x": "float", "n": "int"}}, "pre": [], "strip": False, "ospell": "./exp"},
    {"universe": "signed-dir", "jobs": [{"sp": typed({"x": x, "n": n}), "files": {"f.txt": b"f".hex()}}
                                       for x, n in ((-0.25, -3), (0.5, 7), (-10.75, -12), (2.0, 0))],
     "asc": True, "kind": "dir", "path": {"t": "fmt", "segs": [["lit", "x/"], ["key", ["x"]], ["lit", "/n/"], ["key", ["n"]]]}, "schema": {"t": "auto_str", "wrong": False, "force": {"x": "float", "n": "int"}}, "pre": [], "strip": True, "tspell": "exp/", "ospell": "exp/../exp"},
    {"universe": "signed-zip", "jobs": [{"sp": typed({"x": x, "n": n}), "files": {"f.txt": b"f".hex()}}
                                       for x, n in ((-0.25, -3), (0.5, 7), (-10.75, -12), (2.0, 0))],
     "asc": True, "kind": "zip", "path": {"t": "fmt", "segs": [["lit", "x/"], ["key", ["x"]], ["lit", "/n/"], ["key", ["n"]]]}, "schema": {"t": "auto_str", "wrong": False, "force": {"x": "float", "n": "int"}}, "pre": [], "strip": False},
    {"universe": "signed-tar", "jobs": [{"sp": typed({"x": x, "n": n}), "files": {"f.txt": b"f".hex()}}
                                       for x, n in ((-0.25, -3), (0.5, 7), (-10.75, -12), (2.0, 0))],
     "asc": True, "kind": "tar", "path": {"t": "fmt", "segs": [["lit", "x/"], ["key", ["x"]], ["lit", "/n/"], ["key", ["n"]]]}, "schema": {"t": "auto_str", "wrong": False, "force": {"x": "float", "n": "int"}}, "pre": [], "strip": False},
    {"universe": "signed-tar.gz", "jobs": [{"sp": typed({"x": x, "n": n}), "files": {"f.txt": b"f".hex()}}
                                       for x, n in ((-0.25, -3), (0.5, 7), (-10.75, -12), (2.0, 0))],
     "asc": True, "kind": "tar.gz", "path": {"t": "fmt", "segs": [["lit", "x/"], ["key", ["x"]], ["lit", "/n/"], ["key", ["n"]]]}, "schema": {"t": "auto_str", "wrong": False, "force": {"x": "float", "n": "int"}}, "pre": [], "strip": False},
    {"universe": "numstr-plain", "jobs": [{"sp": typed({"x": x, "n": n}), "files": {}}
                                          for x, n in (("+1.5", "+7"), ("-.5", "-0"), (".5", "007"), ("5.", "5"))],
     "asc": True, "kind": "dir", "path": {"t": "fmt", "segs": [["lit", "x/"], ["key", ["x"]], ["lit", "/n/"], ["key", ["n"]]]}, "schema": {"t": "auto_str", "wrong": False, "force": {"x": "float", "n": "int"}}, "pre": [], "strip": True, "ospell": "exp/"},
    {"universe": "origin-spelling", "jobs": [{"sp": typed({"a": v}), "files": {"f.txt": b"f".hex()}} for v in (1, 10, 2)],
     "asc": True, "kind": "dir", "path": {"t": "none"}, "schema": {"t": "auto_str", "wrong": False}, "pre": [], "strip": False,
     "tspell": "abs", "ospell": "exp"},
    {"universe": "origin-spelling", "jobs": [{"sp": typed({"a": v}), "files": {"f.txt": b"f".hex()}} for v in (1, 10, 2)],
     "asc": True, "kind": "dir", "path": {"t": "none"}, "schema": {"t": "auto_str", "wrong": False}, "pre": [], "strip": False,
     "tspell": "abs", "ospell": "./exp"},
    {"universe": "origin-spelling", "jobs": [{"sp": typed({"a": v}), "files": {"f.txt": b"f".hex()}} for v in (1, 10, 2)],
     "asc": True, "kind": "dir", "path": {"t": "none"}, "schema": {"t": "auto_str", "wrong": False}, "pre": [], "strip": False,
     "tspell": "abs", "ospell": "exp/"},
    {"universe": "origin-spelling", "jobs": [{"sp": typed({"a": v}), "files": {"f.txt": b"f".hex()}} for v in (1, 10, 2)],
     "asc": True, "kind": "dir", "path": {"t": "none"}, "schema": {"t": "auto_str", "wrong": False}, "pre": [], "strip": False,
     "tspell": "abs", "ospell": "exp/../exp"},
    {"universe": "origin-spelling", "jobs": [{"sp": typed({"a": v}), "files": {"f.txt": b"f".hex()}} for v in (1, 10, 2)],
     "asc": True, "kind": "dir", "path": {"t": "none"}, "schema": {"t": "auto_str", "wrong": False}, "pre": [], "strip": False,
     "tspell": "abs", "ospell": ".//exp"},
    {"universe": "origin-spelling", "jobs": [{"sp": typed({"a": v}), "files": {"f.txt": b"f".hex()}} for v in (1, 10, 2)],
     "asc": True, "kind": "dir", "path": {"t": "none"}, "schema": {"t": "auto_str", "wrong": False}, "pre": [], "strip": False,
     "tspell": "abs", "ospell": "exp/."},
    # state point files deep below a job directory (a nested signac project, a bare x/y/signac_statepoint.json):
    # everything below a recognised job belongs to it, at any depth, for every kind of origin
    {"universe": "nested-project-dir", "jobs": [{"sp": typed({"a": v}), "files": _nested_files(v)} for v in (1, 2, 3)],
     "asc": True, "kind": "dir", "path": {"t": "none"}, "schema": {"t": "none"}, "pre": [], "strip": False},
    {"universe": "nested-project-zip", "jobs": [{"sp": typed({"a": v}), "files": _nested_files(v)} for v in (1, 2, 3)],
     "asc": False, "kind": "zip", "path": {"t": "none"}, "schema": {"t": "none"}, "pre": [], "strip": False},
    {"universe": "nested-project-tar", "jobs": [{"sp": typed({"a": v}), "files": _nested_files(v)} for v in (1, 2, 3)],
     "asc": True, "kind": "tar", "path": {"t": "none"}, "schema": {"t": "none"}, "pre": [], "strip": False},
    {"universe": "nested-project-tar.gz", "jobs": [{"sp": typed({"a": v}), "files": _nested_files(v)} for v in (1, 2, 3)],
     "asc": False, "kind": "tar.gz", "path": {"t": "false"}, "schema": {"t": "none"}, "pre": [], "strip": False},
    {"universe": "nested-project-tar.bz2", "jobs": [{"sp": typed({"a": v}), "files": _nested_files(v)} for v in (1, 2, 3)],
     "asc": True, "kind": "tar.bz2", "path": {"t": "none"}, "schema": {"t": "call", "mode": "faithful"}, "pre": [], "strip": False},
    {"universe": "nested-project-tar.xz", "jobs": [{"sp": typed({"a": v}), "files": _nested_files(v)} for v in (1, 2, 3)],
     "asc": True, "kind": "tar.xz", "path": {"t": "none"}, "schema": {"t": "auto_str", "wrong": False}, "pre": [], "strip": False},
    # F20' (repaired by 3224fe9 / 54a5f4b): the target itself next to other jobs, inner '..', a single 'a/../'
    {"universe": "F20-root-dir", "jobs": [{"sp": typed({"a": 1}), "files": {"f.txt": b"1".hex()}}, {"sp": typed({"a": 2}), "files": {"f.txt": b"2".hex(), "sub": None, "sub/g": b"g".hex()}}],
     "asc": True, "kind": "dir", "path": {"t": "call", "names": [".", "r1"], "mode": "byid_asc"},
     "schema": {"t": "none"}, "pre": [], "strip": False},
    {"universe": "F20-lex-dir", "jobs": [{"sp": typed({"a": 1}), "files": {"f.txt": b"1".hex()}}, {"sp": typed({"a": 2}), "files": {"f.txt": b"2".hex(), "sub": None, "sub/g": b"g".hex()}}],
     "asc": True, "kind": "dir", "path": {"t": "call", "names": ["a/x/../y", "a/x"], "mode": "byid_asc"},
     "schema": {"t": "none"}, "pre": [], "strip": False},
    {"universe": "F20-self-dir", "jobs": [{"sp": typed({"a": 1}), "files": {"f.txt": b"1".hex(), "emptydir": None}}],
     "asc": True, "kind": "dir", "path": {"t": "call", "names": ["a/../"], "mode": "byid_asc"},
     "schema": {"t": "none"}, "pre": [], "strip": False},
    {"universe": "F20-root-zip", "jobs": [{"sp": typed({"a": 1}), "files": {"f.txt": b"1".hex()}}, {"sp": typed({"a": 2}), "files": {"f.txt": b"2".hex(), "sub": None, "sub/g": b"g".hex()}}],
     "asc": True, "kind": "zip", "path": {"t": "call", "names": [".", "r1"], "mode": "byid_asc"},
     "schema": {"t": "none"}, "pre": [], "strip": False},
    {"universe": "F20-lex-zip", "jobs": [{"sp": typed({"a": 1}), "files": {"f.txt": b"1".hex()}}, {"sp": typed({"a": 2}), "files": {"f.txt": b"2".hex(), "sub": None, "sub/g": b"g".hex()}}],
     "asc": True, "kind": "zip", "path": {"t": "call", "names": ["a/x/../y", "a/x"], "mode": "byid_asc"},
     "schema": {"t": "none"}, "pre": [], "strip": False},
    {"universe": "F20-self-zip", "jobs": [{"sp": typed({"a": 1}), "files": {"f.txt": b"1".hex(), "emptydir": None}}],
     "asc": True, "kind": "zip", "path": {"t": "call", "names": ["a/../"], "mode": "byid_asc"},
     "schema": {"t": "none"}, "pre": [], "strip": False},
    {"universe": "F20-root-tar", "jobs": [{"sp": typed({"a": 1}), "files": {"f.txt": b"1".hex()}}, {"sp": typed({"a": 2}), "files": {"f.txt": b"2".hex(), "sub": None, "sub/g": b"g".hex()}}],
     "asc": True, "kind": "tar", "path": {"t": "call", "names": [".", "r1"], "mode": "byid_asc"},
     "schema": {"t": "none"}, "pre": [], "strip": False},
    {"universe": "F20-lex-tar", "jobs": [{"sp": typed({"a": 1}), "files": {"f.txt": b"1".hex()}}, {"sp": typed({"a": 2}), "files": {"f.txt": b"2".hex(), "sub": None, "sub/g": b"g".hex()}}],
     "asc": True, "kind": "tar", "path": {"t": "call", "names": ["a/x/../y", "a/x"], "mode": "byid_asc"},
     "schema": {"t": "none"}, "pre": [], "strip": False},
    {"universe": "F20-self-tar", "jobs": [{"sp": typed({"a": 1}), "files": {"f.txt": b"1".hex(), "emptydir": None}}],
     "asc": True, "kind": "tar", "path": {"t": "call", "names": ["a/../"], "mode": "byid_asc"},
     "schema": {"t": "none"}, "pre": [], "strip": False},
    # relative one-component directory target
    {"universe": "rel-single", "jobs": [{"sp": typed({"a": 1}), "files": {"f.txt": b"1".hex(), "emptydir": None}}], "asc": True, "kind": "dir", "path": {"t": "none"},
     "schema": {"t": "none"}, "pre": [], "strip": False, "rel": True},
    {"universe": "rel-two", "jobs": [{"sp": typed({"a": 1}), "files": {"f.txt": b"1".hex()}}, {"sp": typed({"a": 2}), "files": {"f.txt": b"2".hex(), "sub": None, "sub/g": b"g".hex()}}], "asc": False, "kind": "dir", "path": {"t": "none"},
     "schema": {"t": "auto_str", "wrong": False}, "pre": [], "strip": False, "rel": True},
    {"universe": "rel-callable-dot", "jobs": [{"sp": typed({"a": 1}), "files": {"f.txt": b"1".hex(), "emptydir": None}}], "asc": True, "kind": "dir",
     "path": {"t": "call", "names": ["."], "mode": "byid_asc"}, "schema": {"t": "none"}, "pre": [], "strip": False, "rel": True},
    # F21 (repaired by a52f9e0): empty directories at several depths, all target kinds
    {"universe": "F21-zip", "jobs": [{"sp": typed({"a": 1}), "files": {"emptydir": None, "sub": None, "sub/g.bin": b"g".hex(), "sub/e2": None, "only": None, "only/inner": None, "d1": None, "d1/d2": None, "d1/d2/d3": None}},
                                     {"sp": typed({"a": 2}), "files": {"emptydir": None}}],
     "asc": True, "kind": "zip", "path": {"t": "none"}, "schema": {"t": "none"}, "pre": [], "strip": False},
    {"universe": "F21-zip", "jobs": [{"sp": typed({"a": 1}), "files": {"emptydir": None, "sub": None, "sub/g.bin": b"g".hex(), "sub/e2": None, "only": None, "only/inner": None, "d1": None, "d1/d2": None, "d1/d2/d3": None}},
                                     {"sp": typed({"a": 2}), "files": {"emptydir": None}}],
     "asc": False, "kind": "zip", "path": {"t": "false"}, "schema": {"t": "call", "mode": "faithful"}, "pre": [], "strip": False},
    {"universe": "F21-dir", "jobs": [{"sp": typed({"a": 1}), "files": {"emptydir": None, "sub": None, "sub/g.bin": b"g".hex(), "sub/e2": None, "only": None, "only/inner": None, "d1": None, "d1/d2": None, "d1/d2/d3": None}},
                                     {"sp": typed({"a": 2}), "files": {"emptydir": None}}],
     "asc": True, "kind": "dir", "path": {"t": "none"}, "schema": {"t": "none"}, "pre": [], "strip": False},
    {"universe": "F21-tar", "jobs": [{"sp": typed({"a": 1}), "files": {"emptydir": None, "sub": None, "sub/g.bin": b"g".hex(), "sub/e2": None, "only": None, "only/inner": None, "d1": None, "d1/d2": None, "d1/d2/d3": None}},
                                     {"sp": typed({"a": 2}), "files": {"emptydir": None}}],
     "asc": False, "kind": "tar", "path": {"t": "none"}, "schema": {"t": "none"}, "pre": [], "strip": False},
    {"universe": "F21-tar.gz", "jobs": [{"sp": typed({"a": 1}), "files": {"emptydir": None, "sub": None, "sub/g.bin": b"g".hex(), "sub/e2": None, "only": None, "only/inner": None, "d1": None, "d1/d2": None, "d1/d2/d3": None}},
                                     {"sp": typed({"a": 2}), "files": {"emptydir": None}}],
     "asc": True, "kind": "tar.gz", "path": {"t": "none"}, "schema": {"t": "auto_str", "wrong": False}, "pre": [], "strip": False},
    {"universe": "F21-zip", "jobs": [{"sp": typed({"a": 1}), "files": {"emptydir": None, "sub": None, "sub/g.bin": b"g".hex(), "sub/e2": None, "only": None, "only/inner": None, "d1": None, "d1/d2": None, "d1/d2/d3": None}},
                                     {"sp": typed({"a": 2}), "files": {"emptydir": None}}],
     "asc": True, "kind": "zip", "path": {"t": "none"}, "schema": {"t": "auto_str", "wrong": False}, "pre": [], "strip": False},
    {"universe": "F21", "jobs": [{"sp": typed({"a": 1}), "files": {"emptydir": None}}, {"sp": typed({"a": 2}), "files": {}}],
     "asc": True, "kind": "zip", "path": {"t": "none"}, "schema": {"t": "none"}, "pre": [], "strip": False},
    # a foreign empty directory in the archive and a schema string that does / does not match its path
    {"universe": "zip-foreign-emptydir-matching", "jobs": [{"sp": typed({"a": "p", "b": "q"}), "files": {"emptydir": None}},
                                                            {"sp": typed({"a": "p", "b": "r"}), "files": {}}],
     "asc": True, "kind": "zip", "path": {"t": "fmt", "segs": [["key", ["a"]], ["lit", "/"], ["key", ["b"]]]},
     "schema": {"t": "str", "text": "{a}/{b}"}, "pre": [], "strip": True},
    {"universe": "zip-foreign-emptydir", "jobs": [{"sp": typed({"a": 1}), "files": {"emptydir": None}}, {"sp": typed({"a": 2}), "files": {}}],
     "asc": True, "kind": "zip", "path": {"t": "none"}, "schema": {"t": "auto_str", "wrong": False}, "pre": [], "strip": True},
    {"universe": "F21-single", "jobs": [{"sp": typed({"a": 1}), "files": {"only": None, "only/inner": None}}],
     "asc": True, "kind": "zip", "path": {"t": "none"}, "schema": {"t": "none"}, "pre": [], "strip": False},
    {"universe": "pre-dir", "jobs": [{"sp": typed({"a": v}), "files": {"f.txt": b"new".hex()}} for v in (1, 2, 3)],
     "asc": True, "kind": "dir", "path": {"t": "none"}, "schema": {"t": "none"},
     "pre": [{"sp": typed({"a": 2}), "files": {"f.txt": b"old".hex()}}], "strip": False},
    {"universe": "pre-zip", "jobs": [{"sp": typed({"a": v}), "files": {"f.txt": b"new".hex()}} for v in (1, 2, 3)],
     "asc": False, "kind": "zip", "path": {"t": "false"}, "schema": {"t": "none"},
     "pre": [{"sp": typed({"a": 2}), "files": {"f.txt": b"old".hex()}}], "strip": False},
    {"universe": "pre-tar", "jobs": [{"sp": typed({"a": v}), "files": {"f.txt": b"new".hex()}} for v in (1, 2, 3)],
     "asc": False, "kind": "tar.gz", "path": {"t": "false"}, "schema": {"t": "none"},
     "pre": [{"sp": typed({"a": 2}), "files": {"f.txt": b"old".hex()}}], "strip": False},
    {"universe": "bool-schema", "jobs": [{"sp": typed({"flag": f, "n": n}), "files": {"payload.txt": b"p".hex()}}
                                         for f, n in ((True, 1), (False, 2), (True, 3), (False, 4))],
     "asc": True, "kind": "dir", "path": {"t": "fmt", "segs": [["lit", "flag/"], ["key", ["flag"]], ["lit", "/n/"], ["key", ["n"]]]},
     "schema": {"t": "auto_str", "wrong": False, "force": {"flag": "bool"}}, "pre": [], "strip": False},
    {"universe": "bool-schema-plain", "jobs": [{"sp": typed({"flag": f, "n": n}), "files": {"payload.txt": b"p".hex()}}
                                               for f, n in ((False, 7), (True, 8))],
     "asc": False, "kind": "dir", "path": {"t": "fmt", "segs": [["lit", "flag/"], ["key", ["flag"]], ["lit", "/n/"], ["key", ["n"]]]},
     "schema": {"t": "auto_str", "wrong": False, "force": {"flag": "bool"}}, "pre": [], "strip": True},
    {"universe": "bool-schema-zip", "jobs": [{"sp": typed({"flag": f, "n": n}), "files": {}} for f, n in ((False, 1), (True, 1))],
     "asc": True, "kind": "zip", "path": {"t": "fmt", "segs": [["lit", "flag/"], ["key", ["flag"]], ["lit", "/n/"], ["key", ["n"]]]},
     "schema": {"t": "auto_str", "wrong": False, "force": {"flag": "bool"}}, "pre": [], "strip": False},
    {"universe": "boolstr-plain", "jobs": [{"sp": typed({"flag": f, "n": 1}), "files": {}} for f in ("FALSE", "true", "0", "yes")],
     "asc": True, "kind": "dir", "path": {"t": "fmt", "segs": [["lit", "flag/"], ["key", ["flag"]], ["lit", "/n/"], ["key", ["n"]]]},
     "schema": {"t": "auto_str", "wrong": False, "force": {"flag": "bool"}}, "pre": [], "strip": True},
    {"universe": "schema", "jobs": [{"sp": typed({"a": v, "b": w}), "files": {"f.txt": b"x".hex()}}
                                    for v, w in ((1, "x"), (10, "y"), (-3, "x_1"))],
     "asc": False, "kind": "dir", "path": {"t": "fmt", "segs": [["lit", "a/"], ["key", ["a"]], ["lit", "/b/"], ["key", ["b"]]]},
     "schema": {"t": "auto_str", "wrong": False}, "pre": [], "strip": True},
]


def _base(**kw):
    d = {"asc": True, "kind": "dir", "path": {"t": "none"}, "schema": {"t": "none"}, "pre": [], "strip": False}
    d.update(kw)
    return d


FMT_ID = {"t": "fmt", "segs": [["lit", "id/"], ["jobid"]]}
FALSY_POOL = [{}, {"a": 0}, {"a": False}, {"a": None}, {"a": {}}, {"a": []}, {"a": 0.0}, {"b": 0, "a": {}}]


def _falsy(rng):
    """round 4 (C16-11): state points that are FALSY in Python - above all the job with the empty state point {} -
    and state points whose values are falsy, for every target kind; the automatic path refuses such heterogeneous
    projects, so the path is by id, a '{job.id}' format string, a callable - or the job is alone (archive root)"""
    n = rng.choice([1, 1, 2, 2, 3, 4])
    sps = rng.sample(FALSY_POOL, n)
    if {} not in sps and rng.random() < 0.75:
        sps[rng.randrange(n)] = {}
    jobs = [{"sp": typed(sp), "files": _files(rng, i)} for i, sp in enumerate(sps)]
    if n == 1 and rng.random() < 0.6:
        path = {"t": "none"}
    else:
        path = rng.choice([{"t": "false"}, {"t": "false"}, FMT_ID, {"t": "call", "names": ["j%d" % i for i in range(n)], "mode": "uniq"},
                           {"t": "call", "names": ["p/q%d/r" % i for i in range(n)], "mode": "deep"}])
    schema = rng.choice([{"t": "none"}, {"t": "none"}, {"t": "call", "mode": "faithful"}])
    kind = rng.choice(KINDS + ["tar", "zip"])
    pre = []
    if rng.random() < 0.15:
        pre.append({"sp": typed(rng.choice(sps)), "files": {"old.txt": b"old".hex()}})
    return _base(universe="falsy", jobs=jobs, asc=rng.random() < 0.6, kind=kind, path=path, schema=schema, pre=pre)


TRAIL_FMTS = [   # format strings whose last component is a literal: the job directory is a/<a>/run, not a/<a>
    [["lit", "a/"], ["key", ["a"]], ["lit", "/run"]],
    [["lit", "a/"], ["key", ["a"]], ["lit", "/data/raw"]],
    [["lit", "b/"], ["key", ["b"]], ["lit", "/a/"], ["key", ["a"]], ["lit", "/out"]],
    [["lit", "sim/a/"], ["key", ["a"]], ["lit", "/b/"], ["key", ["b"]], ["lit", "/v1.d"]],
]


def _trailing(rng):
    """round 4 (existing_defect1): a layout that ends in a literal component, read back with the schema string
    that describes it ('a/{a:int}/run'), every target kind, with and without state point files"""
    ws = rng.choice([("x", "y_1", "z"), (True, False), (1.5, -0.25, 2.0), (7, 8, -9)])   # one type per key
    pool = [{"a": v, "b": w} for v in (0, 1, 2, 10, -3) for w in ws]
    sps = rng.sample(pool, rng.choice([1, 2, 2, 3, 3, 4]))
    segs = rng.choice(TRAIL_FMTS)
    if not any(s == ["key", ["b"]] for s in segs):
        seen, out = set(), []
        for sp in sps:              # 'b' is not part of the path: keep 'a' distinct and drop 'b' so that the
            if sp["a"] not in seen:  # schema describes the complete state point
                seen.add(sp["a"])
                out.append({"a": sp["a"]})
        sps = out
    jobs = [{"sp": typed(sp), "files": _files(rng, i)} for i, sp in enumerate(sps)]
    for i, j in enumerate(jobs):
        if rng.random() < 0.4:
            j["doc"] = typed({"n": i})
    kind = rng.choice(KINDS + ["dir", "dir", "zip"])
    strip = kind == "dir" and rng.random() < 0.35
    return _base(universe="trailing-literal", jobs=jobs, asc=rng.random() < 0.6, kind=kind, path={"t": "fmt", "segs": segs},
                 schema={"t": "auto_str", "wrong": False}, strip=strip,
                 ospell=rng.choice(["abs", "abs", "exp", "./exp"]) if kind == "dir" else "abs")


def _wrong_callable(rng):
    """round 4 (existing_defect3): a callable schema that contradicts the state point file of ONE exported
    directory (in value, so that the consistency check notices), the position of that directory in the listing
    order varied; state point files in place, empty importing project, every target kind"""
    vals = rng.sample([0, 1, 2, 3, 4, 5, 10], rng.choice([2, 3, 3, 4, 5]))
    jobs = [{"sp": typed({"a": v}), "files": _files(rng, i)} for i, v in enumerate(vals)]
    kind = rng.choice(["dir", "dir", "dir", "zip", "tar", "tar.gz"])
    path = rng.choice([{"t": "none"}, {"t": "none"}, {"t": "false"}, FMT_ID])
    return _base(universe="wrong-callable", jobs=jobs, asc=rng.random() < 0.5, kind=kind, path=path,
                 schema={"t": "call", "mode": "wrong_at", "at": rng.randrange(len(vals))})


TNAMES = ["runs+v2", "exp(1)", "d[old]", "what?", "a+b", "run-v2_x"]     # the last one is harmless


def _origin_name(rng):
    """round 4 (existing_defect2): the NAME of the directory target / origin contains a regular-expression
    metacharacter; schema string (the class at stake), None and callable (controls); every origin spelling"""
    vals = rng.sample([1, 10, 100, 2, 3], rng.choice([1, 2, 3, 3]))
    jobs = [{"sp": typed({"a": v}), "files": _files(rng, i)} for i, v in enumerate(vals)]
    path = rng.choice([{"t": "none"}, {"t": "none"}, {"t": "fmt", "segs": [["lit", "a/"], ["key", ["a"]]]}, FMT_ID])
    schema = rng.choice([{"t": "auto_str", "wrong": False}, {"t": "auto_str", "wrong": False}, {"t": "auto_str", "wrong": False},
                         {"t": "none"}, {"t": "call", "mode": "faithful"}])
    if len(vals) == 1 and path["t"] == "none":
        path = {"t": "fmt", "segs": [["lit", "a/"], ["key", ["a"]]]}
    return _base(universe="origin-name", jobs=jobs, asc=rng.random() < 0.6, path=path, schema=schema,
                 strip=schema["t"] != "none" and rng.random() < 0.3, tname=rng.choice(TNAMES),
                 tspell=rng.choice(["abs", "abs", "exp", "./exp"]),
                 ospell=rng.choice(["abs", "abs", "exp", "./exp", "exp/", "exp/../exp"]))


FIXED_R4 = (
    [_base(universe="origin-name", jobs=[{"sp": typed({"a": v}), "files": {"f.txt": b"f".hex()}} for v in (1, 10, 100)],
           schema={"t": "auto_str", "wrong": False}, tname=tn, tspell="abs", ospell=osp)
     for tn, osp in (("runs+v2", "abs"), ("runs+v2", "exp"), ("exp(1)", "abs"), ("d[old]", "./exp"), ("what?", "abs"), ("run-v2_x", "exp"))] +
    # the job with the empty state point, alone (archive root) and next to others, every kind
    [_base(universe="empty-sp-alone", jobs=[{"sp": typed({}), "files": {"f.txt": b"e".hex(), "sub": None, "sub/g": b"g".hex()}}], kind=k)
     for k in ("dir", "zip", "tar", "tar.gz")] +
    [_base(universe="empty-sp", jobs=[{"sp": typed({}), "files": {"f.txt": b"e".hex()}}, {"sp": typed({"a": 0}), "files": {}},
                                      {"sp": typed({"a": {}}), "files": {"f.txt": b"x".hex()}}], kind=k, path=p, asc=asc)
     for k, p, asc in (("dir", {"t": "false"}, True), ("zip", {"t": "false"}, False), ("tar", {"t": "false"}, True),
                       ("tar.bz2", FMT_ID, False), ("tar.xz", {"t": "call", "names": ["j0", "j1", "j2"], "mode": "uniq"}, True),
                       ("tar", FMT_ID, True))] +
    [_base(universe="empty-sp-callable", jobs=[{"sp": typed({}), "files": {"f.txt": b"e".hex()}}, {"sp": typed({"a": 1}), "files": {}}],
           kind=k, path={"t": "false"}, schema={"t": "call", "mode": "faithful"}) for k in ("dir", "zip", "tar")] +
    # a layout that ends in a literal component and the schema string that describes it
    [_base(universe="trailing-literal", jobs=[{"sp": typed({"a": v}), "files": {"data.txt": (b"%d" % v).hex()}, "doc": typed({"n": v})} for v in (0, 1, 2)],
           kind=k, path={"t": "fmt", "segs": TRAIL_FMTS[0]}, schema={"t": "auto_str", "wrong": False}, strip=st)
     for k, st in (("dir", False), ("dir", True), ("zip", False), ("tar", False), ("tar.gz", False))] +
    [_base(universe="trailing-literal", jobs=[{"sp": typed({"a": v, "b": w}), "files": {"data.txt": b"d".hex()}} for v, w in ((1, "x"), (10, "y_1"))],
           kind="dir", path={"t": "fmt", "segs": TRAIL_FMTS[3]}, schema={"t": "auto_str", "wrong": False}, ospell="exp")] +
    # coverage (notes/cov): '{job.sp.k}' for a key some job lacks; two archive directories claimed for one job
    [_base(universe="jobsp-missing-key", jobs=[{"sp": typed({"a": 1}), "files": {}}, {"sp": typed({"b": 2}), "files": {}}], kind=k,
           path={"t": "fmt", "segs": [["lit", "s/"], ["jobsp", ["a"]]]}) for k in ("dir", "zip")] +
    [_base(universe="empty-sp-claimed", jobs=[{"sp": typed({}), "files": {"f.txt": b"e".hex()}}, {"sp": typed({"a": 1}), "files": {"f.txt": b"1".hex()}}],
           kind=k, asc=asc, path={"t": "call", "names": ["j0", "j1"], "mode": "uniq"}, schema={"t": "call", "mode": "dup_empty"})
     for k, asc in (("zip", True), ("tar", True), ("tar.gz", False), ("dir", True), ("dir", False))] +
    # a callable schema that is wrong for one directory: first / middle / last in the listing order
    [_base(universe="wrong-callable", jobs=[{"sp": typed({"a": v}), "files": {"f.txt": b"f".hex()}} for v in (0, 1, 2, 3)],
           kind=k, asc=asc, schema={"t": "call", "mode": "wrong_at", "at": at})
     for k, asc, at in (("dir", True, 0), ("dir", True, 2), ("dir", True, 3), ("dir", False, 0), ("zip", True, 3), ("tar", True, 3))]
)


def gen_inputs(tier, rng):
    descs = [dict(d) for d in FIXED]
    n = 165 if tier == "quick" else 6000
    for i in range(n):
        descs.append(_one(rng, tier, big=(tier != "quick" and i % 3 == 0) or (tier == "quick" and i % 12 == 0)))
    # round 4: classes of their own, generated AFTER the earlier cases so that those stay as they were
    descs += [dict(d) for d in FIXED_R4]
    m = 48 if tier == "quick" else 1200
    for i in range(m):
        descs.append([_falsy, _trailing, _wrong_callable, _origin_name][i % 4](rng))
    return descs


# ------------------------------------------------------------------ deterministic directory listings
class _Scan:
    def __init__(self, entries):
        self._e = iter(entries)

    def __iter__(self):
        return self

    def __next__(self):
        return next(self._e)

    def __enter__(self):
        return self

    def __exit__(self, *a):
        return False

    def close(self):
        pass


@contextlib.contextmanager
def sorted_listings(asc):
    real_listdir, real_scandir = os.listdir, os.scandir

    def listdir(path="."):
        return sorted(real_listdir(path), reverse=not asc)

    def scandir(path="."):
        with real_scandir(path) as it:
            entries = list(it)
        entries.sort(key=lambda e: e.name, reverse=not asc)
        return _Scan(entries)

    os.listdir, os.scandir = listdir, scandir
    try:
        yield
    finally:
        os.listdir, os.scandir = real_listdir, real_scandir


# ------------------------------------------------------------------ snapshots
def snap(root):
    """{relative path: None (dir) | bytes} below root (root itself excluded)"""
    out = {}
    for dp, dn, fn in os.walk(root):
        for d in dn:
            out[os.path.relpath(os.path.join(dp, d), root)] = None
        for f in fn:
            p = os.path.join(dp, f)
            with open(p, "rb") as fh:
                out[os.path.relpath(p, root)] = fh.read()
    return out


def coq_fs(entries, prefix=()):
    """{relpath: None|bytes} -> Gallina fs literal (sorted by component list)"""
    items = []
    for p in sorted(entries, key=lambda q: q.split("/")):
        comps = list(prefix) + p.split("/")
        c = entries[p]
        node = "None" if c is None else "(Some %s)" % coq_str(c)
        items.append("(%s, %s)" % (coq_list([coq_str(x) for x in comps], "str"), node))
    return coq_list(items, "(fpath * fnode)")


def coq_exn(e):
    return "None" if e is None else "(Some %s)" % e


def coq_job(jid, sp, files):
    return "{| j_id := %s; j_sp := %s; j_files := %s |}" % (coq_str(jid), coq_json(sp), coq_fs(files))


def all_values(v, acc):
    acc.append(v)
    if isinstance(v, dict):
        for x in v.values():
            all_values(x, acc)
    elif isinstance(v, list):
        for x in v:
            all_values(x, acc)


def to_tuple(v):
    return tuple(to_tuple(x) for x in v) if isinstance(v, list) else v


# ------------------------------------------------------------------ one case
def render_fmt(segs):
    out = ""
    for s in segs:
        if s[0] == "lit":
            out += s[1]
        elif s[0] == "key":
            out += "{" + ".".join(s[1]) + "}"
        elif s[0] == "jobid":
            out += "{job.id}"
        elif s[0] == "jobsp":
            out += "{job.sp." + ".".join(s[1]) + "}"
        elif s[0] == "auto":
            out += "{{auto" + (":" + s[1] if s[1] else "") + "}}"
    return out


def coq_seg(s):
    if s[0] == "lit":
        return "(SLit %s)" % coq_str(s[1])
    if s[0] == "key":
        return "(SKey %s)" % coq_list([coq_str(k) for k in s[1]], "str")
    if s[0] == "jobid":
        return "SJobId"
    if s[0] == "jobsp":
        return "(SJobSp %s)" % coq_list([coq_str(k) for k in s[1]], "str")
    return "(SAuto %s)" % coq_str(s[1])


def get_path(sp, ks):
    v = sp
    for k in ks:
        if not isinstance(v, dict) or k not in v:
            return None, False
        v = v[k]
    return v, True


def derive_schema(dst, sp, wrong, force=None):
    """schema string describing the layout of one exported path, typed after the job's values"""
    toks = dst.split("/")
    keys = {".".join(k): k for k in _leaf_keys(sp)}
    out, i = [], 0
    while i < len(toks):
        t = toks[i]
        if t in keys and i + 1 < len(toks) and all(ch.isalnum() or ch in "._" for ch in t):
            v, _ = get_path(sp, keys[t])
            ty = ("bool" if isinstance(v, bool) else "int" if isinstance(v, int) else "float" if isinstance(v, float)
                  else "str")
            if force and t in force:
                ty = force[t]
            if wrong:
                ty = {"int": "float", "float": "int", "str": "int", "bool": "str"}[ty]
                wrong = False
            out += [t, "{%s:%s}" % (t, ty) if ty != "str" or i % 4 else "{%s}" % t]
            i += 2
        else:
            out.append(t)
            i += 1
    return "/".join(out)


def run_case(desc):
    import logging

    import signac
    logging.disable(logging.CRITICAL)
    from signac._utility import _to_hashable  # noqa: F401  (kept for parity with the index)

    asc = desc["asc"]
    kind = desc["kind"]
    mk = "dir" if kind == "dir" else "zip" if kind == "zip" else "tar"
    warnings.simplefilter("ignore")
    with scratch_dir("c16") as d0:
        d = os.path.realpath(d0)
        for c in d:
            assert c.isalnum() or c in "/._-", d          # the origin path is regex-literal apart from '.'
        srcp = signac.init_project(path=os.path.join(d, "src"))
        dstp = signac.init_project(path=os.path.join(d, "dst"))
        os.makedirs(os.path.join(d, "t", "e"))
        cwd_deep = os.path.join(d, "cwd", "1", "2", "3", "4", "5")
        os.makedirs(cwd_deep)

        def make_job(project, jd):
            sp = untyped(jd["sp"])
            job = project.open_job(sp).init()
            if "doc" in jd:
                job.doc.update(untyped(jd["doc"]))
            for rel in sorted(jd["files"]):
                c = jd["files"][rel]
                p = job.fn(rel)
                if c is None:
                    os.makedirs(p, exist_ok=True)
                else:
                    os.makedirs(os.path.dirname(p), exist_ok=True)
                    with open(p, "wb") as fh:
                        fh.write(bytes.fromhex(c))
            return job

        src_jobs = [make_job(srcp, jd) for jd in desc["jobs"]]
        by_index = {j.id: i for i, j in enumerate(src_jobs)}
        pre_jobs = [make_job(dstp, jd) for jd in desc["pre"]]

        # the NAME of a directory target (round 4): names with regular-expression metacharacters; the model's
        # directory is always t/e/exp, the exported tree is presented to it under that name
        tname = (desc.get("tname") or "exp") if kind == "dir" and not desc.get("tloc") else "exp"
        target = os.path.join(d, "t", "e", tname + ("" if kind == "dir" else "." + kind))
        # how the directory target / origin is SPELLED (cwd = its parent, always inside the scratch dir):
        # "abs", "exp", "./exp", "exp/" for the export; additionally "exp/../exp", ".//exp" for the import
        # WHERE the directory target lives: normally <case>/t/e/exp; "workspace_old" etc. = a sibling of the
        # importing project's workspace whose name starts like it (repair 7b4884e)
        tloc = desc.get("tloc") if kind == "dir" else None
        if tloc:
            target = os.path.join(d, "dst", tloc)
        abs_target = target
        tspell = desc.get("tspell") or ("exp" if desc.get("rel") else "abs")
        ospell = desc.get("ospell") or (tspell if tspell != "abs" else "abs")
        if kind != "dir" or tloc:
            tspell = ospell = "abs"
        rel_target = tspell != "abs"
        if tname != "exp":
            tspell, ospell = tspell.replace("exp", tname), ospell.replace("exp", tname)
        home_cwd = os.path.join(d, "t", "e")
        if rel_target:
            target = tspell
            os.chdir(home_cwd)
        with sorted_listings(asc):
            srcp = signac.get_project(os.path.join(d, "src"))
            jobs = list(srcp)
            ids = [j.id for j in jobs]
            sps = {j.id: to_plain(j.statepoint()) for j in jobs}
            job_files = {j.id: snap(j.path) for j in jobs}
            pre_files = {j.id: snap(j.path) for j in pre_jobs}
            pre_sps = {j.id: to_plain(j.statepoint()) for j in pre_jobs}

            # oracle tables
            vals = []
            for sp in list(sps.values()) + list(pre_sps.values()):
                all_values(sp, vals)
            text_tab = []
            seen = set()
            for v in vals:
                if isinstance(v, list):
                    key = json.dumps(typed(v))
                    if key in seen:
                        continue
                    seen.add(key)
                    text_tab.append((True, v, str(to_tuple(v))))
            for j in jobs:
                for ks in _leaf_keys(sps[j.id]):
                    v, _ = get_path(sps[j.id], ks)
                    if isinstance(v, list):
                        real = j.statepoint
                        for k in ks:
                            real = real[k]
                        text_tab.append((False, v, format(real, "")))
            parse_tab = {}
            for files in list(job_files.values()) + list(pre_files.values()):
                for rel, c in files.items():
                    if c is not None and rel.split("/")[-1] == FN_SP:
                        parse_tab[c] = json.loads(c.decode())

            # ---- path spec
            p = desc["path"]
            if p["t"] == "none":
                pyspec, cspec = None, "PNone"
            elif p["t"] == "false":
                pyspec, cspec = False, "PFalse"
            elif p["t"] == "fmt":
                pyspec = render_fmt(p["segs"])
                cspec = "(PFmt %s)" % coq_list([coq_seg(s) for s in p["segs"]], "seg")
            else:
                if p.get("mode") in ("byid_asc", "byid_desc"):
                    order = sorted(ids, reverse=p["mode"] == "byid_desc")
                    table = {i: p["names"][k] for k, i in enumerate(order)}
                else:
                    table = {j.id: p["names"][by_index[j.id]] for j in jobs}
                pyspec = lambda job, table=table: table[job.id]  # noqa: E731
                cspec = "(PCall %s)" % coq_list(["(%s, ROk %s)" % (coq_str(i), coq_str(table[i])) for i in ids],
                                                "(str * res str)")

            # ---- export
            before = snap(d)
            x_exn, x_map = None, []
            try:
                ret = srcp.export_to(target, path=pyspec)
                x_map = [ret[j.path] for j in jobs]
            except Exception as e:  # noqa: BLE001
                x_exn = exn_name(e)
            after = snap(d)
            src_same = all(before.get(k) == v for k, v in after.items() if k.startswith("src/") or k == "src") and \
                all(k in after for k in before if k.startswith("src/") or k == "src")
            tgt_rel = os.path.relpath(abs_target, d)
            outside = sorted(k for k, v in after.items()
                             if not (k == "src" or k.startswith("src/"))
                             and (k not in before or before[k] != v)
                             and not (k == tgt_rel or k.startswith(tgt_rel + "/")))
            outside += sorted(k for k in before if k not in after)
            if mk == "dir":
                if tloc:
                    # present the tree below the sibling target as the model's t/e/exp
                    art = {"t": None, "t/e": None}
                    for k, v in after.items():
                        if k == tgt_rel or k.startswith(tgt_rel + "/"):
                            art["t/e/exp" + k[len(tgt_rel):]] = v
                elif tname != "exp":
                    art = {}
                    for k, v in after.items():
                        if k == tgt_rel or k.startswith(tgt_rel + "/"):
                            art["t/e/exp" + k[len(tgt_rel):]] = v
                        elif k == "t" or k.startswith("t/"):
                            art[k] = v
                else:
                    art = {k: v for k, v in after.items() if k == "t" or k.startswith("t/")}
                cart = "(ADir %s)" % coq_fs(art)
                art_obs = {k: (None if v is None else v.hex()) for k, v in art.items()}
            elif mk == "zip":
                ms = []
                if os.path.exists(target) and zipfile.is_zipfile(target):
                    with zipfile.ZipFile(target) as zf:
                        for zi in zf.infolist():
                            with zf.open(zi) as fh:
                                ms.append((zi.filename, fh.read()))
                cart = "(AZip %s)" % coq_list(["(%s, %s)" % (coq_str(n), coq_str(c)) for n, c in ms], "(str * str)")
                art_obs = [[n, c.hex()] for n, c in ms]
            else:
                ms = []
                if os.path.exists(target) and os.path.getsize(target) > 0 and tarfile.is_tarfile(target):
                    with tarfile.open(target) as tf:
                        for m in tf.getmembers():
                            c = b""
                            if m.isfile():
                                c = tf.extractfile(m).read()
                            ms.append((m.name, m.isdir(), c))
                cart = "(ATar %s)" % coq_list(["(%s, %s, %s)" % (coq_str(n), coq_bool(dd), coq_str(c)) for n, dd, c in ms],
                                              "(str * bool * str)")
                art_obs = [[n, dd, c.hex()] for n, dd, c in ms]

            for dst in x_map:
                for ch in dst:
                    # validated hypothesis of Export.is_word: non-ASCII characters in paths are alphanumeric
                    assert ord(ch) < 128 or ch.isalnum(), dst
            # ---- import
            i_run = x_exn is None
            if not i_run:
                os.chdir(scratch_root())
            i_exn, i_outside = None, []
            s = desc["schema"]
            cschema, schema_txt = "SchNone", None
            calls = {}
            if i_run:
                if desc["strip"] and mk == "zip":
                    # an empty-directory member outside every job path (cf. CorrC16.EXTRA)
                    with zipfile.ZipFile(target, mode="a") as zf:
                        zf.writestr(zipfile.ZipInfo("zz_outside/empty/"), b"")
                if desc["strip"] and mk == "dir":
                    for dst in x_map:
                        f = os.path.join(abs_target, os.path.normpath(dst), FN_SP)
                        if os.path.isfile(f):
                            os.remove(f)
                pyschema = None
                if s["t"] == "auto_str":
                    if jobs:
                        schema_txt = derive_schema(x_map[0], sps[ids[0]], s["wrong"], s.get("force"))
                    else:
                        schema_txt = "a/{a:int}"
                    pyschema = schema_txt
                    cschema = "(SchStr %s)" % coq_str(schema_txt)
                elif s["t"] == "str":
                    schema_txt = s["text"]
                    pyschema = schema_txt
                    cschema = "(SchStr %s)" % coq_str(schema_txt)
                elif s["t"] == "call":
                    intended = {}
                    for k, j in enumerate(jobs):
                        intended[os.path.normpath(x_map[k])] = sps[j.id]
                    keys = sorted(intended)
                    if s["mode"] == "drop_one" and keys:
                        intended[keys[0]] = None
                    elif s["mode"] == "wrong_one" and keys:
                        intended[keys[-1]] = {"wrong": 1}
                    elif s["mode"] == "dup_empty" and keys:
                        # the directory of the job with the EMPTY state point is claimed for another job's state
                        # point: its own file is falsy, so only the uniqueness test can notice
                        other = [sp for sp in intended.values() if sp]
                        for kk in keys:
                            if intended[kk] == {} and other:
                                intended[kk] = other[0]
                    elif s["mode"] == "wrong_at" and keys:
                        # wrong in VALUE for one exported directory (the consistency check can see it)
                        intended[keys[s["at"] % len(keys)]] = {"a": -1}
                    elif s["mode"] == "subset":
                        # the callable only knows the first key of each state point
                        for kk in keys:
                            if intended[kk]:
                                k0 = sorted(intended[kk])[0]
                                intended[kk] = {k0: intended[kk][k0]}

                    def pyschema(path, intended=intended):
                        rel = os.path.normpath(os.path.relpath(path, origin) if mk == "dir" else path)   # cwd-relative for both
                        r = intended.get(rel)
                        calls[rel] = r
                        return r
                before_i = snap(d)
                origin = abs_target if ospell == "abs" else ospell
                os.chdir(home_cwd if ospell != "abs" else cwd_deep)
                try:
                    dstp2 = signac.get_project(os.path.join(d, "dst"))
                    dstp2.import_from(origin=origin, schema=pyschema)
                except Exception as e:  # noqa: BLE001
                    i_exn = exn_name(e)
                finally:
                    os.chdir(scratch_root())
                after_i = snap(d)
                i_outside = sorted(k for k in set(before_i) | set(after_i)
                                   if not (k == "dst/workspace" or k.startswith("dst/workspace/"))
                                   and before_i.get(k, 0) != after_i.get(k, 0))
                if s["t"] == "call":
                    tab = dict(intended)
                    tab.update(calls)
                    cschema = "(SchCall %s)" % coq_list(
                        ["(%s, %s)" % (coq_str(k), "None" if v is None else "(Some %s)" % coq_json(v))
                         for k, v in sorted(tab.items())], "(str * option json)")
            dst_tree = {k[len("dst/"):]: v for k, v in snap(d).items() if k == "dst/workspace" or k.startswith("dst/workspace/")}
            for rel, c in dst_tree.items():
                # state point files written by job.init() during the import (json.loads oracle)
                if c is not None and rel.split("/")[-1] == FN_SP and c not in parse_tab:
                    try:
                        parse_tab[c] = json.loads(c.decode())
                    except ValueError:
                        pass

        # ---- oracle tables: floats
        fvals = []
        for sp in list(sps.values()) + list(pre_sps.values()) + list(parse_tab.values()):
            all_values(sp, fvals)
        if s["t"] == "call" and i_run:
            for v in tab.values():
                if v is not None:
                    all_values(v, fvals)
        ftab = {}
        for v in fvals:
            if isinstance(v, float):
                ftab[float_me(v)] = repr(v)
        # floats a schema string can produce: every '/'-separated token that float() accepts
        if schema_txt is not None:
            for dst in x_map:
                for tok in dst.split("/"):
                    try:
                        f = float(tok)
                        if f == f and abs(f) != float("inf"):
                            ftab[float_me(f)] = repr(f)
                    except ValueError:
                        pass
        coq_ftab = coq_list(["((%d)%%Z, (%d)%%Z, %s)" % (m, e, coq_str(r)) for (m, e), r in sorted(ftab.items())],
                            "(fl * str)")
        coq_text = coq_list(["(%s, %s, %s)" % (coq_bool(k), coq_json(v), coq_str(t)) for k, v, t in text_tab],
                            "(bool * json * str)")
        coq_parse = coq_list(["(%s, %s)" % (coq_str(c), coq_json(v)) for c, v in sorted(parse_tab.items())],
                             "(str * json)")
        oracle = "{| o_asc := %s; o_frepr := %s; o_text := %s; o_parse := %s; o_rel := %s; o_origin := %s |}" % (
            coq_bool(asc), coq_ftab, coq_text, coq_parse, coq_bool(rel_target),
            coq_str("" if ospell == "abs" else ospell))
        coq = ("{| c_jobs := %s; c_oracle := %s; c_kind := %s; c_path := %s; c_schema := %s; c_pre := %s; "
               "c_strip := %s; x_exn := %s; x_map := %s; x_art := %s; x_src_same := %s; x_outside := %s; "
               "i_run := %s; i_exn := %s; i_dst := %s; i_outside := %s |}") % (
            coq_list([coq_job(i, sps[i], job_files[i]) for i in ids], "job"), oracle,
            {"dir": "KDir", "zip": "KZip", "tar": "KTar"}[mk], cspec, cschema,
            coq_list([coq_job(j.id, pre_sps[j.id], pre_files[j.id]) for j in pre_jobs], "job"),
            coq_bool(desc["strip"] and mk in ("dir", "zip")),
            coq_exn(x_exn), coq_list([coq_str(x) for x in x_map], "str"), cart, coq_bool(src_same),
            coq_list([coq_str(x) for x in outside], "str"),
            coq_bool(i_run), coq_exn(i_exn), coq_fs(dst_tree), coq_list([coq_str(x) for x in i_outside], "str"))
        obs = {"ids": ids, "export_exn": x_exn, "export_map": x_map, "export_artifact": art_obs,
               "src_unchanged": src_same, "export_outside": outside, "import_run": i_run, "import_exn": i_exn,
               "import_outside": i_outside, "schema_text": schema_txt,
               "dst_workspace": {k: (None if v is None else v.hex()) for k, v in sorted(dst_tree.items())}}
        kinds = ["kind=" + kind, "path=" + desc["path"]["t"], "schema=" + s["t"], "universe=" + desc.get("universe", "?"),
                 "njobs=%d" % len(ids), "export=" + (x_exn or "ok"), "import=" + ((i_exn or "ok") if i_run else "not-run")]
        if desc["pre"]:
            kinds.append("pre-existing")
        if desc["strip"]:
            kinds.append("stripped")
        if kind == "dir":
            kinds.append("target-spelling=" + tspell)
            kinds.append("origin-spelling=" + ospell)
            if tloc:
                kinds.append("target-next-to-workspace")
            if tname != "exp":
                kinds.append("target-name-with-regex-metacharacter" if set(tname) & set("+?()[]") else "target-name-other")
        key = json.dumps({k: desc.get(k) for k in ("jobs", "asc", "kind", "path", "schema", "pre", "strip", "rel", "tspell", "ospell", "tloc", "tname")}, sort_keys=True)
        return Case(coq, desc, obs=obs, nontrivial=len(ids) >= 2, key=key, kinds=kinds)


def search(desc):
    """neighbours of a mismatching input: every pair of its jobs, schema None, and the three plain kinds"""
    out = []
    jobs = desc["jobs"]
    for i in range(len(jobs)):
        for k in range(i + 1, len(jobs)):
            dd = dict(desc)
            dd["jobs"] = [jobs[i], jobs[k]]
            if dd["path"]["t"] == "call":
                dd["path"] = dict(dd["path"], names=[dd["path"]["names"][i], dd["path"]["names"][k]])
            out.append(dd)
    for kind in ("dir", "zip", "tar"):
        if kind != desc["kind"]:
            dd = dict(desc)
            dd["kind"] = kind
            dd["strip"] = False
            out.append(dd)
    return out[:40]
