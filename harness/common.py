"""Shared helpers: Gallina literal emission, scratch directories, canonicalisation."""
import contextlib
import json
import math
import os
import shutil
import tempfile

VERIF = os.path.dirname(os.path.dirname(os.path.abspath(__file__)))
COQ = os.path.join(VERIF, "coq")


class Case:
    """One correspondence case: Coq literal + JSON-able description."""

    __slots__ = ("coq", "desc", "obs", "nontrivial", "key", "kinds", "prelude")

    def __init__(self, coq, desc, obs=None, nontrivial=True, key=None, kinds=(), prelude=()):
        self.coq = coq            # Gallina term of the property's case type
        self.desc = desc          # JSON-able input (enough to re-run: replay)
        self.obs = obs            # JSON-able implementation observation
        self.nontrivial = nontrivial
        self.key = key if key is not None else json.dumps(desc, sort_keys=True, default=str)
        self.kinds = tuple(kinds)  # labels for the input-distribution histogram
        # shared Gallina definitions [(name, "Definition name : T := term.")], emitted once per shard
        self.prelude = tuple(prelude)


# ---------------------------------------------------------------- Gallina literals
def coq_N(n):
    assert n >= 0
    return f"{n}%N"


def coq_Z(z):
    return f"({z})%Z"


def coq_nat(n):
    assert 0 <= n < 5000
    return f"{n}%nat"


def coq_bool(b):
    return "true" if b else "false"


def coq_list(items, ty=None):
    items = list(items)
    if not items:
        return "[]" if ty is None else f"(@nil {ty})"
    return "[" + "; ".join(items) + "]"


def coq_str(s):
    """Python str -> list N of code points."""
    if isinstance(s, bytes):
        cps = list(s)
    else:
        cps = [ord(c) for c in s]
    if not cps:
        return "(@nil N)"
    return "[" + ";".join(str(c) for c in cps) + "]%N"


def coq_opt(x):
    return "None" if x is None else f"(Some {x})"


def coq_pair(a, b):
    return f"({a}, {b})"


def float_me(f):
    """Exact dyadic (mant, exp) of a finite float, mant odd; 0.0 -> (0,0); -0.0 -> (0,1)."""
    if f != f or f in (math.inf, -math.inf):
        raise ValueError("non-finite float")
    if f == 0:
        return (0, 1) if math.copysign(1.0, f) < 0 else (0, 0)
    num, den = f.as_integer_ratio()
    e = -(den.bit_length() - 1)
    while num % 2 == 0:
        num //= 2
        e += 1
    return (num, e)


def coq_fl(f):
    m, e = float_me(f)
    return f"(({m})%Z, ({e})%Z)"


def coq_json(v):
    """Python JSON-like value -> Gallina json term.  bool before int!"""
    if v is None:
        return "JNull"
    if v is True:
        return "(JBool true)"
    if v is False:
        return "(JBool false)"
    if isinstance(v, int):
        return f"(JInt {coq_Z(v)})"
    if isinstance(v, float):
        return f"(JFloat {coq_fl(v)})"
    if isinstance(v, str):
        return f"(JStr {coq_str(v)})"
    if isinstance(v, (list, tuple)):
        return "(JArr " + coq_list([coq_json(x) for x in v], "json") + ")"
    if isinstance(v, dict) or hasattr(v, "items"):
        items = []
        for k, x in v.items():
            assert isinstance(k, str), k
            items.append(f"({coq_str(k)}, {coq_json(x)})")
        return "(JObj " + coq_list(items, "(str * json)") + ")"
    raise TypeError(f"not JSON-like: {type(v)}")


def floats_in(v, acc=None):
    acc = set() if acc is None else acc
    if isinstance(v, float):
        acc.add((float_me(v), repr(v)))
    elif isinstance(v, (list, tuple)):
        for x in v:
            floats_in(x, acc)
    elif isinstance(v, dict) or hasattr(v, "items"):
        for x in v.values():
            floats_in(x, acc)
    return acc


def coq_ftab(values):
    """repr() oracle table for all floats in the given values."""
    acc = set()
    for v in values:
        floats_in(v, acc)
    for (_, lex) in acc:
        # validated hypotheses of CanonChars.canon_injective about float.__repr__ on finite floats:
        # number characters only, starts with a digit or '-', never an integer lexeme
        assert set(lex) <= set("0123456789.e+-") and (lex[0] == "-" or lex[0].isdigit()), lex
        assert "." in lex or "e" in lex, lex
    # injectivity on this table
    assert len({me for me, _ in acc}) == len({lex for _, lex in acc}) == len(acc)
    items = [f"((({m})%Z, ({e})%Z), {coq_str(lex)})" for ((m, e), lex) in sorted(acc)]
    return coq_list(items, "(fl * str)")


def to_plain(v):
    """Convert synced collections / mappingproxy / tuples into plain JSON-able python."""
    if v is None or isinstance(v, (bool, int, float, str)):
        return v
    if isinstance(v, (list, tuple)):
        return [to_plain(x) for x in v]
    if hasattr(v, "items"):
        return {k: to_plain(x) for k, x in v.items()}
    if hasattr(v, "__iter__"):
        return [to_plain(x) for x in v]
    raise TypeError(type(v))


def typed(v):
    """Type-exact JSON-able rendering (distinguishes 1, 1.0, True)."""
    if isinstance(v, bool) or v is None or isinstance(v, str):
        return v
    if isinstance(v, int):
        return {"$int": str(v)}
    if isinstance(v, float):
        return {"$float": v.hex()}
    if isinstance(v, (list, tuple)):
        return [typed(x) for x in v]
    if hasattr(v, "items"):
        return {k: typed(x) for k, x in v.items()}
    raise TypeError(type(v))


def untyped(v):
    if isinstance(v, dict):
        if set(v) == {"$int"}:
            return int(v["$int"])
        if set(v) == {"$float"}:
            return float.fromhex(v["$float"])
        return {k: untyped(x) for k, x in v.items()}
    if isinstance(v, list):
        return [untyped(x) for x in v]
    return v


# ---------------------------------------------------------------- exceptions -> enum of Base.v
def exn_name(e):
    import signac.errors as se

    table = [
        (se.DestinationExistsError, "EDestinationExists"),
        (se.JobsCorruptedError, "EJobsCorrupted"),
        (se.FileSyncConflict, "EFileSyncConflict"),
        (se.DocumentSyncConflict, "EDocumentSyncConflict"),
        (se.SchemaSyncConflict, "ESchemaSyncConflict"),
        (se.IncompatibleSchemaVersion, "EIncompatibleSchemaVersion"),
        (KeyError, "EKeyError"),
        (LookupError, "ELookupError"),
        (TypeError, "ETypeError"),
        (ValueError, "EValueError"),
        (RuntimeError, "ERuntimeError"),
        (OSError, "EOSError"),
    ]
    for cls, name in table:
        if isinstance(e, cls):
            return name
    return "EOther"


# ---------------------------------------------------------------- scratch
_SCRATCH_ROOT = None


def scratch_root():
    global _SCRATCH_ROOT
    if _SCRATCH_ROOT is None:
        base = os.environ.get("VERIF_SCRATCH")
        if base:
            os.makedirs(base, exist_ok=True)
            _SCRATCH_ROOT = base
        else:
            _SCRATCH_ROOT = tempfile.mkdtemp(prefix="signac-verif.")
    return _SCRATCH_ROOT


@contextlib.contextmanager
def scratch_dir(prefix="case"):
    d = tempfile.mkdtemp(prefix=prefix + ".", dir=scratch_root())
    try:
        yield d
    finally:
        shutil.rmtree(d, ignore_errors=True)


def snapshot_tree(root):
    """Sorted list of (relpath, kind, bytes-hex or link target)."""
    out = []
    for dirpath, dirnames, filenames in os.walk(root):
        dirnames.sort()
        rel = os.path.relpath(dirpath, root)
        for d in list(dirnames):
            p = os.path.join(dirpath, d)
            r = os.path.normpath(os.path.join(rel, d))
            if os.path.islink(p):
                out.append((r, "link", os.readlink(p)))
                dirnames.remove(d)
            else:
                out.append((r, "dir", ""))
        for f in sorted(filenames):
            p = os.path.join(dirpath, f)
            r = os.path.normpath(os.path.join(rel, f))
            if os.path.islink(p):
                out.append((r, "link", os.readlink(p)))
            else:
                with open(p, "rb") as fh:
                    out.append((r, "file", fh.read().hex()))
    out.sort()
    return out
