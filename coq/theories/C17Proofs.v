(* C17Proofs.v — lemmas about the linked view model. *)
From SV Require Import Base View CorrC17.

Lemma split_join_demo : split_sep (join_sep [s_dot; s_job]) = [s_dot; s_job].
Proof. reflexivity. Qed.
