(* C17Proofs.v — lemmas about the linked view model: strings, guards, tree algebra. *)
From SV Require Import Base View CorrC17.
From Coq Require Import Lia.

(* ------------------------------------------------------------------ strings *)
Definition nosep (c : str) : Prop := ~ In SEP c.

Lemma split_on_app_nosep : forall c s acc rest,
  ~ In c s -> split_on c (s ++ c :: rest) acc = (rev acc ++ s) :: split_on c rest [].
Proof.
  induction s as [|x s IH]; intros acc rest Hn; simpl.
  - rewrite N.eqb_refl. rewrite app_nil_r. reflexivity.
  - destruct (N.eqb x c) eqn:E.
    + apply N.eqb_eq in E. exfalso. apply Hn. left. auto.
    + rewrite IH by (intro H; apply Hn; right; auto). simpl. rewrite <- app_assoc. reflexivity.
Qed.

Lemma split_on_nosep : forall c s acc, ~ In c s -> split_on c s acc = [rev acc ++ s].
Proof.
  induction s as [|x s IH]; intros acc Hn; simpl.
  - rewrite app_nil_r. reflexivity.
  - destruct (N.eqb x c) eqn:E.
    + apply N.eqb_eq in E. exfalso. apply Hn. left. auto.
    + rewrite IH by (intro H; apply Hn; right; auto). simpl. rewrite <- app_assoc. reflexivity.
Qed.

Lemma split_join : forall cs, cs <> [] -> Forall nosep cs -> split_sep (join_sep cs) = cs.
Proof.
  induction cs as [|c cs IH]; intros Hne Hf; [congruence|].
  inversion Hf as [|? ? Hc Hcs]; subst.
  destruct cs as [|c' cs'].
  - simpl. unfold split_sep. rewrite split_on_nosep by exact Hc. reflexivity.
  - change (join_sep (c :: c' :: cs')) with (c ++ SEP :: join_sep (c' :: cs')).
    unfold split_sep. rewrite split_on_app_nosep by exact Hc. simpl rev. simpl app.
    f_equal. apply IH; [discriminate|exact Hcs].
Qed.

Lemma path_eqb_eq : forall a b, path_eqb a b = true <-> a = b.
Proof. apply list_eqb_eq. apply str_eqb_eq. Qed.

Lemma path_eqb_refl : forall a, path_eqb a a = true.
Proof. intro a. apply path_eqb_eq. reflexivity. Qed.

Lemma path_mem_In : forall p l, path_mem p l = true <-> In p l.
Proof.
  induction l as [|q l IH]; simpl; [split; [discriminate|tauto]|].
  rewrite orb_true_iff, IH, path_eqb_eq. split; intros [H|H]; auto.
Qed.

Lemma path_mem_false : forall p l, path_mem p l = false <-> ~ In p l.
Proof.
  intros. rewrite <- path_mem_In. destruct (path_mem p l); split; congruence.
Qed.

(* ------------------------------------------------------------------ guards: rejected inputs leave the state untouched *)
Definition guard_rejects (c : call) : Prop :=
  (exists e, make_links c = Err e) \/
  (exists lk, make_links c = Ok lk /\ check_structure [] (keys_of lk) = false).

Lemma reject_unchanged : forall hint s c,
  guard_rejects c ->
  snd (create_linked_view hint s c) = s /\ exists e, fst (create_linked_view hint s c) = Err e.
Proof.
  intros hint s c [[e H]|[lk [H1 H2]]]; unfold create_linked_view.
  - rewrite H. simpl. eauto.
  - rewrite H1, H2. simpl. eauto.
Qed.

(* a state change together with an error can only come out of _update_view (an OSError) *)
Lemma error_changed_is_oserror : forall hint s c e,
  fst (create_linked_view hint s c) = Err e -> snd (create_linked_view hint s c) <> s -> e = EOSError.
Proof.
  intros hint s c e. unfold create_linked_view.
  destruct (make_links c) as [lk|e0]; simpl; [|congruence].
  destruct (check_structure [] (keys_of lk)); simpl; [|congruence].
  destruct (update_view hint s (c_cwd c) (c_prefix c) lk) as [s' [e1|]]; simpl; congruence.
Qed.

(* the separator guard *)
Lemma sep_rejected : forall c,
  existsb (fun j => existsb has_sep (j_items j)) (c_jobs c) = true -> make_links c = Err ERuntimeError.
Proof. intros c H. unfold make_links. rewrite H. reflexivity. Qed.

(* ------------------------------------------------------------------ the leaf/node check as written *)
Lemma is_prefix_spec : forall a b, is_prefix a b = true <-> exists r, b = a ++ r.
Proof.
  induction a as [|x a IH]; intros b; simpl.
  - split; eauto.
  - destruct b as [|y b]; [split; [discriminate|intros [r H]; discriminate]|].
    rewrite andb_true_iff, str_eqb_eq, IH. split.
    + intros [-> [r ->]]. eauto.
    + intros [r H]. inversion H; subst. eauto.
Qed.

Lemma proper_prefixes_spec : forall tokens acc p,
  In p (proper_prefixes tokens acc) <->
  exists a b, a <> [] /\ b <> [] /\ tokens = a ++ b /\ p = acc ++ a.
Proof.
  induction tokens as [|c ts IH]; intros acc p.
  - simpl. split; [tauto|]. intros [a [b [Ha [Hb [H _]]]]]. destruct a; [congruence|discriminate].
  - destruct ts as [|c' ts'].
    + simpl. split; [tauto|]. intros [a [b [Ha [Hb [H _]]]]].
      destruct a as [|x a]; [congruence|]. destruct a; destruct b; try congruence; discriminate.
    + change (proper_prefixes (c :: c' :: ts') acc)
        with ((acc ++ [c]) :: proper_prefixes (c' :: ts') (acc ++ [c])).
      cbn [In]. rewrite IH. split.
      * intros [H|[a [b [Ha [Hb [H1 H2]]]]]].
        -- exists [c], (c' :: ts'). repeat split; try discriminate; auto.
        -- exists (c :: a), b. repeat split; try discriminate; auto.
           ++ simpl. rewrite H1. reflexivity.
           ++ rewrite H2, <- app_assoc. reflexivity.
      * intros [a [b [Ha [Hb [H1 H2]]]]]. destruct a as [|x a]; [congruence|].
        simpl in H1. inversion H1; subst x.
        destruct a as [|y a].
        -- left. subst p. reflexivity.
        -- right. exists (y :: a), b. repeat split; try discriminate; auto.
           rewrite H2, <- app_assoc. reflexivity.
Qed.

(* what the check does guarantee: no key is a (non-empty) proper prefix of an EARLIER key *)
Lemma check_structure_sound_aux : forall ks chk,
  check_structure chk ks = true ->
  forall l1 k l2, ks = l1 ++ k :: l2 ->
    ~ In k chk /\ forall k', In k' l1 -> ~ In k (proper_prefixes k' []).
Proof.
  induction ks as [|k0 ks IH]; intros chk H l1 k l2 E.
  - destruct l1; discriminate.
  - simpl in H. destruct (path_mem k0 chk) eqn:M; [discriminate|].
    destruct l1 as [|x l1]; simpl in E; inversion E; subst.
    + split; [apply path_mem_false; exact M|]. intros k' [].
    + specialize (IH _ H l1 k l2 eq_refl). destruct IH as [Hn Hl].
      split.
      * intro Hin. apply Hn. apply in_or_app. right. exact Hin.
      * intros k' [->|Hk']; [|auto]. intro Hin. apply Hn. apply in_or_app. left. exact Hin.
Qed.

Lemma check_structure_sound : forall ks,
  check_structure [] ks = true ->
  forall l1 k l2 k', ks = l1 ++ k :: l2 -> In k' l1 -> k <> [] -> proper_prefix k k' = false.
Proof.
  intros ks H l1 k l2 k' E Hin Hne.
  destruct (check_structure_sound_aux ks [] H l1 k l2 E) as [_ Hl].
  specialize (Hl k' Hin).
  destruct (proper_prefix k k') eqn:P; auto. exfalso. apply Hl.
  unfold proper_prefix in P. apply andb_true_iff in P. destruct P as [P1 P2].
  apply is_prefix_spec in P1. destruct P1 as [r ->].
  apply proper_prefixes_spec. exists k, r. repeat split; auto.
  intro; subst r. rewrite app_nil_r, path_eqb_refl in P2. discriminate.
Qed.

(* ... and what it does not: the converse order is accepted (DESIGN F15) *)
Definition s_a : str := [97%N].
Definition s_b : str := [98%N].
Lemma leafnode_order_dependent :
  let k1 := [s_a; s_job] in let k2 := [s_a; s_job; s_b; s_job] in
  check_structure [] [k1; k2] = true /\ check_structure [] [k2; k1] = false /\ proper_prefix k1 k2 = true.
Proof. vm_compute. auto. Qed.
