(* C17Proofs.v — lemmas about the linked view model: strings, guards, tree algebra. *)
From SV Require Import Base View CorrC17.
From Coq Require Import Lia.

(* ------------------------------------------------------------------ strings *)
Definition nosep (c : str) : Prop := ~ In SEP c.

Lemma split_on_app_nosep : forall c s acc rest,
  ~ In c s -> split_on c (s ++ c :: rest) acc = (rev acc ++ s) :: split_on c rest [].
Proof.
  induction s as [|x s IH]; intros acc rest Hn; simpl.
  - rewrite N.eqb_refl. rewrite app_nil_r. reflexivity.
  - destruct (N.eqb x c) eqn:E.
    + apply N.eqb_eq in E. exfalso. apply Hn. left. auto.
    + rewrite IH by (intro H; apply Hn; right; auto). simpl. rewrite <- app_assoc. reflexivity.
Qed.

Lemma split_on_nosep : forall c s acc, ~ In c s -> split_on c s acc = [rev acc ++ s].
Proof.
  induction s as [|x s IH]; intros acc Hn; simpl.
  - rewrite app_nil_r. reflexivity.
  - destruct (N.eqb x c) eqn:E.
    + apply N.eqb_eq in E. exfalso. apply Hn. left. auto.
    + rewrite IH by (intro H; apply Hn; right; auto). simpl. rewrite <- app_assoc. reflexivity.
Qed.

Lemma split_join : forall cs, cs <> [] -> Forall nosep cs -> split_sep (join_sep cs) = cs.
Proof.
  induction cs as [|c cs IH]; intros Hne Hf; [congruence|].
  inversion Hf as [|? ? Hc Hcs]; subst.
  destruct cs as [|c' cs'].
  - simpl. unfold split_sep. rewrite split_on_nosep by exact Hc. reflexivity.
  - change (join_sep (c :: c' :: cs')) with (c ++ SEP :: join_sep (c' :: cs')).
    unfold split_sep. rewrite split_on_app_nosep by exact Hc. simpl rev. simpl app.
    f_equal. apply IH; [discriminate|exact Hcs].
Qed.

Lemma path_eqb_eq : forall a b, path_eqb a b = true <-> a = b.
Proof. apply list_eqb_eq. apply str_eqb_eq. Qed.

Lemma path_eqb_refl : forall a, path_eqb a a = true.
Proof. intro a. apply path_eqb_eq. reflexivity. Qed.

Lemma path_mem_In : forall p l, path_mem p l = true <-> In p l.
Proof.
  induction l as [|q l IH]; simpl; [split; [discriminate|tauto]|].
  rewrite orb_true_iff, IH, path_eqb_eq. split; intros [H|H]; auto.
Qed.

Lemma path_mem_false : forall p l, path_mem p l = false <-> ~ In p l.
Proof.
  intros. rewrite <- path_mem_In. destruct (path_mem p l); split; congruence.
Qed.

(* ------------------------------------------------------------------ guards: rejected inputs leave the state untouched *)
Definition guard_rejects (c : call) : Prop :=
  (exists e, make_links c = Err e) \/
  (exists lk, make_links c = Ok lk /\ check_structure (keys_of lk) = false).

Lemma reject_unchanged : forall hint s c,
  guard_rejects c ->
  snd (create_linked_view hint s c) = s /\ exists e, fst (create_linked_view hint s c) = Err e.
Proof.
  intros hint s c [[e H]|[lk [H1 H2]]]; unfold create_linked_view.
  - rewrite H. simpl. eauto.
  - rewrite H1, H2. simpl. eauto.
Qed.

(* a state change together with an error can only come out of _update_view (an OSError) *)
Lemma error_changed_is_oserror : forall hint s c e,
  fst (create_linked_view hint s c) = Err e -> snd (create_linked_view hint s c) <> s -> e = EOSError.
Proof.
  intros hint s c e. unfold create_linked_view.
  destruct (make_links c) as [lk|e0]; simpl; [|congruence].
  destruct (check_structure (keys_of lk)); simpl; [|congruence].
  destruct (update_view hint s (c_cwd c) (physical (fst s) (c_cwd c) (c_prefix c)) (physical_links (fst s) lk))
    as [s' [e1|]]; simpl; congruence.
Qed.

(* the separator guard *)
Lemma sep_rejected : forall c,
  existsb (fun j => existsb has_sep (j_items j)) (c_jobs c) = true -> make_links c = Err ERuntimeError.
Proof. intros c H. unfold make_links. rewrite H. reflexivity. Qed.

(* ------------------------------------------------------------------ the leaf/node check as written *)
Lemma is_prefix_spec : forall a b, is_prefix a b = true <-> exists r, b = a ++ r.
Proof.
  induction a as [|x a IH]; intros b; simpl.
  - split; eauto.
  - destruct b as [|y b]; [split; [discriminate|intros [r H]; discriminate]|].
    rewrite andb_true_iff, str_eqb_eq, IH. split.
    + intros [-> [r ->]]. eauto.
    + intros [r H]. inversion H; subst. eauto.
Qed.

Lemma proper_prefixes_spec : forall tokens acc p,
  In p (proper_prefixes tokens acc) <->
  exists a b, a <> [] /\ b <> [] /\ tokens = a ++ b /\ p = acc ++ a.
Proof.
  induction tokens as [|c ts IH]; intros acc p.
  - simpl. split; [tauto|]. intros [a [b [Ha [Hb [H _]]]]]. destruct a; [congruence|discriminate].
  - destruct ts as [|c' ts'].
    + simpl. split; [tauto|]. intros [a [b [Ha [Hb [H _]]]]].
      destruct a as [|x a]; [congruence|]. destruct a; destruct b; try congruence; discriminate.
    + change (proper_prefixes (c :: c' :: ts') acc)
        with ((acc ++ [c]) :: proper_prefixes (c' :: ts') (acc ++ [c])).
      cbn [In]. rewrite IH. split.
      * intros [H|[a [b [Ha [Hb [H1 H2]]]]]].
        -- exists [c], (c' :: ts'). repeat split; try discriminate; auto.
        -- exists (c :: a), b. repeat split; try discriminate; auto.
           ++ simpl. rewrite H1. reflexivity.
           ++ rewrite H2, <- app_assoc. reflexivity.
      * intros [a [b [Ha [Hb [H1 H2]]]]]. destruct a as [|x a]; [congruence|].
        simpl in H1. inversion H1; subst x.
        destruct a as [|y a].
        -- left. subst p. reflexivity.
        -- right. exists (y :: a), b. repeat split; try discriminate; auto.
           rewrite H2, <- app_assoc. reflexivity.
Qed.

(* the repaired check (fc0e7cc) is exact and does not depend on the order of the keys *)
Lemma all_nodes_In : forall ks p,
  In p (all_nodes ks) <-> exists k, In k ks /\ In p (proper_prefixes k []).
Proof. intros ks p. unfold all_nodes. rewrite in_flat_map. reflexivity. Qed.

Lemma proper_prefix_nodes : forall k k', k <> [] ->
  (proper_prefix k k' = true <-> In k (proper_prefixes k' [])).
Proof.
  intros k k' Hne. rewrite proper_prefixes_spec. unfold proper_prefix. rewrite andb_true_iff, is_prefix_spec. split.
  - intros [[r ->] H2]. exists k, r. repeat split; auto.
    intro; subst r. rewrite app_nil_r, path_eqb_refl in H2. discriminate.
  - intros [a [b [Ha [Hb [-> E]]]]]. simpl in E. subst a. split; [eauto|].
    apply negb_true_iff. apply not_true_is_false. intro H. apply path_eqb_eq in H.
    assert (length k = length (k ++ b)) by (rewrite <- H; reflexivity).
    rewrite app_length in H0. destruct b; [congruence|simpl in H0; lia].
Qed.

Lemma check_structure_iff : forall ks,
  (forall k, In k ks -> k <> []) ->
  (check_structure ks = true <-> forall k k', In k ks -> In k' ks -> proper_prefix k k' = false).
Proof.
  intros ks Hne. unfold check_structure. rewrite forallb_forall. split.
  - intros H k k' Hk Hk'. specialize (H k Hk). apply negb_true_iff, path_mem_false in H.
    destruct (proper_prefix k k') eqn:Pr; [|reflexivity]. exfalso. apply H.
    apply all_nodes_In. exists k'. split; [exact Hk'|]. apply proper_prefix_nodes; auto.
  - intros H k Hk. apply negb_true_iff, path_mem_false. intro Hin.
    apply all_nodes_In in Hin. destruct Hin as [k' [Hk' Hp]].
    apply proper_prefix_nodes in Hp; auto. rewrite (H k k' Hk Hk') in Hp. discriminate.
Qed.

Lemma check_structure_order_independent : forall ks ks',
  (forall k, In k ks -> k <> []) -> (forall k, In k ks <-> In k ks') ->
  check_structure ks = check_structure ks'.
Proof.
  intros ks ks' Hne Hs.
  assert (Hne' : forall k, In k ks' -> k <> []) by (intros k Hk; apply Hne, Hs, Hk).
  apply Bool.eq_true_iff_eq. rewrite (check_structure_iff ks Hne), (check_structure_iff ks' Hne').
  split; intros H k k' Hk Hk'; apply H; apply Hs; assumption.
Qed.

Definition s_a : str := [97%N].
Definition s_b : str := [98%N].
Lemma leafnode_both_orders_rejected :
  let k1 := [s_a; s_job] in let k2 := [s_a; s_job; s_b; s_job] in
  check_structure [k1; k2] = false /\ check_structure [k2; k1] = false.
Proof. vm_compute. auto. Qed.

(* ------------------------------------------------------------------ decidable equality of trees *)
Fixpoint node_ind' (Q : node -> Prop)
  (Hf : forall h, Q (File h)) (Hl : forall t, Q (Lnk t))
  (Hd : forall es, (forall c n, In (c, n) es -> Q n) -> Q (Dir es)) (n : node) {struct n} : Q n :=
  match n with
  | File h => Hf h
  | Lnk t => Hl t
  | Dir es =>
      Hd es
        ((fix go (es : list (str * node)) : forall c n, In (c, n) es -> Q n :=
            match es as es0 return forall c n, In (c, n) es0 -> Q n with
            | [] => fun c n F => False_ind (Q n) F
            | p :: es' =>
                fun c n Hin =>
                  match (Hin : p = (c, n) \/ In (c, n) es') return Q n with
                  | or_introl E => eq_ind (snd p) Q (node_ind' Q Hf Hl Hd (snd p)) n (f_equal snd E)
                  | or_intror Hi => go es' c n Hi
                  end
            end) es)
  end.

Definition entries_eqb (es fs : list (str * node)) : bool :=
  (fix go (es fs : list (str * node)) : bool :=
     match es, fs with
     | [], [] => true
     | (k, x) :: es', (l, y) :: fs' => str_eqb k l && node_eqb x y && go es' fs'
     | _, _ => false
     end) es fs.

Lemma node_eqb_dir : forall es fs, node_eqb (Dir es) (Dir fs) = entries_eqb es fs.
Proof. reflexivity. Qed.

Lemma node_eqb_eq : forall a b, node_eqb a b = true <-> a = b.
Proof.
  intro a. induction a as [h|t|es IH] using node_ind'; intros b; destruct b as [h'|t'|fs]; simpl;
    try (split; [discriminate|congruence]).
  - rewrite N.eqb_eq. split; congruence.
  - rewrite str_eqb_eq. split; congruence.
  - change (entries_eqb es fs = true <-> Dir es = Dir fs).
    assert (G : entries_eqb es fs = true <-> es = fs).
    { revert fs. induction es as [|[k x] es IHes]; intros fs; destruct fs as [|[l y] fs]; simpl;
        try (split; [discriminate|congruence]); [tauto|].
      change (str_eqb k l && node_eqb x y && entries_eqb es fs = true <-> (k, x) :: es = (l, y) :: fs).
      rewrite !andb_true_iff, str_eqb_eq. rewrite (IH k x) by (left; reflexivity).
      rewrite IHes by (intros c n Hin; apply (IH c n); right; exact Hin).
      split; [intros [[-> ->] ->]; reflexivity|intro E; inversion E; auto]. }
    rewrite G. split; congruence.
Qed.

(* ------------------------------------------------------------------ agreement with the model transfers the oracle *)
Lemma oexn_eqb_eq : forall a b, oexn_eqb a b = true <-> a = b.
Proof.
  destruct a as [x|], b as [y|]; simpl; try (split; [discriminate|congruence]); [|tauto].
  rewrite exn_eqb_eq. split; congruence.
Qed.

Lemma res_eqb_is_ok : forall a b, res_eqb a b = true -> is_ok a = is_ok b.
Proof. destruct a, b; simpl; congruence. Qed.

(* the observation the model itself produces for the input of a case *)
Definition model_case (k : case_C17) : case_C17 :=
  let '(r1, (w1, _)) := create_linked_view (k_hint k) (k_pre k, 0%N) (fill_call k) in
  let '(r2, (w2, n2)) := create_linked_view (k_hint2 k) (w1, 0%N) (fill_call k) in
  let '(r3, (w3, _)) := create_linked_view (k_hint3 k) (w2, 0%N) (with_prefix (fill_call k) (k_sprefix k)) in
  {| k_xjobs := k_xjobs k; k_xoracle := k_xoracle k; k_spec := k_spec k;
     k_pre := k_pre k; k_call := k_call k; k_hint := k_hint k; k_res := r1; k_post := w1;
     k_hint2 := k_hint2 k; k_res2 := res_exn r2; k_ops2 := n2; k_post2 := w2;
     k_sprefix := k_sprefix k; k_hint3 := k_hint3 k; k_res3 := res_exn r3; k_post3 := w3 |}.

Lemma fill_call_inputs : forall k k',
  k_xjobs k' = k_xjobs k -> k_xoracle k' = k_xoracle k -> k_spec k' = k_spec k -> k_call k' = k_call k ->
  fill_call k' = fill_call k.
Proof. intros k k' H1 H2 H3 H4. unfold fill_call, fill_raw, derive_pf, selected_set. simpl. rewrite H1, H2, H3, H4. reflexivity. Qed.

Lemma model_agreement_transfers : forall k,
  mismatch_C17 k = false -> holds_C17 k = holds_C17 (model_case k).
Proof.
  intros k H. unfold mismatch_C17 in H. unfold model_case.
  destruct (create_linked_view (k_hint k) (k_pre k, 0%N) (fill_call k)) as [r1 [w1 n1]] eqn:E1.
  destruct (create_linked_view (k_hint2 k) (k_post k, 0%N) (fill_call k)) as [r2 [w2 n2]] eqn:E2.
  destruct (create_linked_view (k_hint3 k) (k_post2 k, 0%N) (with_prefix (fill_call k) (k_sprefix k))) as [r3 [w3 n3]] eqn:E3.
  apply negb_false_iff in H. rewrite !andb_true_iff in H.
  destruct H as [[[[[[H1 H2] H3] H4] H5] H6] H7].
  apply node_eqb_eq in H2, H4, H7. apply oexn_eqb_eq in H3, H6. apply res_eqb_is_ok in H1.
  apply Bool.eqb_prop in H5.
  rewrite H2, E2. rewrite H4, E3. unfold holds_C17.
  match goal with |- _ = holds_core _ (fill_call ?k') _ _ _ _ _ _ _ _ =>
    rewrite (fill_call_inputs k k') by reflexivity end.
  simpl.
  rewrite <- H1, <- H3, <- H5, <- H6, <- H7, <- H4, <- H2. reflexivity.
Qed.

(* ------------------------------------------------------------------ the repaired link map (bfa6c64, 55c0c50) *)
Lemma aset_fresh : forall X k (v : X) l, alookup k l = None -> aset k v l = l ++ [(k, v)].
Proof.
  induction l as [|[k' v'] l IH]; simpl; intro H; [reflexivity|].
  destruct (str_eqb k k'); [discriminate|]. rewrite IH by exact H. reflexivity.
Qed.

(* accepted link maps: one distinct key per selected job, no key leaves the view *)
Lemma build_links_spec : forall js acc lk,
  build_links js acc = Ok lk ->
  NoDup (map fst acc) -> (forall k, In k (map fst acc) -> leaves_view k = false) ->
  NoDup (map fst lk) /\ (forall k, In k (map fst lk) -> leaves_view k = false) /\
  length lk = (length acc + length js)%nat.
Proof.
  induction js as [|j js IH]; intros acc lk H Hnd Hlv; simpl in H.
  - inversion H; subst. repeat split; auto.
  - destruct (j_pf j) as [p|e]; [|discriminate].
    destruct (alookup (normpath_str (join_leaf p)) acc) eqn:L; [discriminate|].
    destruct (leaves_view (normpath_str (join_leaf p))) eqn:Lv; [discriminate|]. simpl in H.
    rewrite aset_fresh in H by exact L.
    destruct (IH _ _ H) as [H1 [H2 H3]].
    + rewrite map_app. simpl. apply NoDup_rev in Hnd. rewrite <- (rev_involutive (map fst acc ++ _)). apply NoDup_rev.
      rewrite rev_app_distr. simpl. constructor; [|exact Hnd].
      intro Hin. apply in_rev in Hin. apply alookup_None_notin in L. contradiction.
    + intros k Hk. rewrite map_app in Hk. apply in_app_or in Hk. destruct Hk as [Hk|[<-|[]]]; auto.
    + split; [exact H1|]. split; [exact H2|]. rewrite H3, app_length. simpl. lia.
Qed.

Lemma make_links_spec : forall c lk,
  make_links c = Ok lk ->
  NoDup (map fst lk) /\ (forall k, In k (map fst lk) -> leaves_view k = false) /\
  length lk = length (c_jobs c).
Proof.
  intros c lk H. unfold make_links in H.
  destruct (existsb _ (c_jobs c)); [discriminate|]. destruct (c_pfmake c); [discriminate|].
  apply (build_links_spec _ _ _ H); [constructor|intros k []].
Qed.

(* two selected jobs with the same path are rejected *)
Lemma duplicate_paths_rejected : forall js1 j1 js2 j2 js3 acc p,
  j_pf j1 = Ok p -> j_pf j2 = Ok p ->
  exists e, build_links (js1 ++ j1 :: js2 ++ j2 :: js3) acc = Err e.
Proof.
  intros js1 j1 js2 j2 js3 acc p H1 H2.
  destruct (build_links (js1 ++ j1 :: js2 ++ j2 :: js3) acc) as [lk|e] eqn:B; [|eauto]. exfalso.
  revert acc B. induction js1 as [|j js1 IH]; intros acc B; simpl in B.
  - rewrite H1 in B.
    destruct (alookup (normpath_str (join_leaf p)) acc) eqn:L; [discriminate|].
    destruct (leaves_view (normpath_str (join_leaf p))); [discriminate|]. simpl in B.
    set (k := normpath_str (join_leaf p)) in *.
    assert (G : forall js acc', alookup k acc' <> None -> build_links (js ++ j2 :: js3) acc' = Ok lk -> False).
    { clear - H2. induction js as [|j js IHj]; intros acc' Hk B'; simpl in B'.
      - rewrite H2 in B'. fold k in B'. destruct (alookup k acc'); [discriminate|congruence].
      - destruct (j_pf j) as [q|]; [|discriminate].
        destruct (alookup (normpath_str (join_leaf q)) acc') eqn:Lq; [discriminate|].
        destruct (leaves_view (normpath_str (join_leaf q))); [discriminate|]. simpl in B'.
        refine (IHj _ _ B').
        destruct (str_eq_dec k (normpath_str (join_leaf q))) as [E|Ne].
        + rewrite E, alookup_aset_same. discriminate.
        + rewrite alookup_aset_other by (intro E; apply Ne; symmetry; exact E). exact Hk. }
    refine (G js2 _ _ B). rewrite alookup_aset_same. discriminate.
  - destruct (j_pf j) as [q|]; [|discriminate].
    destruct (alookup (normpath_str (join_leaf q)) acc); [discriminate|].
    destruct (leaves_view (normpath_str (join_leaf q))); [discriminate|]. simpl in B. eapply IH; eauto.
Qed.

Lemma snoc_like : forall X (l : list X), l = [] \/ exists l' a, l = l' ++ [a].
Proof.
  intros X l. destruct l as [|x l]; [left; reflexivity|right].
  destruct (@exists_last _ (x :: l)) as [l' [a E]]; [discriminate|]. eauto.
Qed.

(* normalised relative paths: a block of ".." followed by ordinary names *)
Definition nplain (c : str) : Prop := skipc c = false /\ updir c = false.
Definition nshape (l : path) : Prop :=
  exists ups names, l = ups ++ names /\ Forall (fun c => updir c = true) ups /\ Forall nplain names.

Lemma normrel_aux_shape : forall cs acc, nshape (rev acc) -> nshape (normrel_aux acc cs).
Proof.
  induction cs as [|c cs IH]; intros acc H; simpl; [exact H|].
  destruct (skipc c) eqn:Sk; [apply IH; exact H|].
  destruct (updir c) eqn:Up.
  - destruct acc as [|a acc'].
    + apply IH. exists [c], []. simpl. repeat split; auto.
    + destruct H as [ups [names [E [Hu Hn]]]]. simpl in E.
      destruct (updir a) eqn:Ua.
      * apply IH. simpl. rewrite E.
        assert (names = []).
        { destruct (snoc_like _ names) as [->|[n' [z ->]]]; [reflexivity|]. exfalso.
          rewrite app_assoc in E. apply app_inj_tail in E. destruct E as [_ <-].
          apply Forall_app in Hn. destruct Hn as [_ Hn]. inversion Hn as [|? ? [_ Hz] _]; subst. congruence. }
        subst names. rewrite app_nil_r. exists (ups ++ [c]), []. rewrite app_nil_r. repeat split; auto.
        apply Forall_app. split; auto.
      * apply IH.
        destruct (snoc_like _ names) as [->|[n' [z ->]]].
        -- exfalso. rewrite app_nil_r in E. rewrite <- E in Hu. apply Forall_app in Hu. destruct Hu as [_ Hu].
           inversion Hu; subst. congruence.
        -- rewrite app_assoc in E. apply app_inj_tail in E. destruct E as [E _].
           exists ups, n'. split; [exact E|]. split; [exact Hu|]. apply Forall_app in Hn. tauto.
  - apply IH. simpl. destruct H as [ups [names [E [Hu Hn]]]]. rewrite E.
    exists ups, (names ++ [c]). rewrite app_assoc. repeat split; auto.
    apply Forall_app. split; [exact Hn|]. constructor; [split; assumption|constructor].
Qed.

(* containment: an accepted link key is relative and has no ".." component at all *)
Lemma key_contained : forall p,
  leaves_view (normpath_str (join_leaf p)) = false ->
  exists r, normpath_str (join_leaf p) = join_sep r /\ Forall (fun c => updir c = false) r.
Proof.
  intros p H. unfold normpath_str in *.
  destruct (is_abs (split_sep (join_leaf p)) || match join_leaf p with [x] => N.eqb x SEP | _ => false end).
  - unfold leaves_view in H. simpl in H. discriminate.
  - exists (normrel (split_sep (join_leaf p))). split; [reflexivity|].
    unfold normrel in *.
    destruct (normrel_aux_shape (split_sep (join_leaf p)) []) as [ups [names [E [Hu Hn]]]].
    { exists [], []. repeat split; constructor. }
    destruct (normrel_aux [] (split_sep (join_leaf p))) as [|x l] eqn:R.
    + repeat constructor.
    + destruct ups as [|u ups'].
      * simpl in E. rewrite E. eapply Forall_impl; [|exact Hn]. intros a [_ Ha]. exact Ha.
      * exfalso. simpl in E. inversion E; subst x l. inversion Hu as [|? ? Hu1 _]; subst.
        apply str_eqb_eq in Hu1. subst u. unfold leaves_view in H.
        destruct (ups' ++ names) as [|y l'].
        -- simpl in H. discriminate.
        -- simpl in H. discriminate.
Qed.
