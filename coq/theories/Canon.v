(* Canon.v — canonical JSON text (json.dumps(sort_keys=True), default separators, ensure_ascii)
   and the job id.  Float lexemes come from [frepr], the model of Python's float.__repr__. *)
From SV Require Import Base Json MD5.
From Coq Require Import DecimalN DecimalFacts.

(* ---------- tokens ---------- *)
Inductive tok :=
| TNull | TTrue | TFalse | TInt (z : Z) | TFloat (f : fl) | TStr (s : str)
| TLBr | TRBr | TLBc | TRBc | TComma | TColon.

Fixpoint sepby {A} (sep : list A) (ls : list (list A)) : list A :=
  match ls with
  | [] => []
  | [x] => x
  | x :: r => x ++ sep ++ sepby sep r
  end.

Fixpoint tokens (v : json) : list tok :=
  match v with
  | JNull => [TNull]
  | JBool true => [TTrue]
  | JBool false => [TFalse]
  | JInt z => [TInt z]
  | JFloat f => [TFloat f]
  | JStr s => [TStr s]
  | JArr l => TLBr :: sepby [TComma] (map tokens l) ++ [TRBr]
  | JObj kvs =>
      TLBc :: sepby [TComma] (map (fun kv => match kv with (k, x) => TStr k :: TColon :: tokens x end) kvs)
        ++ [TRBc]
  end.

(* ---------- characters ---------- *)
Definition hex4 (n : N) : str :=
  [hexdigit (N.land (N.shiftr n 12) 15); hexdigit (N.land (N.shiftr n 8) 15);
   hexdigit (N.land (N.shiftr n 4) 15); hexdigit (N.land n 15)].

Definition uesc (n : N) : str := [92; 117]%N ++ hex4 n.   (* \uXXXX *)

Definition escape_char (c : N) : str :=
  if (c =? 34)%N then [92; 34]%N            (* backslash dquote *)
  else if (c =? 92)%N then [92; 92]%N       (* \\ *)
  else if (c =? 10)%N then [92; 110]%N      (* \n *)
  else if (c =? 13)%N then [92; 114]%N      (* \r *)
  else if (c =? 9)%N then [92; 116]%N       (* \t *)
  else if (c =? 8)%N then [92; 98]%N        (* \b *)
  else if (c =? 12)%N then [92; 102]%N      (* \f *)
  else if ((32 <=? c) && (c <=? 126))%N then [c]
  else if (c <? 65536)%N then uesc c
  else let v := (c - 65536)%N in
       uesc (55296 + N.land (N.shiftr v 10) 1023) ++ uesc (56320 + N.land v 1023).

Definition quote (s : str) : str := [34%N] ++ flat_map escape_char s ++ [34%N].

Fixpoint uint_chars (u : Decimal.uint) : str :=
  match u with
  | Decimal.Nil => []
  | Decimal.D0 u => 48%N :: uint_chars u
  | Decimal.D1 u => 49%N :: uint_chars u
  | Decimal.D2 u => 50%N :: uint_chars u
  | Decimal.D3 u => 51%N :: uint_chars u
  | Decimal.D4 u => 52%N :: uint_chars u
  | Decimal.D5 u => 53%N :: uint_chars u
  | Decimal.D6 u => 54%N :: uint_chars u
  | Decimal.D7 u => 55%N :: uint_chars u
  | Decimal.D8 u => 56%N :: uint_chars u
  | Decimal.D9 u => 57%N :: uint_chars u
  end.

Definition dec_N (n : N) : str := uint_chars (N.to_uint n).
Definition dec_Z (z : Z) : str :=
  match z with
  | Z0 => [48%N]
  | Zpos p => dec_N (Npos p)
  | Zneg p => 45%N :: dec_N (Npos p)
  end.

Section WithRepr.
  Variable frepr : fl -> str.

  Definition render_tok (t : tok) : str :=
    match t with
    | TNull => [110; 117; 108; 108]%N
    | TTrue => [116; 114; 117; 101]%N
    | TFalse => [102; 97; 108; 115; 101]%N
    | TInt z => dec_Z z
    | TFloat f => frepr f
    | TStr s => quote s
    | TLBr => [91%N] | TRBr => [93%N] | TLBc => [123%N] | TRBc => [125%N]
    | TComma => [44; 32]%N
    | TColon => [58; 32]%N
    end.

  Definition render (ts : list tok) : str := flat_map render_tok ts.

  (* json.dumps(v) — insertion order, as written to signac_statepoint.json *)
  Definition dumps (v : json) : str := render (tokens v).
  (* json.dumps(v, sort_keys=True) *)
  Definition canon (v : json) : str := render (tokens (norm v)).
  (* signac.job.calc_id *)
  Definition calc_id (v : json) : str := md5_hex (canon v).
End WithRepr.

(* ---------- token-level unique readability ---------- *)

Definition starts_value (t : tok) : bool :=
  match t with
  | TRBr | TRBc | TComma | TColon => false
  | _ => true
  end.

Lemma tokens_nonempty : forall v, exists t r, tokens v = t :: r /\ starts_value t = true.
Proof.
  destruct v; simpl; eauto. destruct b; eauto.
Qed.

Lemma sepby_cons2 : forall A (sep : list A) x y r, sepby sep (x :: y :: r) = x ++ sep ++ sepby sep (y :: r).
Proof. reflexivity. Qed.

(* The central lemma: a value's token list is self-delimiting. *)
Lemma tokens_prefix_free : forall v v' r r',
  tokens v ++ r = tokens v' ++ r' -> v = v' /\ r = r'.
Proof.
  intro v. induction v using json_ind'; intros v' r r' E.
  1-5: destruct v'; simpl in E; try (destruct b); try (destruct b0); try discriminate;
       inversion E; subst; auto.
  - (* arrays *)
    destruct v'; try (simpl in E; try destruct b; discriminate).
    simpl in E. inversion E as [E']. clear E.
    assert (Hgoal : l = l0 /\ r = r'); [|destruct Hgoal; subst; auto].
    revert l0 E'. induction H as [|x l Hx Hl IH]; intros l0 E'.
    + destruct l0 as [|y l0]; simpl in E'.
      * inversion E'; auto.
      * destruct (tokens_nonempty y) as [t [q [Ht Hs]]].
        destruct l0; simpl in E'; rewrite Ht in E'; simpl in E'; inversion E'; subst; discriminate.
    + destruct l0 as [|y l0].
      * destruct (tokens_nonempty x) as [t [q [Ht Hs]]].
        destruct l; simpl in E'; rewrite Ht in E'; simpl in E'; inversion E'; subst; discriminate.
      * destruct l as [|x2 l]; destruct l0 as [|y2 l0].
        -- simpl in E'. rewrite <- !List.app_assoc in E'. apply Hx in E'. destruct E' as [-> E'].
           inversion E'; auto.
        -- simpl map in E'. rewrite sepby_cons2 in E'. simpl sepby in E' at 1.
           rewrite <- !List.app_assoc in E'. apply Hx in E'. destruct E' as [_ E']. discriminate.
        -- simpl map in E'. rewrite sepby_cons2 in E'. simpl sepby in E' at 2.
           rewrite <- !List.app_assoc in E'. apply Hx in E'. destruct E' as [_ E']. discriminate.
        -- simpl map in E'. rewrite !sepby_cons2 in E'.
           rewrite <- !List.app_assoc in E'. apply Hx in E'. destruct E' as [-> E'].
           simpl in E'. inversion E' as [E'']. clear E'.
           specialize (IH (y2 :: l0)). simpl map in IH.
           rewrite <- !List.app_assoc in IH. apply IH in E''. destruct E'' as [E1 E2].
           inversion E1; subst. auto.
  - (* objects *)
    destruct v'; try (simpl in E; try destruct b; discriminate).
    simpl in E. inversion E as [E']. clear E.
    assert (Hgoal : kvs = kvs0 /\ r = r'); [|destruct Hgoal; subst; auto].
    revert kvs0 E'. induction H as [|[k x] l Hx Hl IH]; intros l0 E'.
    + destruct l0 as [|[k' y] l0]; simpl in E'.
      * inversion E'; auto.
      * destruct l0; simpl in E'; inversion E'.
    + simpl in Hx. destruct l0 as [|[k' y] l0].
      * destruct l; simpl in E'; inversion E'.
      * destruct l as [|[k2 x2] l]; destruct l0 as [|[k2' y2] l0].
        -- simpl in E'. inversion E' as [[Hk E'']]. subst k'.
           rewrite <- !List.app_assoc in E''. apply Hx in E''. destruct E'' as [-> E''].
           inversion E''; auto.
        -- simpl map in E'. rewrite sepby_cons2 in E'. simpl sepby in E' at 1.
           simpl in E'. inversion E' as [[Hk E'']].
           rewrite <- !List.app_assoc in E''. apply Hx in E''. destruct E'' as [_ E'']. discriminate.
        -- simpl map in E'. rewrite sepby_cons2 in E'. simpl sepby in E' at 2.
           simpl in E'. inversion E' as [[Hk E'']].
           rewrite <- !List.app_assoc in E''. apply Hx in E''. destruct E'' as [_ E'']. discriminate.
        -- simpl map in E'. rewrite !sepby_cons2 in E'.
           simpl in E'. inversion E' as [[Hk E'']]. subst k'.
           rewrite <- !List.app_assoc in E''. apply Hx in E''. destruct E'' as [-> E''].
           simpl in E''. inversion E'' as [E3]. clear E''.
           specialize (IH ((k2', y2) :: l0)). simpl map in IH.
           rewrite <- !List.app_assoc in IH. apply IH in E3. destruct E3 as [E1 E2].
           inversion E1; subst. auto.
Qed.

Theorem tokens_inj : forall v v', tokens v = tokens v' -> v = v'.
Proof.
  intros v v' E. apply (tokens_prefix_free v v' [] []). rewrite !List.app_nil_r. exact E.
Qed.

(* ---------- lexeme-level facts ---------- *)

Lemma uint_chars_inj : forall u u', uint_chars u = uint_chars u' -> u = u'.
Proof.
  induction u; destruct u'; simpl; intro E; try discriminate; auto;
    inversion E; f_equal; auto.
Qed.

Lemma dec_N_inj : forall n m, dec_N n = dec_N m -> n = m.
Proof.
  unfold dec_N. intros n m E. apply uint_chars_inj in E.
  rewrite <- (DecimalN.Unsigned.of_to n), <- (DecimalN.Unsigned.of_to m). congruence.
Qed.

Lemma uint_chars_digits : forall u, Forall (fun c => (48 <= c <= 57)%N) (uint_chars u).
Proof. induction u; simpl; constructor; auto; lia. Qed.

Lemma dec_N_zero : dec_N 0 = [48%N].
Proof. reflexivity. Qed.

Lemma dec_N_no_minus : forall n r, dec_N n <> 45%N :: r.
Proof.
  intros n r E. pose proof (uint_chars_digits (N.to_uint n)) as Hd.
  unfold dec_N in E. rewrite E in Hd. inversion Hd; subst. lia.
Qed.

Lemma dec_Z_inj : forall a b, dec_Z a = dec_Z b -> a = b.
Proof.
  intros a b E.
  destruct a as [|p|p]; destruct b as [|q|q]; simpl in E; auto.
  - rewrite <- dec_N_zero in E. apply dec_N_inj in E. discriminate.
  - inversion E.
  - rewrite <- dec_N_zero in E. apply dec_N_inj in E. discriminate.
  - apply dec_N_inj in E. congruence.
  - exfalso. eapply dec_N_no_minus. exact E.
  - inversion E.
  - exfalso. eapply dec_N_no_minus. symmetry. exact E.
  - inversion E as [E']. apply dec_N_inj in E'. congruence.
Qed.
