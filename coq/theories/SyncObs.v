(* SyncObs.v — observational layer shared by the correspondence checks of C13, C14 and C15:
   the case type (input + what the real signac did), tree comparison, the executed model
   and the mismatch predicate. *)
From SV Require Import Base Json Canon Sync.

(* ------------------------------------------------------------------ oracle tables *)
Fixpoint ftab_get (t : list (fl * str)) (f : fl) : str :=
  match t with
  | [] => [63%N]
  | (g, s) :: t' => if fl_eqb f g then s else ftab_get t' f
  end.

(* a boolean function given by a finite table (regex / predicate outcomes computed by the harness) *)
Definition tabf (t : list (str * bool)) (s : str) : bool :=
  match alookup s t with Some b => b | None => false end.

(* a key strategy given by a table of verdicts and the names on which the callback raises *)
Definition tabk (t : list (str * bool)) (r : list str) (s : str) : option bool :=
  if str_mem s r then None else Some (tabf t s).

(* ------------------------------------------------------------------ paths and flattening *)
Definition path := list str.

Fixpoint lookup_path (p : path) (n : node) : option node :=
  match p with
  | [] => Some n
  | k :: p' =>
      match n with
      | Dir es => match alookup k es with Some x => lookup_path p' x | None => None end
      | File _ _ => None
      end
  end.

Fixpoint flat_node (p : path) (n : node) : list (path * option content) :=
  match n with
  | File c _ => [(p, Some c)]
  | Dir es =>
      (p, None) :: (fix go (l : list (str * node)) : list (path * option content) :=
                      match l with
                      | [] => []
                      | (k, x) :: l' => flat_node (p ++ [k]) x ++ go l'
                      end) es
  end.

Definition flat (d : dir) : list (path * option content) := tl (flat_node [] (Dir d)).

Definition path_eqb (a b : path) : bool := list_eqb str_eqb a b.

Section Obs.
  Variable frepr : fl -> str.

  Definition cbytes := content_bytes frepr.
  Definition content_eqb (a b : content) : bool := bytes_eqb (cbytes a) (cbytes b).

  (* the node at path p of [a] is, in [b], a node of the same kind with the same bytes *)
  Definition same_at (b : dir) (e : path * option content) : bool :=
    match lookup_path (fst e) (Dir b), snd e with
    | Some (File c' _), Some c => content_eqb c c'
    | Some (Dir _), None => true
    | _, _ => false
    end.

  Definition dir_sub (a b : dir) : bool := forallb (same_at b) (flat a).
  Definition dir_eqb (a b : dir) : bool := dir_sub a b && dir_sub b a.

  Definition node_eqb (a b : option node) : bool :=
    match a, b with
    | None, None => true
    | Some (File c _), Some (File c' _) => content_eqb c c'
    | Some (Dir x), Some (Dir y) => dir_eqb x y
    | _, _ => false
    end.

  Definition proj_eqb (a b : project) : bool :=
    dir_eqb (p_top a) (p_top b) && dir_eqb (p_ws a) (p_ws b).

  (* ---------------------------------------------------------------- cases *)
  Record sinput := {
    i_src : project; i_dst : project;      (* both projects before the call, mtimes explicit *)
    i_opts : opts;
    i_entry : entry;
    i_parallel : bool;
    i_unmodelled : bool                    (* the trees contain symbolic links (snapshotted as pseudo files holding the
                                              link text): outside the model — no prediction is compared; only the
                                              observational dry-run oracle of C15 is evaluated on such a case *)
  }.

  Record sobs := {
    ob_exn : option exn;                   (* class of the exception, None = returned *)
    ob_src : project; ob_dst : project;    (* both projects after the call (real mtimes) *)
    ob_rest_ok : bool                      (* everything else under both project roots is byte-identical *)
  }.

  Record scase := {
    c_in : sinput;
    c_obs : sobs;                          (* the call itself *)
    c_again : option sobs;                 (* the same call repeated (only after a successful real run) *)
    c_ref : option sobs                    (* companion run on a fresh copy of the same pair:
                                              dry_run -> the same call with dry_run=False;
                                              else parallel -> the same call with parallel=False *)
  }.

  Definition exn_opt_eqb (a b : option exn) : bool :=
    match a, b with
    | None, None => true
    | Some x, Some y => exn_eqb x y
    | _, _ => false
    end.

  Definition is_none {A} (o : option A) : bool := match o with None => true | Some _ => false end.

  (* ---------------------------------------------------------------- the model, executed *)
  Definition model_call_gen (all : bool) (cf : cfg) (o : opts) (en : entry) (src dst : project) : sobs :=
    let '(dst', e) := run_sync_gen frepr cf all o en src dst in
    {| ob_exn := e; ob_src := src; ob_dst := dst'; ob_rest_ok := true |}.
  Definition model_call := model_call_gen false.

  Definition ref_opts (i : sinput) : option opts :=
    if o_dry_run (i_opts i) then Some (set_dry (i_opts i) false)
    else if i_parallel i then Some (i_opts i)
    else None.

  Definition wants_again (i : sinput) (o1 : sobs) : bool :=
    is_none (ob_exn o1) && negb (o_dry_run (i_opts i)).

  (* the complete observation the model predicts for an input *)
  Definition model_case_gen (all : bool) (cf : cfg) (i : sinput) : scase :=
    let o1 := model_call_gen all cf (i_opts i) (i_entry i) (i_src i) (i_dst i) in
    {| c_in := i;
       c_obs := o1;
       c_again := if wants_again i o1
                  then Some (model_call cf (i_opts i) (i_entry i) (ob_src o1) (ob_dst o1)) else None;
       c_ref := match ref_opts i with
                | Some o => Some (model_call cf o (i_entry i) (i_src i) (i_dst i))
                | None => None
                end |}.
  Definition model_case := model_case_gen false.

  (* model observation [m] vs implementation observation [o].  With parallel=True/int and an exception the
     destination tree depends on the thread schedule and is not compared *)
  Definition obs_differs (par : bool) (m o : sobs) : bool :=
    negb (exn_opt_eqb (ob_exn m) (ob_exn o))
    || negb (ob_rest_ok o)
    || negb (proj_eqb (ob_src m) (ob_src o))
    || (if par && negb (is_none (ob_exn m)) then false else negb (proj_eqb (ob_dst m) (ob_dst o))).

  (* a pooled project-level run that raised: the project document is synchronised before the pool starts;
     every job entry is one of the outcomes some schedule produces — not reached, processed, or (shared
     ByKey state, unless repaired) processed with a spurious DocumentSyncConflict; the reported exception is
     that of the sequential loop, or DocumentSyncConflict when some job has a document conflict *)
  Definition pooled_jobs (cf : cfg) (o : opts) (src : project) : dir :=
    filter (fun kn => job_selected o (fst kn)) (p_ws src).

  Definition pooled_entry_ok (cf : cfg) (o : opts) (src dst : project) (ws' : dir) (id : str) : bool :=
    let obs := alookup id ws' in
    node_eqb (alookup id (p_ws dst)) obs
    || existsb (fun kn => str_eqb (fst kn) id
                          && (node_eqb (alookup id (fst (clone_or_sync frepr cf o kn (p_ws dst)))) obs
                              || (negb (fix_shared cf)
                                  && node_eqb (alookup id (fst (clone_or_sync_spurious frepr cf o kn (p_ws dst)))) obs)))
               (pooled_jobs cf o src).

  Definition pooled_differs (cf : cfg) (o : opts) (en : entry) (src dst : project) (m ob : sobs) : bool :=
    match en with
    | E_project =>
        negb (ob_rest_ok ob)
        || negb (proj_eqb (ob_src m) (ob_src ob))
        || negb (dir_eqb (p_top (ob_dst m)) (p_top (ob_dst ob)))
        || negb (forallb (pooled_entry_ok cf o src dst (p_ws (ob_dst ob)))
                         (map fst (p_ws dst) ++ map fst (p_ws (ob_dst ob))))
        || negb (exn_opt_eqb (ob_exn m) (ob_exn ob)
                 || (negb (fix_shared cf)
                     && exn_opt_eqb (ob_exn ob) (Some EDocumentSyncConflict)
                     && existsb (fun kn => exn_opt_eqb (snd (clone_or_sync frepr cf o kn (p_ws dst)))
                                                       (Some EDocumentSyncConflict)) (pooled_jobs cf o src)))
    | _ => true
    end.

  Definition call_differs (par : bool) (o : opts) (en : entry) (src dst : project) (ob : sobs) : bool :=
    let m := model_call cfg_current o en src dst in
    if par && negb (is_none (ob_exn m)) then pooled_differs cfg_current o en src dst m ob
    else obs_differs false m ob.

  Definition mismatch_sync (c : scase) : bool :=
    let i := c_in c in
    let par := i_parallel i in
    negb (i_unmodelled i) &&
   (call_differs par (i_opts i) (i_entry i) (i_src i) (i_dst i) (c_obs c)
    || negb (Bool.eqb (wants_again i (c_obs c)) (negb (is_none (c_again c))))
    || match c_again c with
       | Some o2 => call_differs par (i_opts i) (i_entry i) (ob_src (c_obs c)) (ob_dst (c_obs c)) o2
       | None => false
       end
    || match ref_opts i, c_ref c with
       | Some o, Some r => call_differs (par && o_dry_run (i_opts i)) o (i_entry i) (i_src i) (i_dst i) r
       | None, None => false
       | _, _ => true
       end).

  (* exact equality of two predicted observations (used by the differential classifiers) *)
  Definition sobs_eqb (a b : sobs) : bool :=
    exn_opt_eqb (ob_exn a) (ob_exn b) && proj_eqb (ob_src a) (ob_src b) && proj_eqb (ob_dst a) (ob_dst b).
  Definition osobs_eqb (a b : option sobs) : bool :=
    match a, b with
    | None, None => true
    | Some x, Some y => sobs_eqb x y
    | _, _ => false
    end.
  Definition scase_obs_eqb (a b : scase) : bool :=
    sobs_eqb (c_obs a) (c_obs b) && osobs_eqb (c_again a) (c_again b) && osobs_eqb (c_ref a) (c_ref b).

  (* the defect guarded by switch [k] is active on input [i]: repairing only it changes the behaviour *)
  Definition with_fix (k : N) : cfg :=
    let c := cfg_current in
    {| fix_F3 := fix_F3 c || N.eqb k 1; fix_F4 := fix_F4 c || N.eqb k 2; fix_F5 := fix_F5 c || N.eqb k 4;
       fix_F16 := fix_F16 c || N.eqb k 3; fix_root := fix_root c || N.eqb k 7;
       fix_excl := fix_excl c || N.eqb k 5; fix_dryinit := fix_dryinit c || N.eqb k 6;
       fix_ignore := fix_ignore c || N.eqb k 8; fix_implicit := fix_implicit c || N.eqb k 9;
       fix_shared := fix_shared c || N.eqb k 10; fix_own := fix_own c || N.eqb k 11;
       fix_funny := fix_funny c || N.eqb k 12; fix_keep := fix_keep c || N.eqb k 13 |}.
  Definition active (k : N) (i : sinput) : bool :=
    negb (scase_obs_eqb (model_case cfg_current i) (model_case (with_fix k) i))
    || (i_parallel i
        && negb (scase_obs_eqb (model_case_gen true cfg_current i) (model_case_gen true (with_fix k) i))).
  Fixpoint first_active (ks : list N) (i : sinput) : N :=
    match ks with
    | [] => 0%N
    | k :: ks' => if active k i then k else first_active ks' i
    end.

  (* ---------------------------------------------------------------- vocabulary of the oracles *)
  (* the (destination id, source job directory, destination job directory before the call) pairs the
     call is asked to synchronise, and whether the destination job is cloned by a project-level call *)
  Definition pairs (i : sinput) : list (str * dir * option dir) :=
    match i_entry i with
    | E_project =>
        flat_map (fun kn => match snd kn with
                            | Dir sd => if job_selected (i_opts i) (fst kn)
                                        then [(fst kn, sd, job_dir (fst kn) (p_ws (i_dst i)))] else []
                            | _ => []
                            end) (p_ws (i_src i))
    | E_job sid did _ =>
        match job_dir sid (p_ws (i_src i)) with
        | Some sd => [(did, sd, job_dir did (p_ws (i_dst i)))]
        | None => []
        end
    end.

  Definition is_project_entry (i : sinput) : bool :=
    match i_entry i with E_project => true | _ => false end.

  Definition last_name (p : path) : str := last p [].
  Definition user_excl (i : sinput) (p : path) : bool := existsb (o_exclude (i_opts i)) p.
  Definition doc_is_file (i : sinput) : bool :=
    match o_docsync (i_opts i) with DS_copy => true | _ => false end.
  (* excluded from file synchronisation as the property reads: a component matches a user pattern, or the path
     is the job's own state point file, or its own document unless documents are copied like files — the two
     own files live at the top level of the job; files of the same names further down are ordinary files *)
  Definition path_excluded (i : sinput) (p : path) : bool :=
    user_excl i p || path_eqb p [FN_SP] || (negb (doc_is_file i) && path_eqb p [FN_DOC]).

  (* the entry the source has at p (a file if want_dir = false, a directory otherwise) is absent from d: nothing
     is there, or something of the other kind is — at p itself or on the way (a file where a directory is
     needed).  A sync that returns must then have produced the source's entry: the superset clause leaves a call
     only two ways out of a kind clash, deliver or raise *)
  Fixpoint absent_in (want_dir : bool) (p : path) (d : dir) : bool :=
    match p with
    | [] => false
    | [k] =>
        match alookup k d with
        | None => true
        | Some (Dir _) => negb want_dir
        | Some (File _ _) => want_dir
        end
    | k :: p' =>
        match alookup k d with
        | None => true
        | Some (Dir d') => absent_in want_dir p' d'
        | Some (File _ _) => true
        end
    end.

  Definition ends_tilde (p : path) : bool :=
    match rev (last_name p) with c :: _ => N.eqb c TILDE | [] => false end.

  (* ---------------------------------------------------------------- differing files and the strategy (C13, C14, C15) *)
  Fixpoint path_str (p : path) : str :=        (* the path relative to the job, as the strategy receives it *)
    match p with
    | [] => []
    | [k] => k
    | k :: p' => k ++ [SLASH] ++ path_str p'
    end.

  Definition file_at (p : path) (d : dir) : option (content * Z) :=
    match lookup_path p (Dir d) with Some (File c m) => Some (c, m) | _ => None end.

  (* [deep] says how "different content" is decided: the comparison the call was asked to use *)
  Definition conflicts_gen (excl : path -> bool) (deep : bool) (i : sinput) (sd dd : dir)
    : list (path * (content * Z) * (content * Z)) :=
    flat_map (fun e =>
                match file_at (fst e) sd, file_at (fst e) dd with
                | Some (c1, m1), Some (c2, m2) =>
                    if (o_recursive (i_opts i) || Nat.eqb (length (fst e)) 1)
                       && negb (excl (fst e))
                       && negb (file_same frepr deep c1 m1 c2 m2)
                    then [(fst e, (c1, m1), (c2, m2))] else []
                | _, _ => []
                end) (flat sd).

  (* obligations are stated for files no component of whose path matches an exclude pattern ... *)
  Definition conflicts (deep : bool) (i : sinput) := conflicts_gen (path_excluded i) deep i.
  (* ... while a FileSyncConflict is justified by any differing file whose own name is not excluded *)
  Definition name_excluded (i : sinput) (p : path) : bool :=
    o_exclude (i_opts i) (last_name p) || path_eqb p [FN_SP] || (negb (doc_is_file i) && path_eqb p [FN_DOC]).
  Definition conflicts_by_name (deep : bool) (i : sinput) := conflicts_gen (name_excluded i) deep i.

  (* a reachable name that is a file on one side and a directory on the other, its own name not excluded *)
  Definition kind_clash (i : sinput) (sd dd : dir) : bool :=
    existsb (fun e =>
               (o_recursive (i_opts i) || Nat.eqb (length (fst e)) 1)
               && negb (name_excluded i (fst e))
               && match lookup_path (fst e) (Dir dd), snd e with
                  | Some (Dir _), Some _ => true
                  | Some (File _ _), None => true
                  | _, _ => false
                  end) (flat sd).
  Definition any_clash (i : sinput) : bool :=
    existsb (fun pr => match snd pr with Some dd => kind_clash i (snd (fst pr)) dd | None => false end) (pairs i).

  Definition is_content (c : content) (x : option (content * Z)) : bool :=
    match x with Some (c', _) => content_eqb c c' | None => false end.

  (* one conflicting file: overwritten iff the strategy says so; untouched without a strategy *)
  Definition conflict_ok (i : sinput) (o : sobs) (dd' : dir) (x : path * (content * Z) * (content * Z)) : bool :=
    let '(p, (c1, m1), (c2, m2)) := x in
    let after := file_at p dd' in
    match o_strategy (i_opts i) with
    | None => negb (is_none (ob_exn o)) && is_content c2 after
    | Some s =>
        let v := verdict s (path_str p) m1 m2 in
        if is_none (ob_exn o) then is_content (if v then c1 else c2) after
        else is_content c2 after || (v && is_content c1 after)
    end.

  Definition docs_of (fn : str) (sd dd dd' : dir) : kvs * kvs * kvs :=
    (read_doc fn sd, read_doc fn dd, read_doc fn dd').
End Obs.

(* ------------------------------------------------------------------ permission bits (observed, not part of [node]) *)
(* One row per regular file of either workspace whose permission bits are not PERM_DEFAULT before or after the
   observed call: side (true = destination), workspace path (job id :: path inside the job), st_mode & 07777
   before and after.  A file without a row has PERM_DEFAULT before and after (so has a path that holds no file). *)
Record perm_row := { pr_dst : bool; pr_path : path; pr_before : N; pr_after : N }.
Definition PERM_DEFAULT : N := 420%N.       (* 0o644 *)

Definition perm_find (rows : list perm_row) (dstside : bool) (p : path) : option perm_row :=
  find (fun r => Bool.eqb (pr_dst r) dstside && path_eqb (pr_path r) p) rows.
Definition perm_before (rows : list perm_row) (dstside : bool) (p : path) : N :=
  match perm_find rows dstside p with Some r => pr_before r | None => PERM_DEFAULT end.

(* what the harness emits: the repr() table of the floats occurring in the documents + the case + the permission rows *)
Record case_sync := { cs_ftab : list (fl * str); cs_case : scase; cs_perm : list perm_row }.
Definition cs_frepr (c : case_sync) : fl -> str := ftab_get (cs_ftab c).

(* the source file a destination workspace path is copied from *)
Definition src_path_of (i : sinput) (p : path) : path :=
  match i_entry i, p with
  | E_job sid did _, k :: q => if str_eqb k did then sid :: q else p
  | _, _ => p
  end.

(* a job's own state point / document file (written by signac, not copied — unless DocSync.COPY): the model of the
   permission bits makes no claim about them in a real run *)
Definition own_ws_path (p : path) : bool :=
  match p with
  | [_; n] => str_eqb n FN_SP || str_eqb n FN_DOC
  | _ => false
  end.

(* Model of the permission bits, derived from the executed tree model: shutil.copy / copy2 / copytree carry the
   source file's bits along with its bytes (whatever preserve_permissions says), and nothing else touches bits.
   A file the model writes has mtime NOW; every other file keeps its bits; the source is never touched. *)
Definition perm_predicted (i : sinput) (rows : list perm_row) (m : sobs) (r : perm_row) : N :=
  if pr_dst r then
    if own_ws_path (pr_path r) && negb (o_dry_run (i_opts i)) then pr_after r
    else match file_at (pr_path r) (p_ws (ob_dst m)) with
         | Some (_, mt) => if Z.eqb mt NOW then perm_before rows false (src_path_of i (pr_path r)) else pr_before r
         | None => PERM_DEFAULT     (* no file predicted there (a path without a file has the default bits) *)
         end
  else pr_before r.

Definition perm_mismatch (c : case_sync) : bool :=
  let i := c_in (cs_case c) in
  let o := c_obs (cs_case c) in
  negb (i_unmodelled i)
  && (let m := model_call (cs_frepr c) cfg_current (i_opts i) (i_entry i) (i_src i) (i_dst i) in
      let skip_dst := i_parallel i && negb (is_none (ob_exn m)) in     (* schedule dependent, see obs_differs *)
      existsb (fun r => negb (skip_dst && pr_dst r) && negb (N.eqb (perm_predicted i (cs_perm c) m r) (pr_after r)))
              (cs_perm c)).

(* oracle clauses over the observation *)
(* C15, dry_run: no permission bit changes anywhere *)
Definition perm_all_unchanged (rows : list perm_row) : bool :=
  forallb (fun r => N.eqb (pr_before r) (pr_after r)) rows.
Definition perm_dry_ok (c : case_sync) : bool :=
  negb (o_dry_run (i_opts (c_in (cs_case c)))) || perm_all_unchanged (cs_perm c).
(* C13 / C14, "touches nothing else" / "leaving that file untouched": the source keeps its bits; a destination file
   that was not rewritten (same bytes, same mtime as before the call — destination-only files, files the strategy
   declined, excluded files, identical files) keeps its bits *)
Definition perm_frame_ok (c : case_sync) : bool :=
  let i := c_in (cs_case c) in
  let o := c_obs (cs_case c) in
  forallb (fun r =>
             N.eqb (pr_before r) (pr_after r)
             || (pr_dst r
                 && match file_at (pr_path r) (p_ws (i_dst i)), file_at (pr_path r) (p_ws (ob_dst o)) with
                    | Some (c1, m1), Some (c2, m2) => negb (content_eqb (cs_frepr c) c1 c2 && Z.eqb m1 m2)
                    | _, _ => true
                    end)) (cs_perm c).

Definition mismatch_case (c : case_sync) : bool := mismatch_sync (cs_frepr c) (cs_case c) || perm_mismatch c.

(* idx*100 + tag for every case on which [tagf] returns a non-zero tag *)
Fixpoint tagged_aux (tagf : case_sync -> N) (l : list case_sync) (i : N) : list N :=
  match l with
  | [] => []
  | c :: l' =>
      let t := tagf c in
      if N.eqb t 0 then tagged_aux tagf l' (N.succ i) else (i * 100 + t)%N :: tagged_aux tagf l' (N.succ i)
  end.
Definition tagged (tagf : case_sync -> N) (l : list case_sync) : list N := tagged_aux tagf l 0%N.
