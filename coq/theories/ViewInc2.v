(* ViewInc2.v — the incremental update equals the from-scratch build (plain views, no link at the root). *)
From SV Require Import Base View CorrC17 C17Proofs ViewFS ViewThm ViewTrie ViewThm2 ViewThm3 ViewThm4 ViewInc.
From Coq Require Import Lia Sorting.Sorted.

(* ------------------------------------------------------------------ keys and their prefixes *)
Lemma prefix_of_key_cases : forall q T, is_prefix q (T ++ [s_job]) = true -> q = T ++ [s_job] \/ is_prefix q T = true.
Proof.
  intros q T H. apply is_prefix_spec in H. destruct H as [r E].
  destruct (snoc_cases _ r) as [->|[r' [z ->]]].
  - left. rewrite app_nil_r in E. auto.
  - right. rewrite app_assoc in E. apply app_inj_tail in E. destruct E as [E _].
    apply is_prefix_spec. eauto.
Qed.

Lemma key_prefix_eq : forall T T', Forall tok T' -> is_prefix (T ++ [s_job]) (T' ++ [s_job]) = true -> T = T'.
Proof.
  intros T T' Ht H. destruct (prefix_of_key_cases _ _ H) as [E|Pr].
  - apply app_inj_tail in E. tauto.
  - exfalso. eapply (toks_no_job_last T' (T ++ [s_job])); eauto.
Qed.

Lemma prefix_plain : forall q l, Forall plain l -> is_prefix q l = true -> Forall plain q.
Proof.
  intros q l Hl H. apply is_prefix_spec in H. destruct H as [r ->]. apply Forall_app in Hl. tauto.
Qed.

Lemma key_plain : forall T, Forall tok T -> Forall plain (T ++ [s_job]).
Proof.
  intros T H. apply Forall_app. split.
  - eapply Forall_impl; [|exact H]. intros a [Ha _]. exact Ha.
  - constructor; [apply plain_job|constructor].
Qed.

Lemma vk_some_prefix : forall (cur : list (path * str)) q,
  q <> [] -> vk true cur q <> None -> exists e, In e cur /\ is_prefix q (fst e ++ [s_job]) = true.
Proof.
  intros cur q Hne H. rewrite vk_nonnil in H by exact Hne.
  match type of H with context [find ?f cur] => destruct (find f cur) as [e|] eqn:F end.
  - apply find_some in F. destruct F as [F1 F2]. apply path_eqb_eq in F2. exists e. split; [exact F1|].
    rewrite F2. apply is_prefix_refl.
  - match type of H with (if ?b then _ else _) <> _ => destruct b eqn:Ex end; [|congruence].
    apply existsb_exists in Ex. destruct Ex as [e [Hin Hp]]. exists e. split; [exact Hin|].
    apply is_prefix_spec in Hp. destruct Hp as [r Er]. apply is_prefix_spec. exists (r ++ [s_job]).
    rewrite Er, <- app_assoc. reflexivity.
Qed.

Lemma vk_none_of_no_prefix : forall (cur : list (path * str)) q,
  q <> [] -> (forall e, In e cur -> is_prefix q (fst e ++ [s_job]) = false) -> vk true cur q = None.
Proof.
  intros cur q Hne H. destruct (vk true cur q) eqn:V; [|reflexivity]. exfalso.
  destruct (vk_some_prefix cur q Hne) as [e [He Hp]]; [congruence|]. rewrite (H e He) in Hp. discriminate.
Qed.

(* the pointwise effect of phase 3 *)
Lemma Kadd_all_spec : forall P cwd (L : list (path * path)) K q,
  NoDup (map fst L) -> (forall e, In e L -> Forall tok (fst e)) ->
  Kadd_all P cwd K L q =
  match find (fun e => path_eqb q (key_of e)) L with
  | Some e => Some (KLnk (snd (placed P cwd e)))
  | None => if existsb (fun e => is_prefix q (fst e)) L then Some KDir else K q
  end.
Proof.
  intros P cwd L. induction L as [|e L IH]; intros K q Hnd Ht; [reflexivity|].
  inversion Hnd as [|? ? Hn1 Hn2]; subst.
  unfold Kadd_all in *. simpl fold_left. rewrite IH; auto; [|intros e' He'; apply Ht; right; exact He'].
  simpl find. simpl existsb.
  destruct (path_eqb q (key_of e)) eqn:Eq.
  - apply path_eqb_eq in Eq. subst q.
    rewrite find_none_ext.
    2: { intros e' He'. apply path_eqb_false. intro E. apply key_of_inj in E.
         apply Hn1. rewrite E. apply in_map. exact He'. }
    assert (existsb (fun e0 : path * path => is_prefix (key_of e) (fst e0)) L = false) as ->.
    { apply not_true_is_false. intro Ex. apply existsb_exists in Ex. destruct Ex as [e' [He' Hp]].
      eapply (toks_no_job_last (fst e') (key_of e)); [apply Ht; right; exact He'|exact Hp|reflexivity]. }
    unfold Kadd, key_of. rewrite path_eqb_refl.
    reflexivity.
  - destruct (find (fun e0 : path * path => path_eqb q (key_of e0)) L); [reflexivity|].
    unfold Kadd. unfold key_of in Eq. rewrite Eq.
    destruct (is_prefix q (fst e)); simpl; [destruct (existsb _ L); reflexivity|reflexivity].
Qed.

Lemma same_fst_entry : forall X (c : list (path * X)) e e',
  NoDup (map fst c) -> In e c -> In e' c -> fst e = fst e' -> e = e'.
Proof.
  induction c as [|x c IH]; intros e e' Hnd He He' E; [destruct He|].
  simpl in Hnd. inversion Hnd as [|? ? Hn1 Hn2]; subst.
  destruct He as [<-|He]; destruct He' as [<-|He']; auto.
  - exfalso. apply Hn1. rewrite E. apply in_map. exact He'.
  - exfalso. apply Hn1. rewrite <- E. apply in_map. exact He.
Qed.

Lemma find_placed : forall P cwd (sp : spec) (g : path -> bool),
  find (fun e : path * str => g (fst e)) (map (placed P cwd) sp) =
  option_map (placed P cwd) (find (fun e : path * path => g (fst e)) sp).
Proof.
  induction sp as [|e sp IH]; intro g; [reflexivity|]. simpl. destruct (g (fst e)); [reflexivity|apply IH].
Qed.

Lemma existsb_placed : forall P cwd (sp : spec) (g : path -> bool),
  existsb (fun e : path * str => g (fst e)) (map (placed P cwd) sp) =
  existsb (fun e : path * path => g (fst e)) sp.
Proof.
  induction sp as [|e sp IH]; intro g; [reflexivity|]. simpl. rewrite IH. reflexivity.
Qed.

Lemma vk_placed : forall P cwd (sp : spec) q, q <> [] ->
  vk true (map (placed P cwd) sp) q =
  match find (fun e => path_eqb q (key_of e)) sp with
  | Some e => Some (KLnk (snd (placed P cwd e)))
  | None => if existsb (fun e => is_prefix q (fst e)) sp then Some KDir else None
  end.
Proof.
  intros P cwd sp q Hne. rewrite vk_nonnil by exact Hne.
  rewrite (find_placed P cwd sp (fun T => path_eqb q (T ++ [s_job]))).
  rewrite (existsb_placed P cwd sp (fun T => is_prefix q T)).
  unfold key_of. destruct (find _ sp); reflexivity.
Qed.

Lemma find_key_some : forall (sp : spec) q e,
  find (fun e => path_eqb q (key_of e)) sp = Some e -> In e sp /\ q = key_of e.
Proof. intros sp q e H. apply find_some in H. destruct H as [H1 H2]. apply path_eqb_eq in H2. auto. Qed.

Lemma find_key_none : forall (sp : spec) q e,
  find (fun e => path_eqb q (key_of e)) sp = None -> In e sp -> q <> key_of e.
Proof. intros sp q e H He E. apply (find_none _ _ H e) in He. rewrite E, path_eqb_refl in He. discriminate. Qed.

Definition dead_set (so sn : spec) (b : path) : Prop :=
  b <> [] /\ any_prefix b (map key_of so) = true /\ any_prefix b (map key_of sn) = false.

Lemma any_prefix_key : forall (sp : spec) b,
  any_prefix b (map key_of sp) = true <-> exists e, In e sp /\ is_prefix b (key_of e) = true.
Proof.
  intros sp b. unfold any_prefix. rewrite existsb_exists. split.
  - intros [x [Hx Hp]]. apply in_map_iff in Hx. destruct Hx as [e [<- He]]. eauto.
  - intros [e [He Hp]]. exists (key_of e). split; [apply in_map; exact He|exact Hp].
Qed.

Lemma existsb_false_intro : forall X (f : X -> bool) l, (forall x, In x l -> f x = true -> False) -> existsb f l = false.
Proof.
  intros X f l H. apply not_true_is_false. intro Ex. apply existsb_exists in Ex. destruct Ex as [x [H1 H2]]. eauto.
Qed.

Ltac kill_existsb l :=
  match goal with |- context [existsb ?f l] =>
    let Hx := fresh "Hx" in
    assert (Hx : existsb f l = false); [apply existsb_false_intro|rewrite Hx; clear Hx] end.

Ltac true_existsb l x :=
  match goal with |- context [existsb ?f l] =>
    let Hx := fresh "Hx" in
    assert (Hx : existsb f l = true); [apply existsb_exists; exists x|rewrite Hx; clear Hx] end.

Lemma final_kinds : forall P cwd (so sn : spec) (O U : list path) (Ln : list (path * path)),
  good_spec so -> good_spec sn ->
  (forall b, In b O <-> dead_set so sn b) ->
  (forall e, In e Ln -> In e sn) -> NoDup (map fst Ln) ->
  (forall u, In u U -> exists e, In e Ln /\ u = key_of e) ->
  (forall e, In e sn -> ~ In e Ln -> In e so) ->
  forall q, Kadd_all P cwd (Kdel_all (Kdel_all (vk true (map (placed P cwd) so)) O) U) Ln q
            = vk true (map (placed P cwd) sn) q.
Proof.
  intros P cwd so sn O U Ln [Ndo Tko] [Ndn Tkn] HO HLn NdL HU Hkept q.
  assert (TkL : forall e, In e Ln -> Forall tok (fst e)) by (intros e He; apply Tkn, HLn, He).
  rewrite Kadd_all_spec by auto.
  destruct q as [|x q'].
  - (* the prefix itself *)
    rewrite find_none_ext by (intros e _; unfold key_of; destruct (fst e); reflexivity).
    destruct Ln as [|e Ln']; [|reflexivity].
    simpl. unfold Kdel_all.
    kill_existsb U. { intros u Hu Hp. destruct (HU u Hu) as [e [[] _]]. }
    kill_existsb O. { intros b Hb Hp. apply HO in Hb. destruct Hb as [Hne _]. destruct b; [congruence|discriminate]. }
    reflexivity.
  - set (q := x :: q'). assert (Hq : q <> []) by discriminate.
    rewrite (vk_placed P cwd sn q Hq).
    destruct (find (fun e => path_eqb q (key_of e)) sn) as [e|] eqn:Fn.
    + (* q is the key of a wanted entry *)
      apply find_key_some in Fn. destruct Fn as [Hen Eq].
      destruct (find (fun e0 => path_eqb q (key_of e0)) Ln) as [e'|] eqn:FL.
      * apply find_key_some in FL. destruct FL as [HeL Eq'].
        assert (e' = e); [|subst; reflexivity].
        apply (same_fst_entry _ sn); auto. apply key_of_inj. rewrite <- Eq, <- Eq'. reflexivity.
      * assert (HnL : ~ In e Ln).
        { intro HeL. eapply (find_key_none Ln q e); eauto. }
        assert (Heo : In e so) by (apply Hkept; auto).
        kill_existsb Ln.
        { intros e1 He1 Hp. eapply (toks_no_job_last (fst e1) q); [apply TkL; exact He1|exact Hp|exact Eq]. }
        unfold Kdel_all.
        kill_existsb U.
        { intros u Hu Hp. destruct (HU u Hu) as [e1 [He1 ->]]. rewrite Eq in Hp. unfold key_of in Hp.
          apply key_prefix_eq in Hp; [|apply Tkn; exact Hen].
          apply HnL. rewrite <- (same_fst_entry _ sn e1 e); auto. }
        kill_existsb O.
        { intros b Hb Hp. apply HO in Hb. destruct Hb as [_ [_ Hd]].
          assert (any_prefix b (map key_of sn) = true); [|congruence].
          apply any_prefix_key. exists e. split; [exact Hen|rewrite <- Eq; exact Hp]. }
        rewrite Eq. unfold key_of.
        apply (vk_key_value (map (placed P cwd) so) (placed P cwd e)); [|apply in_map; exact Heo].
        rewrite map_map. exact Ndo.
    + (* q is not a wanted key *)
      rewrite find_none_ext.
      2: { intros e He. apply path_eqb_false. eapply find_key_none; eauto. }
      destruct (existsb (fun e => is_prefix q (fst e)) Ln) eqn:ExL.
      * apply existsb_exists in ExL. destruct ExL as [e [He Hp]].
        true_existsb sn e. { split; [apply HLn; exact He|exact Hp]. } reflexivity.
      * unfold Kdel_all.
        destruct (existsb (fun b => is_prefix b q) U) eqn:ExU.
        -- apply existsb_exists in ExU. destruct ExU as [u [Hu Hp]]. destruct (HU u Hu) as [e1 [He1 ->]].
           kill_existsb sn; [|reflexivity].
           intros e He Hq'.
           eapply (toks_no_job_last (fst e) (key_of e1)); [apply Tkn; exact He| |reflexivity].
           apply is_prefix_spec in Hp. destruct Hp as [r1 E1]. apply is_prefix_spec in Hq'. destruct Hq' as [r2 E2].
           apply is_prefix_spec. exists (r1 ++ r2). rewrite E2. unfold q in *. rewrite E1. rewrite app_assoc. reflexivity.
        -- destruct (existsb (fun b => is_prefix b q) O) eqn:ExO.
           ++ apply existsb_exists in ExO. destruct ExO as [b [Hb Hp]]. apply HO in Hb. destruct Hb as [_ [_ Hd]].
              kill_existsb sn; [|reflexivity].
              intros e He Hq'.
              assert (any_prefix b (map key_of sn) = true); [|congruence].
              apply any_prefix_key. exists e. split; [exact He|].
              apply is_prefix_spec in Hp. destruct Hp as [r1 E1]. apply is_prefix_spec in Hq'. destruct Hq' as [r2 E2].
              apply is_prefix_spec. exists (r1 ++ r2 ++ [s_job]). unfold key_of. rewrite E2. unfold q in *. rewrite E1.
              rewrite <- !app_assoc. reflexivity.
           ++ (* untouched by the removal phases *)
              assert (Hnotdead : ~ dead_set so sn q).
              { intro Hd. apply HO in Hd.
                assert (existsb (fun b => is_prefix b q) O = true); [|congruence].
                apply existsb_exists. exists q. split; [exact Hd|apply is_prefix_refl]. }
              rewrite (vk_placed P cwd so q Hq).
              destruct (find (fun e => path_eqb q (key_of e)) so) as [eo|] eqn:Fo.
              ** exfalso. apply find_key_some in Fo. destruct Fo as [Heo Eqo]. apply Hnotdead.
                 split; [exact Hq|]. split.
                 --- apply any_prefix_key. exists eo. split; [exact Heo|rewrite Eqo; apply is_prefix_refl].
                 --- apply not_true_is_false. intro Hp. apply any_prefix_key in Hp. destruct Hp as [e [He Hp]].
                     rewrite Eqo in Hp. unfold key_of in Hp. apply key_prefix_eq in Hp; [|apply Tkn; exact He].
                     eapply (find_key_none sn q e); eauto. rewrite Eqo. unfold key_of. rewrite Hp. reflexivity.
              ** destruct (existsb (fun e => is_prefix q (fst e)) so) eqn:Exo.
                 --- apply existsb_exists in Exo. destruct Exo as [eo [Heo Hpo]].
                     destruct (existsb (fun e => is_prefix q (fst e)) sn) eqn:Exn; [reflexivity|].
                     exfalso. apply Hnotdead. split; [exact Hq|]. split.
                     +++ apply any_prefix_key. exists eo. split; [exact Heo|].
                         apply is_prefix_spec in Hpo. destruct Hpo as [r E]. apply is_prefix_spec. exists (r ++ [s_job]).
                         unfold key_of. rewrite E, <- app_assoc. reflexivity.
                     +++ apply not_true_is_false. intro Hp. apply any_prefix_key in Hp. destruct Hp as [e [He Hp]].
                         destruct (prefix_of_key_cases _ _ Hp) as [E|Pr].
                         *** eapply (find_key_none sn q e); eauto.
                         *** assert (existsb (fun e => is_prefix q (fst e)) sn = true); [|congruence].
                             apply existsb_exists. eauto.
                 --- destruct (existsb (fun e => is_prefix q (fst e)) sn) eqn:Exn; [|reflexivity].
                     exfalso. apply existsb_exists in Exn. destruct Exn as [e [He Hp]].
                     assert (Hdec : In e Ln \/ ~ In e Ln).
                     { destruct (path_mem (fst e) (map fst Ln)) eqn:M.
                       - left. apply path_mem_In in M. apply in_map_iff in M. destruct M as [e' [E' He']].
                         rewrite <- (same_fst_entry _ sn e' e); auto.
                       - right. intro HeL. apply path_mem_false in M. apply M. apply in_map. exact HeL. }
                     destruct Hdec as [HeL|HeL].
                     +++ assert (existsb (fun e => is_prefix q (fst e)) Ln = true); [|congruence].
                         apply existsb_exists. eauto.
                     +++ assert (existsb (fun e => is_prefix q (fst e)) so = true); [|congruence].
                         apply existsb_exists. exists e. split; [apply Hkept; auto|exact Hp].
Qed.

(* ------------------------------------------------------------------ the three lists of _analyze_view *)
Definition dead_of (w : node) (cwd prefix : path) (lk : links) : list path :=
  filter (fun b => negb (is_nil b)) (find_dead_branches (analysis_tree (existing_of w cwd prefix) (keys_of lk)) []).

Definition keep_of (w : node) (cwd prefix : path) (lk : links) : list path :=
  filter (fun e => path_mem e (keys_of lk)) (existing_of w cwd prefix).

Definition stale (w : node) (cwd prefix : path) (lk : links) (p : path) : bool :=
  match alookup (join_sep p) lk with
  | Some tgt => negb (path_eqb (realpath w cwd (pjoin prefix p)) tgt)
  | None => false
  end.

Lemma analyze_view_eq : forall hint w cwd prefix lk,
  analyze_view hint w cwd prefix lk =
  {| a_obsolete := remove_first [s_dot] (sort_len_desc (order_by hint (dead_of w cwd prefix lk)));
     a_update := order_by hint (filter (stale w cwd prefix lk) (keep_of w cwd prefix lk));
     a_new := order_by hint (filter (fun k => negb (path_mem k (keep_of w cwd prefix lk))) (keys_of lk)) |}.
Proof. reflexivity. Qed.

Lemma update_view_phases : forall hint s cwd prefix lk,
  update_view hint s cwd prefix lk =
  let a := analyze_view hint (fst s) cwd prefix lk in
  match remove_obsolete s cwd prefix (a_obsolete a) with
  | (s1, Some e) => fail s1 e
  | (s1, None) =>
      match unlink_all s1 cwd prefix (a_update a) with
      | (s2, Some e) => fail s2 e
      | (s2, None) => link_all s2 cwd prefix lk (a_new a ++ a_update a)
      end
  end.
Proof.
  intros. unfold update_view. cbv zeta.
  destruct (a_obsolete (analyze_view hint (fst s) cwd prefix lk)) as [|o os] eqn:E1; [|reflexivity].
  destruct (a_update (analyze_view hint (fst s) cwd prefix lk)) as [|u us] eqn:E2; [|reflexivity].
  destruct (a_new (analyze_view hint (fst s) cwd prefix lk)) as [|x xs] eqn:E3; reflexivity.
Qed.

Lemma NoDup_rev_pnodup : forall l, NoDup (rev (pnodup (rev l))).
Proof. intro l. apply NoDup_rev. apply pnodup_NoDup. Qed.

Section Main.
Variable P : path.
Hypothesis P_ne : P <> [].
Hypothesis P_plain : Forall plain P.
Variables (so sn : spec) (hint : list path) (w : node) (cwd : path).
Hypothesis Gso : good_spec so.
Hypothesis Gsn : good_spec sn.
Hypothesis Hw : nwf w.
Hypothesis I : Inv P w true (map (placed P cwd) so).
Hypothesis Hres : forall e, In e so -> realpath w cwd (pjoin (A P) (key_of e)) = snd e.

Let cur := map (placed P cwd) so.
Let K0 : kfun := vk true cur.
Let lk := lk_of sn.
Let ks := map key_of sn.

Lemma m_ks : keys_of lk = ks.
Proof. apply keys_of_lk. destruct Gsn; auto. Qed.

Lemma m_ex : forall x, In x (existing_of w cwd (A P)) <-> In x (map key_of so).
Proof. apply (existing_of_inv P P_ne P_plain w cwd so Gso Hw I). Qed.

Lemma m_St : St P w K0.
Proof. split; [exact (inv_parent _ _ _ _ I)|exact (inv_kinds _ _ _ _ I)]. Qed.

Lemma m_toks : toks cur.
Proof. exact (inv_tok _ _ _ _ I). Qed.

Lemma m_ndcur : NoDup (map fst cur).
Proof. unfold cur. rewrite map_map. destruct Gso; auto. Qed.

(* the obsolete list *)
Lemma m_dead : forall b, In b (dead_of w cwd (A P) lk) <-> dead_set so sn b.
Proof.
  intro b. unfold dead_of. rewrite filter_In, analysis_dead, m_ks. unfold dead_set. split.
  - intros [[H1 H2] H3]. destruct b as [|x b']; [discriminate|]. split; [discriminate|]. split; [|exact H2].
    simpl in H1. unfold any_prefix in *. apply existsb_exists in H1. destruct H1 as [y [Hy Hp]].
    apply existsb_exists. exists y. split; [apply m_ex; exact Hy|exact Hp].
  - intros [H1 [H2 H3]]. split; [split; [|exact H3]|destruct b; [congruence|reflexivity]].
    destruct b as [|x b']; [congruence|]. simpl.
    unfold any_prefix in *. apply existsb_exists in H2. destruct H2 as [y [Hy Hp]].
    apply existsb_exists. exists y. split; [apply m_ex; exact Hy|exact Hp].
Qed.

Definition O := a_obsolete (analyze_view hint w cwd (A P) lk).
Definition U := a_update (analyze_view hint w cwd (A P) lk).
Definition Nw := a_new (analyze_view hint w cwd (A P) lk).

Lemma m_dot_not_dead : ~ In [s_dot] (sort_len_desc (order_by hint (dead_of w cwd (A P) lk))).
Proof.
  intro H. apply sort_len_In, order_by_In, m_dead in H. destruct H as [_ [H _]].
  apply any_prefix_key in H. destruct H as [e [He Hp]].
  destruct Gso as [_ Tk]. specialize (Tk e He).
  unfold key_of in Hp. destruct (fst e) as [|c T].
  - simpl in Hp. discriminate.
  - simpl in Hp. apply andb_true_iff in Hp. destruct Hp as [Hp _]. apply str_eqb_eq in Hp. subst c.
    inversion Tk as [|? ? [[Hs _] _] _]; subst. discriminate.
Qed.

Lemma m_O : (forall b, In b O <-> dead_set so sn b) /\ NoDup O /\ StronglySorted Rlen O.
Proof.
  unfold O. rewrite analyze_view_eq. simpl a_obsolete. rewrite remove_first_notin by exact m_dot_not_dead.
  split; [|split].
  - intro b. rewrite sort_len_In, order_by_In. apply m_dead.
  - apply sort_len_NoDup, order_by_NoDup. unfold dead_of. apply NoDup_filter. apply analysis_dead_NoDup.
  - apply sort_len_sorted.
Qed.

Lemma m_keep : forall x, In x (keep_of w cwd (A P) lk) <-> In x (map key_of so) /\ In x ks.
Proof. intro x. unfold keep_of. rewrite filter_In, m_ex, m_ks, path_mem_In. reflexivity. Qed.

Lemma m_keep_nodup : NoDup (keep_of w cwd (A P) lk).
Proof. unfold keep_of. apply NoDup_filter. apply NoDup_rev_pnodup. Qed.

Lemma m_ks_nodup : NoDup ks.
Proof.
  destruct Gsn as [Nd _]. unfold ks. clear - Nd. induction sn as [|e sp IH]; simpl; [constructor|].
  inversion Nd as [|? ? Hn1 Hn2]; subst. constructor; auto.
  intro Hin. apply in_map_iff in Hin. destruct Hin as [e' [E He']].
  apply Hn1. rewrite <- (key_of_inj _ _ E). apply in_map. exact He'.
Qed.

Lemma m_U : (forall x, In x U <-> In x (map key_of so) /\ In x ks /\ stale w cwd (A P) lk x = true) /\ NoDup U.
Proof.
  unfold U. rewrite analyze_view_eq. simpl a_update. split.
  - intro x. rewrite order_by_In, filter_In, m_keep. tauto.
  - apply order_by_NoDup, NoDup_filter, m_keep_nodup.
Qed.

Lemma m_N : (forall x, In x Nw <-> In x ks /\ ~ In x (map key_of so)) /\ NoDup Nw.
Proof.
  unfold Nw. rewrite analyze_view_eq. simpl a_new. split.
  - intro x. rewrite order_by_In, filter_In, m_ks, negb_true_iff, path_mem_false, m_keep. tauto.
  - apply order_by_NoDup, NoDup_filter. rewrite m_ks. exact m_ks_nodup.
Qed.

Lemma m_in_cur : forall e, In e so -> In (placed P cwd e) cur.
Proof. intros e He. unfold cur. apply in_map. exact He. Qed.

Lemma m_tok_so : forall e, In e so -> Forall tok (fst e).
Proof. destruct Gso as [_ H]. exact H. Qed.
Lemma m_tok_sn : forall e, In e sn -> Forall tok (fst e).
Proof. destruct Gsn as [_ H]. exact H. Qed.

Lemma m_K0_prefix_dir : forall e q, In e so -> is_prefix q (fst e) = true -> K0 q = Some KDir.
Proof.
  intros e q He Hp. unfold K0. apply (vk_prefix_dir cur (placed P cwd e) q m_toks (m_in_cur e He)). exact Hp.
Qed.

Lemma m_K0_key : forall e, In e so -> K0 (key_of e) = Some (KLnk (snd (placed P cwd e))).
Proof.
  intros e He. unfold K0, key_of. apply (vk_key_value cur (placed P cwd e) m_ndcur (m_in_cur e He)).
Qed.

Lemma m_dead_prefix : forall b, In b O -> exists e, In e so /\ is_prefix b (key_of e) = true.
Proof.
  intros b Hb. apply (proj1 m_O) in Hb. destruct Hb as [_ [H _]]. apply any_prefix_key in H. exact H.
Qed.

Lemma m_dead_not_wanted : forall b x, In b O -> In x ks -> is_prefix b x = false.
Proof.
  intros b x Hb Hx. apply (proj1 m_O) in Hb. destruct Hb as [_ [_ H]].
  apply not_true_is_false. intro Hp. unfold any_prefix in H.
  assert (existsb (is_prefix b) (map key_of sn) = true); [|congruence].
  apply existsb_exists. exists x. split; [exact Hx|exact Hp].
Qed.

Lemma is_prefix_trans : forall a b c : path, is_prefix a b = true -> is_prefix b c = true -> is_prefix a c = true.
Proof.
  intros a b c H1 H2. apply is_prefix_spec in H1. destruct H1 as [r1 ->]. apply is_prefix_spec in H2. destruct H2 as [r2 ->].
  apply is_prefix_spec. exists (r1 ++ r2). rewrite app_assoc. reflexivity.
Qed.

(* phase 1 *)
Lemma m_phase1 : forall n,
  exists w1 k1, remove_obsolete (w, n) cwd (A P) O = ok (w1, (n + k1)%N) /\
                St P w1 (Kdel_all K0 O) /\ frame P w w1.
Proof.
  intro n. destruct m_O as [HO [NdO SoO]].
  apply (remove_allK P P_ne P_plain O w K0 n cwd m_St NdO SoO).
  - intros b Hb. destruct (m_dead_prefix b Hb) as [e [He Hp]]. split.
    + apply HO in Hb. destruct Hb; assumption.
    + eapply prefix_plain; [apply key_plain, m_tok_so, He|exact Hp].
  - intros b Hb b0 b1 E Hb1. destruct (m_dead_prefix b Hb) as [e [He Hp]].
    assert (Hp0 : is_prefix b0 (key_of e) = true).
    { eapply is_prefix_trans; [|exact Hp]. apply is_prefix_spec. eauto. }
    destruct (prefix_of_key_cases _ _ Hp0) as [E0|Pr]; [|apply (m_K0_prefix_dir e b0 He Pr)].
    exfalso. apply is_prefix_length in Hp. rewrite E, app_length in Hp.
    assert (length b0 = length (key_of e)) by (unfold key_of; rewrite E0; reflexivity).
    destruct b1; [congruence|simpl in Hp; lia].
  - intros b Hb. destruct (m_dead_prefix b Hb) as [e [He Hp]].
    destruct (prefix_of_key_cases _ _ Hp) as [E0|Pr].
    + left. exists (snd (placed P cwd e)). rewrite E0. apply (m_K0_key e He).
    + right. split; [apply (m_K0_prefix_dir e b He Pr)|].
      intro c. destruct (K0 (b ++ [c])) eqn:Kc; [right|left; reflexivity].
      apply HO. split; [destruct b; discriminate|]. split.
      * destruct (vk_some_prefix cur (b ++ [c])) as [e' [He' Hp']]; [destruct b; discriminate|unfold K0 in Kc; congruence|].
        unfold cur in He'. apply in_map_iff in He'. destruct He' as [e2 [<- He2]]. simpl in Hp'.
        apply any_prefix_key. exists e2. auto.
      * apply not_true_is_false. intro Hn. apply any_prefix_key in Hn. destruct Hn as [e' [He' Hp']].
        assert (is_prefix b (key_of e') = true) by (eapply is_prefix_trans; [apply is_prefix_app|exact Hp']).
        rewrite (m_dead_not_wanted b (key_of e') Hb) in H; [discriminate|]. unfold ks. apply in_map. exact He'.
Qed.

Definition K1 : kfun := Kdel_all K0 O.

Lemma m_K1_eq : forall q x, In x ks -> is_prefix q x = true -> K1 q = K0 q.
Proof.
  intros q x Hx Hp. unfold K1, Kdel_all.
  rewrite existsb_false_intro; [reflexivity|].
  intros b Hb Hpb. assert (H : is_prefix b x = true) by (eapply is_prefix_trans; eauto).
  rewrite (m_dead_not_wanted b x Hb Hx) in H. discriminate.
Qed.

Lemma m_U_key : forall u, In u U -> exists eo, In eo so /\ u = key_of eo.
Proof.
  intros u Hu. apply (proj1 m_U) in Hu. destruct Hu as [H _]. apply in_map_iff in H.
  destruct H as [eo [E He]]. eauto.
Qed.

(* phase 2 *)
Lemma m_phase2 : forall w1 n1, St P w1 K1 ->
  exists w2 k2, unlink_all (w1, n1) cwd (A P) U = ok (w2, (n1 + k2)%N) /\
                St P w2 (Kdel_all K1 U) /\ frame P w1 w2.
Proof.
  intros w1 n1 S1. destruct m_U as [HU NdU].
  apply (unlink_allK P P_ne P_plain U w1 K1 n1 cwd S1 NdU).
  - intros u u' Hu Hu' Hp. destruct (m_U_key u Hu) as [e [He ->]]. destruct (m_U_key u' Hu') as [e' [He' ->]].
    unfold key_of in *. apply key_prefix_eq in Hp; [|apply m_tok_so; exact He']. rewrite Hp. reflexivity.
  - intros u Hu. destruct (m_U_key u Hu) as [e [He ->]]. split; [apply key_ne|apply key_plain, m_tok_so, He].
  - intros u Hu b0 b1 E Hb1. destruct (m_U_key u Hu) as [e [He Eu]].
    assert (Hks : In u ks) by (apply HU in Hu; tauto).
    rewrite (m_K1_eq b0 u Hks) by (apply is_prefix_spec; eauto).
    assert (Hp0 : is_prefix b0 (key_of e) = true) by (rewrite <- Eu; apply is_prefix_spec; eauto).
    destruct (prefix_of_key_cases _ _ Hp0) as [E0|Pr]; [|apply (m_K0_prefix_dir e b0 He Pr)].
    exfalso. assert (length b0 = length u) by (rewrite Eu; unfold key_of; rewrite E0; reflexivity).
    rewrite E, app_length in H. destruct b1; [congruence|simpl in H; lia].
  - intros u Hu. destruct (m_U_key u Hu) as [e [He Eu]].
    assert (Hks : In u ks) by (apply HU in Hu; tauto).
    rewrite (m_K1_eq u u Hks (is_prefix_refl u)). rewrite Eu. eexists. apply (m_K0_key e He).
Qed.

Definition K2 : kfun := Kdel_all K1 U.

Lemma m_K2_weak : forall q, K2 q = None \/ K2 q = K0 q.
Proof.
  intro q. unfold K2, K1, Kdel_all. destruct (existsb _ U); [left; reflexivity|].
  destruct (existsb _ O); [left; reflexivity|right; reflexivity].
Qed.

Lemma m_NU_nodup : NoDup (Nw ++ U).
Proof.
  destruct m_N as [HN NdN]. destruct m_U as [HU NdU].
  apply NoDup_app_disj; auto. intros x Hx Hx'. apply HN in Hx. apply HU in Hx'. tauto.
Qed.

Lemma m_entries : exists Ln, map key_of Ln = Nw ++ U /\ (forall e, In e Ln -> In e sn) /\ NoDup (map fst Ln).
Proof.
  apply entries_for; [exact m_NU_nodup|].
  intros k Hk. apply in_app_or in Hk. destruct Hk as [Hk|Hk].
  - apply (proj1 m_N) in Hk. tauto.
  - apply (proj1 m_U) in Hk. tauto.
Qed.

Lemma m_stale_false : forall e, In e sn -> stale w cwd (A P) lk (key_of e) = false ->
  realpath w cwd (pjoin (A P) (key_of e)) = snd e.
Proof.
  intros e He H. unfold stale in H. unfold lk in H. rewrite (lk_lookup sn e Gsn He) in H.
  apply negb_false_iff in H. apply path_eqb_eq in H. exact H.
Qed.

Lemma m_kept : forall Ln, map key_of Ln = Nw ++ U -> (forall e, In e Ln -> In e sn) ->
  forall e, In e sn -> ~ In e Ln -> In e so.
Proof.
  intros Ln EL HL e He HnL.
  assert (Hk : In (key_of e) ks) by (unfold ks; apply in_map; exact He).
  assert (Hnot : ~ In (key_of e) (Nw ++ U)).
  { intro Hin. rewrite <- EL in Hin. apply in_map_iff in Hin. destruct Hin as [e' [E He']].
    apply HnL. rewrite <- (same_fst_entry _ sn e' e); auto; [destruct Gsn; auto|apply key_of_inj; exact E]. }
  destruct (path_mem (key_of e) (map key_of so)) eqn:M.
  - apply path_mem_In in M. apply in_map_iff in M. destruct M as [eo [Eo Heo]].
    destruct (stale w cwd (A P) lk (key_of e)) eqn:Sx.
    + exfalso. apply Hnot. apply in_or_app. right. apply (proj1 m_U). split; [|split; auto].
      rewrite <- Eo. apply in_map. exact Heo.
    + apply (m_stale_false e He) in Sx. rewrite <- Eo in Sx. rewrite (Hres eo Heo) in Sx.
      assert (eo = e); [|subst; exact Heo].
      apply key_of_inj in Eo. destruct eo, e. simpl in *. congruence.
  - exfalso. apply path_mem_false in M. apply Hnot. apply in_or_app. left. apply (proj1 m_N). auto.
Qed.

(* the whole update *)
Theorem incremental_exact_aux : forall n,
  exists w' k,
    update_view hint (w, n) cwd (A P) lk = ok (w', (n + k)%N) /\
    (forall q, kind_at w' (P ++ q) = vk true (map (placed P cwd) sn) q) /\ frame P w w'.
Proof.
  intro n. rewrite update_view_phases. cbv zeta. simpl fst. fold O U Nw.
  destruct (m_phase1 n) as [w1 [k1 [R1 [S1 F1]]]]. rewrite R1. unfold ok at 1.
  destruct (m_phase2 w1 (n + k1)%N S1) as [w2 [k2 [R2 [S2 F2]]]]. rewrite R2. unfold ok at 1.
  destruct m_entries as [Ln [EL [HL NdL]]]. rewrite <- EL.
  destruct (link_allK P P_ne P_plain Ln w2 K2 (n + k1 + k2)%N cwd lk S2) as [w3 [k3 [R3 [S3 F3]]]].
  - intros e He. apply m_tok_sn, HL, He.
  - exact NdL.
  - intros e q He Hq. destruct (m_K2_weak q) as [-> | ->]; [right; reflexivity|].
    unfold K0. apply (vk_dir_or_none true cur q (fst e)); [apply m_tok_sn, HL, He|exact Hq].
  - intros e He.
    assert (Hin : In (key_of e) (Nw ++ U)) by (rewrite <- EL; apply in_map; exact He).
    apply in_app_or in Hin. destruct Hin as [Hin|Hin].
    + destruct (m_K2_weak (key_of e)) as [-> | ->]; [reflexivity|].
      unfold K0, key_of. apply vk_free; [apply m_tok_sn, HL, He|exact m_toks|].
      intro Hc. apply (proj1 m_N) in Hin. destruct Hin as [_ Hin]. apply Hin.
      unfold cur in Hc. rewrite map_map in Hc. simpl in Hc. apply in_map_iff in Hc. destruct Hc as [eo [E Heo]].
      apply in_map_iff. exists eo. split; [unfold key_of; rewrite E; reflexivity|exact Heo].
    + unfold K2, Kdel_all. true_existsb U (key_of e). { split; [exact Hin|apply is_prefix_refl]. } reflexivity.
  - intros e He. apply (lk_lookup sn e Gsn). apply HL. exact He.
  - exists w3, (k1 + k2 + k3)%N. split; [rewrite R3; f_equal; f_equal; lia|]. split.
    + intro q. destruct S3 as [_ S3]. rewrite S3. unfold K2, K1, K0, cur.
      apply (final_kinds P cwd so sn O U Ln Gso Gsn (proj1 m_O) HL NdL).
      * intros u Hu. assert (Hin : In u (map key_of Ln)) by (rewrite EL; apply in_or_app; right; exact Hu).
        apply in_map_iff in Hin. destruct Hin as [e [E He]]. eauto.
      * apply (m_kept Ln EL HL).
    + eapply frame_trans; [|exact F3]. eapply frame_trans; eauto.
Qed.
End Main.

(* view_exact / view_incremental_eq_scratch on plain views without a root link *)
Theorem incremental_exact : forall P (so sn : spec) hint w n cwd,
  P <> [] -> Forall plain P -> good_spec so -> good_spec sn -> nwf w ->
  Inv P w true (map (placed P cwd) so) ->
  (forall e, In e so -> realpath w cwd (pjoin (A P) (key_of e)) = snd e) ->
  exists w' k,
    update_view hint (w, n) cwd (A P) (lk_of sn) = ok (w', (n + k)%N) /\
    (forall q, kind_at w' (P ++ q) = vk true (map (placed P cwd) sn) q) /\
    (forall r, is_prefix P r = false -> kind_at w' r = kind_at w r).
Proof.
  intros P so sn hint w n cwd H1 H2 H3 H4 H7 H8 H9.
  apply (incremental_exact_aux P H1 H2 so sn hint w cwd); assumption.
Qed.

(* incremental = from scratch: the two resulting views have the same kind at every path below the
   prefix (the prefix directory itself is kept, empty, when nothing is selected) *)
Theorem incremental_eq_scratch : forall P (so sn : spec) hint hint' w ws n n' cwd,
  P <> [] -> Forall plain P -> good_spec so -> good_spec sn -> nwf w ->
  Inv P w true (map (placed P cwd) so) ->
  (forall e, In e so -> realpath w cwd (pjoin (A P) (key_of e)) = snd e) ->
  dirs_to ws (removelast P) -> get ws P = None ->
  exists wi ki wsc ksc,
    update_view hint (w, n) cwd (A P) (lk_of sn) = ok (wi, (n + ki)%N) /\
    update_view hint' (ws, n') cwd (A P) (lk_of sn) = ok (wsc, (n' + ksc)%N) /\
    forall q, q <> [] \/ sn <> [] -> kind_at wi (P ++ q) = kind_at wsc (P ++ q).
Proof.
  intros P so sn hint hint' w ws n n' cwd H1 H2 H3 H4 H7 H8 H9 Hd Hg.
  destruct (incremental_exact P so sn hint w n cwd H1 H2 H3 H4 H7 H8 H9) as [wi [ki [Ri [Ki _]]]].
  destruct (from_scratch_exact P sn hint' ws n' cwd H1 H2 H4 Hd Hg) as [wsc [ksc [Rs [_ [Ks _]]]]].
  exists wi, ki, wsc, ksc. split; [exact Ri|]. split; [exact Rs|].
  intros q Hq. rewrite Ki, Ks. destruct q as [|x q']; [|reflexivity].
  destruct Hq as [Hq|Hq]; [congruence|]. destruct sn; [congruence|reflexivity].
Qed.
