(* C05Proofs.v — lemmas for C05 (documents are faithful persistent dicts; buffering transparent). *)
From SV Require Import Base Json Canon Doc CorrC05.

(* ------------------------------------------------------------------ association lists keyed by N *)
Section NA.
  Context {A : Type}.
  Lemma nlookup_nset_same : forall k (v : A) l, nlookup k (nset k v l) = Some v.
  Proof.
    induction l as [|[k' v'] l IH]; simpl.
    - rewrite N.eqb_refl. reflexivity.
    - destruct (N.eqb k k') eqn:E; simpl; rewrite E; auto.
  Qed.
  Lemma nlookup_nset_other : forall k k' (v : A) l, k <> k' -> nlookup k' (nset k v l) = nlookup k' l.
  Proof.
    induction l as [|[k2 v2] l IH]; simpl; intro Hne.
    - assert (E : N.eqb k' k = false) by (apply N.eqb_neq; auto). rewrite E. reflexivity.
    - destruct (N.eqb k k2) eqn:E; simpl.
      + apply N.eqb_eq in E. subst k2. assert (E2 : N.eqb k' k = false) by (apply N.eqb_neq; auto). rewrite E2. reflexivity.
      + destruct (N.eqb k' k2); auto.
  Qed.
  Lemma nlookup_nremove_same : forall k (l : list (N * A)), nlookup k (nremove k l) = None.
  Proof.
    induction l as [|[k' v'] l IH]; simpl; auto.
    destruct (N.eqb k k') eqn:E; simpl; auto. rewrite E. auto.
  Qed.
  Lemma nlookup_nremove_other : forall k k' (l : list (N * A)), k <> k' -> nlookup k' (nremove k l) = nlookup k' l.
  Proof.
    induction l as [|[k2 v2] l IH]; simpl; intro Hne; auto.
    destruct (N.eqb k k2) eqn:E; simpl.
    - apply N.eqb_eq in E. subst k2. assert (E2 : N.eqb k' k = false) by (apply N.eqb_neq; auto). rewrite E2. auto.
    - destruct (N.eqb k' k2); auto.
  Qed.
End NA.

Ltac nsimp :=
  repeat first
    [ rewrite nlookup_nset_same
    | rewrite nlookup_nremove_same
    | rewrite nlookup_nset_other by (auto; congruence)
    | rewrite nlookup_nremove_other by (auto; congruence) ].

Ltac nsimp_in H :=
  repeat first
    [ rewrite nlookup_nset_same in H
    | rewrite nlookup_nremove_same in H
    | rewrite nlookup_nset_other in H by (auto; congruence)
    | rewrite nlookup_nremove_other in H by (auto; congruence) ].

(* ------------------------------------------------------------------ merge *)
Lemma json_eqb_refl : forall a, json_eqb a a = true.
Proof. intro a. apply json_eqb_eq. reflexivity. Qed.

Lemma merge_same : forall m, merge m m = m.
Proof. intro m. unfold merge. rewrite json_eqb_refl. reflexivity. Qed.

Definition is_obj (v : json) : Prop := exists kvs, v = JObj kvs.

Lemma merge_obj_obj : forall a b, is_obj a -> is_obj b -> is_obj (merge a b).
Proof.
  intros a b [o ->] [n ->]. unfold merge. destruct (json_eqb (JObj o) (JObj n)); [eexists; reflexivity|].
  simpl. destruct (_ && _); eexists; reflexivity.
Qed.

Lemma filter_all : forall A (f : A -> bool) l, (forall x, In x l -> f x = true) -> filter f l = l.
Proof.
  induction l as [|x l IH]; simpl; intro H; auto. rewrite (H x) by auto. f_equal. apply IH. auto.
Qed.

(* a collection that holds nothing takes over whatever the file holds *)
Lemma merge_empty : forall n, merge empty_obj (JObj n) = JObj n.
Proof.
  intro n. unfold merge, empty_obj. destruct (json_eqb (JObj []) (JObj n)) eqn:E.
  - apply json_eqb_eq in E. exact E.
  - simpl. destruct n as [|kv n]; [reflexivity|]. simpl. f_equal.
    apply (filter_all _ (fun kv0 => negb (amem (fst kv0) [])) (kv :: n)). intros x _. reflexivity.
Qed.

(* ------------------------------------------------------------------ the simulation invariant *)
(* in sync with the file: loading would change nothing; a collection whose file does not exist is empty *)
Definition insync (m : json) (fo : option json) : Prop :=
  match fo with
  | None => m = empty_obj
  | Some v => merge m v = v /\ is_obj v
  end.

Definition fileB (B : cstate) f := nlookup f (files B).

Definition hinv (B U : cstate) (f : N) (m : json) : Prop :=
  is_obj m /\
  match nlookup f (buf B) with
  | None =>
      (nlookup f (files B) = nlookup f (files U) /\ insync m (nlookup f (files U)))
      \/ (nlookup f (files B) = None /\ nlookup f (files U) = Some m /\ m = empty_obj)
  | Some e =>
      b_contents e = m /\
      ((nlookup f (files B) = None /\ (b_hash e = JNull \/ b_hash e = empty_obj))
       \/ nlookup f (files B) = Some (b_hash e)) /\
      ((b_hash e = m /\ (nlookup f (files U) = Some m
                         \/ (nlookup f (files U) = None /\ nlookup f (files B) = None)))
       \/ nlookup f (files U) = Some m)
  end.

Record Inv0 (B U : cstate) : Prop := {
  i_depthU : depth U = 0%nat;
  i_mems : forall h, nlookup h (mems B) = nlookup h (mems U);
  i_inj : forall h h' f m m', nlookup h (mems B) = Some (f, m) -> nlookup h' (mems B) = Some (f, m') -> h = h';
  i_h : forall h f m, nlookup h (mems B) = Some (f, m) -> hinv B U f m;
  i_free : forall f, (forall h m, nlookup h (mems B) <> Some (f, m)) -> nlookup f (files B) = nlookup f (files U);
  i_reg : forall f e, nlookup f (buf B) = Some e -> exists h m, In h (reg B) /\ nlookup h (mems B) = Some (f, m)
}.

Definition Inv (B U : cstate) : Prop :=
  Inv0 B U /\ (depth B = 0%nat -> forall f, nlookup f (buf B) = None).

(* hinv only looks at the file f in files/buf *)
Lemma hinv_frame : forall B U B' U' f m,
  nlookup f (buf B') = nlookup f (buf B) -> nlookup f (files B') = nlookup f (files B) ->
  nlookup f (files U') = nlookup f (files U) -> hinv B U f m -> hinv B' U' f m.
Proof. intros B U B' U' f m H1 H2 H3 H. unfold hinv in *. rewrite H1, H2, H3. exact H. Qed.
