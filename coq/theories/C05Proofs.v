(* C05Proofs.v — lemmas for C05 (documents are faithful persistent dicts; buffering transparent). *)
From SV Require Import Base Json Canon Doc CorrC05.

Lemma merge_null_container_example :
  merge (JObj [([99%N], JObj [])]) (JObj [([99%N], JNull)]) = JObj [([99%N], JObj [])].
Proof. reflexivity. Qed.
