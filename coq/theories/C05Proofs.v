(* C05Proofs.v — lemmas for C05 (documents are faithful persistent dicts; buffering transparent). *)
From SV Require Import Base Json Canon Doc CorrC05.

(* ------------------------------------------------------------------ association lists keyed by N *)
Section NA.
  Context {A : Type}.
  Lemma nlookup_nset_same : forall k (v : A) l, nlookup k (nset k v l) = Some v.
  Proof.
    induction l as [|[k' v'] l IH]; simpl.
    - rewrite N.eqb_refl. reflexivity.
    - destruct (N.eqb k k') eqn:E; simpl; rewrite E; auto.
  Qed.
  Lemma nlookup_nset_other : forall k k' (v : A) l, k <> k' -> nlookup k' (nset k v l) = nlookup k' l.
  Proof.
    induction l as [|[k2 v2] l IH]; simpl; intro Hne.
    - assert (E : N.eqb k' k = false) by (apply N.eqb_neq; auto). rewrite E. reflexivity.
    - destruct (N.eqb k k2) eqn:E; simpl.
      + apply N.eqb_eq in E. subst k2. assert (E2 : N.eqb k' k = false) by (apply N.eqb_neq; auto). rewrite E2. reflexivity.
      + destruct (N.eqb k' k2); auto.
  Qed.
  Lemma nlookup_nremove_same : forall k (l : list (N * A)), nlookup k (nremove k l) = None.
  Proof.
    induction l as [|[k' v'] l IH]; simpl; auto.
    destruct (N.eqb k k') eqn:E; simpl; auto. rewrite E. auto.
  Qed.
  Lemma nlookup_nremove_other : forall k k' (l : list (N * A)), k <> k' -> nlookup k' (nremove k l) = nlookup k' l.
  Proof.
    induction l as [|[k2 v2] l IH]; simpl; intro Hne; auto.
    destruct (N.eqb k k2) eqn:E; simpl.
    - apply N.eqb_eq in E. subst k2. assert (E2 : N.eqb k' k = false) by (apply N.eqb_neq; auto). rewrite E2. auto.
    - destruct (N.eqb k' k2); auto.
  Qed.
End NA.

Ltac nsimp :=
  repeat first
    [ rewrite nlookup_nset_same
    | rewrite nlookup_nremove_same
    | rewrite nlookup_nset_other by (auto; congruence)
    | rewrite nlookup_nremove_other by (auto; congruence) ].

Ltac nsimp_in H :=
  repeat first
    [ rewrite nlookup_nset_same in H
    | rewrite nlookup_nremove_same in H
    | rewrite nlookup_nset_other in H by (auto; congruence)
    | rewrite nlookup_nremove_other in H by (auto; congruence) ].

(* ------------------------------------------------------------------ merge *)
Lemma json_eqb_refl : forall a, json_eqb a a = true.
Proof. intro a. apply json_eqb_eq. reflexivity. Qed.

Lemma merge_same : forall m, merge m m = m.
Proof. intro m. unfold merge. rewrite json_eqb_refl. reflexivity. Qed.

Definition is_obj (v : json) : Prop := exists kvs, v = JObj kvs.

Lemma merge_obj_obj : forall a b, is_obj a -> is_obj b -> is_obj (merge a b).
Proof.
  intros a b [o ->] [n ->]. unfold merge. destruct (json_eqb (JObj o) (JObj n)); [eexists; reflexivity|].
  simpl. destruct (_ && _); eexists; reflexivity.
Qed.

Lemma filter_all : forall A (f : A -> bool) l, (forall x, In x l -> f x = true) -> filter f l = l.
Proof.
  induction l as [|x l IH]; simpl; intro H; auto. rewrite (H x) by auto. f_equal. apply IH. auto.
Qed.

(* a collection that holds nothing takes over whatever the file holds *)
Lemma merge_empty : forall n, merge empty_obj (JObj n) = JObj n.
Proof.
  intro n. unfold merge, empty_obj. destruct (json_eqb (JObj []) (JObj n)) eqn:E.
  - apply json_eqb_eq in E. exact E.
  - simpl. destruct n as [|kv n]; [reflexivity|]. simpl. f_equal.
    apply (filter_all _ (fun kv0 : str * json => negb (@amem json (fst kv0) [])) (kv :: n)). intros x _. reflexivity.
Qed.

(* ------------------------------------------------------------------ the simulation invariant *)
(* in sync with the file: loading would change nothing; a collection whose file does not exist is empty *)
Definition insync (m : json) (fo : option json) : Prop :=
  match fo with
  | None => m = empty_obj
  | Some v => merge m v = v /\ is_obj v
  end.

Definition fileB (B : cstate) f := nlookup f (files B).

Definition hinv (B U : cstate) (f : N) (m : json) : Prop :=
  is_obj m /\
  match nlookup f (buf B) with
  | None =>
      (nlookup f (files B) = nlookup f (files U) /\ insync m (nlookup f (files U)))
      \/ (nlookup f (files B) = None /\ nlookup f (files U) = Some m /\ m = empty_obj)
  | Some e =>
      b_contents e = m /\
      ((nlookup f (files B) = None /\ (b_hash e = JNull \/ b_hash e = empty_obj))
       \/ nlookup f (files B) = Some (b_hash e)) /\
      ((b_hash e = m /\ (nlookup f (files U) = Some m
                         \/ (nlookup f (files U) = None /\ nlookup f (files B) = None)))
       \/ nlookup f (files U) = Some m)
  end.

Record Inv0 (B U : cstate) : Prop := {
  i_depthU : depth U = 0%nat;
  i_mems : forall h, nlookup h (mems B) = nlookup h (mems U);
  i_inj : forall h h' f m m', nlookup h (mems B) = Some (f, m) -> nlookup h' (mems B) = Some (f, m') -> h = h';
  i_h : forall h f m, nlookup h (mems B) = Some (f, m) -> hinv B U f m;
  i_free : forall f, (forall h m, nlookup h (mems B) <> Some (f, m)) -> nlookup f (files B) = nlookup f (files U);
  i_reg : forall f e, nlookup f (buf B) = Some e -> exists h m, In h (reg B) /\ nlookup h (mems B) = Some (f, m)
}.

Definition Inv (B U : cstate) : Prop :=
  Inv0 B U /\ (depth B = 0%nat -> forall f, nlookup f (buf B) = None).

(* hinv only looks at the file f in files/buf *)
Lemma hinv_frame : forall B U B' U' f m,
  nlookup f (buf B') = nlookup f (buf B) -> nlookup f (files B') = nlookup f (files B) ->
  nlookup f (files U') = nlookup f (files U) -> hinv B U f m -> hinv B' U' f m.
Proof. intros B U B' U' f m H1 H2 H3 H. unfold hinv in *. rewrite H1, H2, H3. exact H. Qed.

Section Sim.
  Variable frepr : fl -> str.
  Notation flush_one := (flush_one merge).
  Notation flush_all := (flush_all merge).
  Notation check_capacity := (check_capacity frepr merge).
  Notation set_capacity := (set_capacity frepr merge).
  Notation load := (load frepr merge).
  Notation save := (save frepr merge).
  Notation cop := (cop frepr merge).
  Notation cstep := (cstep frepr merge).
  Notation crun := (crun frepr merge).

  Lemma nset_lookup_id : forall (mm : list (N * (N * json))) h v x,
    nlookup h mm = Some v -> nlookup x (nset h v mm) = nlookup x mm.
  Proof.
    intros mm h v x H. destruct (N.eq_dec h x) as [->|Hne]; nsimp; auto.
  Qed.

  Lemma flush_one_noop : forall B h,
    (nlookup h (mems B) = None \/ exists f m, nlookup h (mems B) = Some (f, m) /\ nlookup f (buf B) = None) ->
    flush_one B h = B.
  Proof.
    intros B h [H|(f & m & H1 & H2)]; unfold Doc.flush_one; [rewrite H|rewrite H1, H2]; reflexivity.
  Qed.

  Lemma flush_one_spec : forall B h f m e,
    nlookup h (mems B) = Some (f, m) -> nlookup f (buf B) = Some e -> b_contents e = m ->
    let B' := flush_one B h in
    (forall x, nlookup x (mems B') = nlookup x (mems B)) /\
    buf B' = nremove f (buf B) /\
    files B' = (if json_eqb m (b_hash e) then files B else nset f m (files B)) /\
    reg B' = reg B /\ depth B' = depth B /\ cap B' = cap B /\ caps B' = caps B.
  Proof.
    intros B h f m e Hm He Hc. cbv zeta. unfold Doc.flush_one. rewrite Hm, He, Hc, merge_same.
    destruct (json_eqb m (b_hash e)); simpl; repeat split; auto.
    intro x. apply nset_lookup_id. exact Hm.
  Qed.

  Lemma is_obj_not_null : forall m, is_obj m -> m <> JNull.
  Proof. intros m [o ->]. discriminate. Qed.

  Lemma flush_one_inv : forall B U h, Inv0 B U -> Inv0 (flush_one B h) U.
  Proof.
    intros B U h I.
    destruct (nlookup h (mems B)) as [[f m]|] eqn:Hm; [|rewrite flush_one_noop; auto].
    destruct (nlookup f (buf B)) as [e|] eqn:He; [|rewrite flush_one_noop; eauto].
    pose proof (i_h B U I h f m Hm) as Hh. unfold hinv in Hh. rewrite He in Hh.
    destruct Hh as (Hobj & Hc & H0 & Hcd).
    destruct (flush_one_spec B h f m e Hm He Hc) as (Sm & Sb & Sf & Sr & Sd & _).
    set (B' := flush_one B h) in *.
    constructor.
    - apply (i_depthU B U I).
    - intro x. rewrite Sm. apply (i_mems B U I).
    - intros x x' f0 m0 m0'. rewrite !Sm. apply (i_inj B U I).
    - intros x f0 m0 Hx. rewrite Sm in Hx.
      destruct (N.eq_dec f0 f) as [->|Hne].
      + assert (x = h) by (eapply (i_inj B U I); eauto). subst x. rewrite Hm in Hx. inversion Hx; subst m0.
        unfold hinv. split; [exact Hobj|]. rewrite Sb, Sf. nsimp.
        destruct (json_eqb m (b_hash e)) eqn:E.
        * apply json_eqb_eq in E.
          destruct H0 as [[Hn Hj]|Hs].
          -- (* no file in B and nothing was written *)
             assert (Hme : m = empty_obj).
             { destruct Hj as [Hj|Hj]; [exfalso; apply (is_obj_not_null m Hobj); congruence|congruence]. }
             destruct Hcd as [[_ [Hu|[Hu _]]]|Hu].
             ++ right. auto.
             ++ left. split; [congruence|]. rewrite Hu. exact Hme.
             ++ right. auto.
          -- rewrite <- E in Hs.
             destruct Hcd as [[_ [Hu|[Hu Hb]]]|Hu].
             ++ left. split; [congruence|]. rewrite Hu. split; [apply merge_same|exact Hobj].
             ++ congruence.
             ++ left. split; [congruence|]. rewrite Hu. split; [apply merge_same|exact Hobj].
        * (* the buffered data is written *)
          nsimp. destruct Hcd as [[Hhm _]|Hu].
          -- exfalso. rewrite Hhm, json_eqb_refl in E. discriminate.
          -- left. split; [congruence|]. rewrite Hu. split; [apply merge_same|exact Hobj].
      + eapply hinv_frame; [| | |apply (i_h B U I x f0 m0 Hx)].
        * rewrite Sb. nsimp. reflexivity.
        * rewrite Sf. destruct (json_eqb m (b_hash e)); nsimp; reflexivity.
        * reflexivity.
    - intros f0 Hf0. rewrite Sf.
      assert (Hne : f0 <> f) by (intro Heq; apply (Hf0 h m); rewrite Sm, Heq; exact Hm).
      destruct (json_eqb m (b_hash e)); nsimp; apply (i_free B U I); intros x mx; rewrite <- Sm; apply Hf0.
    - intros f0 e0 H. rewrite Sb in H. rewrite Sr.
      destruct (N.eq_dec f f0) as [->|Hne]; [rewrite nlookup_nremove_same in H; discriminate|].
      rewrite nlookup_nremove_other in H by exact Hne.
      destruct (i_reg B U I f0 e0 H) as (x & mx & Hin & Hx). exists x, mx. rewrite Sm. auto.
  Qed.

  (* flush_one never creates an entry, and removes the one of its own file *)
  Lemma flush_one_buf : forall B h f0 e0,
    nlookup f0 (buf (flush_one B h)) = Some e0 -> nlookup f0 (buf B) = Some e0.
  Proof.
    intros B h f0 e0 H. unfold Doc.flush_one in H.
    destruct (nlookup h (mems B)) as [[f m]|]; [|exact H].
    destruct (nlookup f (buf B)) as [e|] eqn:He; [|exact H].
    destruct (json_eqb m (b_hash e)); simpl in H.
    - destruct (N.eq_dec f f0) as [->|Hne]; [rewrite nlookup_nremove_same in H; discriminate|].
      rewrite nlookup_nremove_other in H by exact Hne. exact H.
    - destruct (N.eq_dec f f0) as [->|Hne]; [rewrite nlookup_nremove_same in H; discriminate|].
      rewrite nlookup_nremove_other in H by exact Hne. exact H.
  Qed.

  Lemma flush_one_own : forall B h f m,
    nlookup h (mems B) = Some (f, m) -> nlookup f (buf (flush_one B h)) = None.
  Proof.
    intros B h f m Hm. unfold Doc.flush_one. rewrite Hm.
    destruct (nlookup f (buf B)) as [e|] eqn:He; [|exact He].
    destruct (json_eqb m (b_hash e)); simpl; apply nlookup_nremove_same.
  Qed.

  Lemma flush_fold_inv : forall l B U, Inv0 B U -> Inv0 (fold_left flush_one l B) U.
  Proof. induction l as [|h l IH]; intros B U I; simpl; [exact I|]. apply IH. apply flush_one_inv. exact I. Qed.

  Lemma flush_fold_buf : forall l B f0 e0,
    nlookup f0 (buf (fold_left flush_one l B)) = Some e0 -> nlookup f0 (buf B) = Some e0.
  Proof.
    induction l as [|h l IH]; intros B f0 e0 H; simpl in H; [exact H|].
    apply IH in H. eapply flush_one_buf. exact H.
  Qed.

  Lemma flush_fold_mems : forall l B U x, Inv0 B U -> nlookup x (mems (fold_left flush_one l B)) = nlookup x (mems B).
  Proof.
    induction l as [|h l IH]; intros B U x I; simpl; [reflexivity|].
    rewrite (IH _ U x (flush_one_inv B U h I)).
    rewrite (i_mems _ _ (flush_one_inv B U h I)). symmetry. apply (i_mems B U I).
  Qed.

  Lemma flush_fold_clears : forall l B U h f m,
    Inv0 B U -> In h l -> nlookup h (mems B) = Some (f, m) -> nlookup f (buf (fold_left flush_one l B)) = None.
  Proof.
    induction l as [|x l IH]; intros B U h f m I Hin Hm; [contradiction|]. simpl.
    destruct Hin as [->|Hin].
    - destruct (nlookup f (buf (fold_left flush_one l (flush_one B h)))) as [e|] eqn:E; [|reflexivity].
      apply flush_fold_buf in E. rewrite (flush_one_own B h f m Hm) in E. discriminate.
    - apply (IH _ U h f m (flush_one_inv B U x I) Hin).
      rewrite (i_mems _ _ (flush_one_inv B U x I)). rewrite <- (i_mems B U I). exact Hm.
  Qed.

  Lemma with_reg_inv : forall B U r,
    Inv0 B U -> (forall f, nlookup f (buf B) = None) -> Inv0 (with_reg B r) U.
  Proof.
    intros B U r I Hn. constructor; simpl; try apply I.
    intros f e H. rewrite Hn in H. discriminate.
  Qed.

  Lemma flush_all_inv : forall B U, Inv0 B U -> Inv0 (flush_all B) U /\ forall f, nlookup f (buf (flush_all B)) = None.
  Proof.
    intros B U I. unfold Doc.flush_all.
    assert (Hn : forall f, nlookup f (buf (fold_left flush_one (rev (reg B)) B)) = None).
    { intro f. destruct (nlookup f (buf (fold_left flush_one (rev (reg B)) B))) as [e|] eqn:E; [|reflexivity].
      pose proof (flush_fold_buf _ _ _ _ E) as E0.
      destruct (i_reg B U I f e E0) as (h & m & Hin & Hm).
      rewrite (flush_fold_clears (rev (reg B)) B U h f m I) in E; [discriminate| |exact Hm].
      apply in_rev. rewrite rev_involutive. exact Hin. }
    split; [apply with_reg_inv; [apply flush_fold_inv; exact I|exact Hn]|exact Hn].
  Qed.

  (* ---- bookkeeping steps ---- *)
  Lemma flush_one_depth : forall B h, depth (flush_one B h) = depth B.
  Proof.
    intros B h. unfold Doc.flush_one. destruct (nlookup h (mems B)) as [[f m]|]; [|reflexivity].
    destruct (nlookup f (buf B)) as [e|]; [|reflexivity]. destruct (json_eqb m (b_hash e)); reflexivity.
  Qed.

  Lemma flush_fold_depth : forall l B, depth (fold_left flush_one l B) = depth B.
  Proof. induction l as [|h l IH]; intro B; simpl; [reflexivity|]. rewrite IH. apply flush_one_depth. Qed.

  Lemma flush_all_depth : forall B, depth (flush_all B) = depth B.
  Proof. intro B. unfold Doc.flush_all. simpl. apply flush_fold_depth. Qed.

  Lemma flush_all_mems : forall B U x, Inv0 B U -> nlookup x (mems (flush_all B)) = nlookup x (mems B).
  Proof. intros B U x I. unfold Doc.flush_all. simpl. apply (flush_fold_mems _ B U x I). Qed.

  Lemma register_inv : forall B U h, Inv0 B U -> Inv0 (register B h) U.
  Proof.
    intros B U h I. unfold register. destruct (nmem h (reg B)); [exact I|].
    constructor; simpl; try apply I.
    intros f e H. destruct (i_reg B U I f e H) as (x & m & Hin & Hx). exists x, m. split; [apply in_or_app; auto|exact Hx].
  Qed.

  Lemma check_capacity_inv : forall B U, Inv0 B U ->
    Inv0 (check_capacity B) U /\ depth (check_capacity B) = depth B /\
    (forall x, nlookup x (mems (check_capacity B)) = nlookup x (mems B)) /\
    ((forall f, nlookup f (buf B) = None) -> forall f, nlookup f (buf (check_capacity B)) = None).
  Proof.
    intros B U I. unfold Doc.check_capacity. destruct (cap B <? bsize frepr B)%N.
    - destruct (flush_all_inv B U I) as [I' Hn].
      split; [exact I'|]. split; [apply flush_all_depth|]. split; [intro x; apply (flush_all_mems B U x I)|auto].
    - split; [exact I|]. split; [reflexivity|]. split; auto.
  Qed.

  Lemma with_cap_inv : forall B U c, Inv0 B U -> Inv0 (with_cap B c) U.
  Proof. intros B U c I. constructor; simpl; apply I. Qed.
  Lemma with_caps_inv : forall B U c, Inv0 B U -> Inv0 (with_caps B c) U.
  Proof. intros B U c I. constructor; simpl; apply I. Qed.
  Lemma with_depth_inv : forall B U c, Inv0 B U -> Inv0 (with_depth B c) U.
  Proof. intros B U c I. constructor; simpl; apply I. Qed.

  Lemma set_capacity_inv : forall B U c, Inv0 B U ->
    Inv0 (set_capacity B c) U /\ depth (set_capacity B c) = depth B /\
    ((forall f, nlookup f (buf B) = None) -> forall f, nlookup f (buf (set_capacity B c)) = None).
  Proof.
    intros B U c I. unfold Doc.set_capacity. destruct (c <? bsize frepr (with_cap B c))%N.
    - destruct (flush_all_inv (with_cap B c) U (with_cap_inv B U c I)) as [I' Hn].
      split; [exact I'|]. split; [rewrite flush_all_depth; reflexivity|auto].
    - split; [apply with_cap_inv; exact I|]. split; [reflexivity|auto].
  Qed.

  (* writing back the value a collection already holds changes no lookup *)
  Lemma set_mem_id_inv : forall B U h f m,
    Inv0 B U -> nlookup h (mems B) = Some (f, m) -> Inv0 (set_mem B h f m) (set_mem U h f m).
  Proof.
    intros B U h f m I Hm.
    assert (HmU : nlookup h (mems U) = Some (f, m)) by (rewrite <- (i_mems B U I); exact Hm).
    assert (EB : forall x, nlookup x (mems (set_mem B h f m)) = nlookup x (mems B)) by (intro x; apply nset_lookup_id; exact Hm).
    assert (EU : forall x, nlookup x (mems (set_mem U h f m)) = nlookup x (mems U)) by (intro x; apply nset_lookup_id; exact HmU).
    constructor.
    - apply I.
    - intro x. rewrite EB, EU. apply I.
    - intros x x' f0 m0 m0'. rewrite !EB. apply (i_inj B U I).
    - intros x f0 m0 Hx. rewrite EB in Hx. apply (i_h B U I x f0 m0 Hx).
    - intros f0 Hf0. apply (i_free B U I). intros x mx. rewrite <- EB. apply Hf0.
    - intros f0 e0 H. destruct (i_reg B U I f0 e0 H) as (x & mx & Hin & Hx). exists x, mx. rewrite EB. auto.
  Qed.

  (* only collection h (file f) changed *)
  Lemma Inv0_update : forall B U B' U' h f m0 m',
    Inv0 B U -> nlookup h (mems B) = Some (f, m0) ->
    depth U' = 0%nat ->
    (forall x, nlookup x (mems B') = if N.eqb x h then Some (f, m') else nlookup x (mems B)) ->
    (forall x, nlookup x (mems U') = if N.eqb x h then Some (f, m') else nlookup x (mems U)) ->
    (forall f0, f0 <> f -> nlookup f0 (buf B') = nlookup f0 (buf B) /\ nlookup f0 (files B') = nlookup f0 (files B)
                          /\ nlookup f0 (files U') = nlookup f0 (files U)) ->
    hinv B' U' f m' ->
    (forall x, In x (reg B) -> In x (reg B')) ->
    (forall e, nlookup f (buf B') = Some e -> In h (reg B')) ->
    Inv0 B' U'.
  Proof.
    intros B U B' U' h f m0 m' I Hm HdU EB EU Hfr Hh Hreg Hregf.
    assert (Hfile : forall x f0 m1, nlookup x (mems B') = Some (f0, m1) ->
              (x = h /\ f0 = f /\ m1 = m') \/ (x <> h /\ nlookup x (mems B) = Some (f0, m1) /\ f0 <> f)).
    { intros x f0 m1 Hx. rewrite EB in Hx. destruct (N.eqb x h) eqn:E.
      - apply N.eqb_eq in E. inversion Hx. auto.
      - apply N.eqb_neq in E. right. split; [exact E|]. split; [exact Hx|].
        intro; subst f0. apply E. eapply (i_inj B U I); eauto. }
    constructor.
    - exact HdU.
    - intro x. rewrite EB, EU. destruct (N.eqb x h); [reflexivity|apply I].
    - intros x x' f0 m1 m1' Hx Hx'.
      destruct (Hfile _ _ _ Hx) as [(-> & -> & _)|(Hn & Hb & Hf)]; destruct (Hfile _ _ _ Hx') as [(-> & Hf' & _)|(Hn' & Hb' & Hf')]; auto; try congruence.
      eapply (i_inj B U I); eauto.
    - intros x f0 m1 Hx. destruct (Hfile _ _ _ Hx) as [(-> & -> & ->)|(Hn & Hb & Hf)]; [exact Hh|].
      destruct (Hfr f0 Hf) as (F1 & F2 & F3).
      eapply hinv_frame; [exact F1|exact F2|exact F3|apply (i_h B U I x f0 m1 Hb)].
    - intros f0 Hf0.
      assert (Hne : f0 <> f).
      { intro; subst f0. apply (Hf0 h m'). rewrite EB, N.eqb_refl. reflexivity. }
      destruct (Hfr f0 Hne) as (_ & F2 & F3). rewrite F2, F3. apply (i_free B U I).
      intros x mx Hx. apply (Hf0 x mx). rewrite EB. destruct (N.eqb x h) eqn:E; [|exact Hx].
      apply N.eqb_eq in E. subst x. rewrite Hm in Hx. inversion Hx. congruence.
    - intros f0 e0 H. destruct (N.eq_dec f0 f) as [->|Hne].
      + exists h, m'. split; [apply (Hregf e0 H)|]. rewrite EB, N.eqb_refl. reflexivity.
      + destruct (Hfr f0 Hne) as (F1 & _ & _). rewrite F1 in H.
        destruct (i_reg B U I f0 e0 H) as (x & mx & Hin & Hx). exists x, mx. split; [apply Hreg; exact Hin|].
        rewrite EB. destruct (N.eqb x h) eqn:E; [|exact Hx].
        apply N.eqb_eq in E. subst x. rewrite Hm in Hx. inversion Hx. congruence.
  Qed.

  Lemma set_mem_lookup : forall st h f m x,
    nlookup x (mems (set_mem st h f m)) = if N.eqb x h then Some (f, m) else nlookup x (mems st).
  Proof.
    intros st h f m x. unfold set_mem. simpl. destruct (N.eqb x h) eqn:E.
    - apply N.eqb_eq in E. subst. apply nlookup_nset_same.
    - apply N.eqb_neq in E. apply nlookup_nset_other. auto.
  Qed.

  Lemma in_register : forall st h, In h (reg (register st h)).
  Proof.
    intros st h. unfold register. destruct (nmem h (reg st)) eqn:E.
    - unfold nmem in E. apply existsb_exists in E. destruct E as (x & Hx & E). apply N.eqb_eq in E. subst. exact Hx.
    - simpl. apply in_or_app. right. left. reflexivity.
  Qed.

  Lemma register_mono : forall st h x, In x (reg st) -> In x (reg (register st h)).
  Proof. intros st h x H. unfold register. destruct (nmem h (reg st)); [exact H|]. simpl. apply in_or_app. auto. Qed.

  (* what an unbuffered load does, on both sides *)
  Lemma hinv_noentry_load : forall B U f m,
    hinv B U f m -> nlookup f (buf B) = None ->
    let m' := merge_opt merge m (nlookup f (files B)) in
    merge_opt merge m (nlookup f (files U)) = m' /\ is_obj m' /\
    (forall v, nlookup f (files U) = Some v -> v = m') /\
    ((nlookup f (files B) = nlookup f (files U) /\ insync m' (nlookup f (files U)))
     \/ (nlookup f (files B) = None /\ nlookup f (files U) = Some m' /\ m' = empty_obj)).
  Proof.
    intros B U f m [Hobj Hh] Hb. rewrite Hb in Hh. cbv zeta.
    destruct Hh as [[Hf Hs]|(Hfb & Hfu & He)].
    - rewrite Hf. split; [reflexivity|]. destruct (nlookup f (files U)) as [v|] eqn:Ev; simpl in *.
      + destruct Hs as [Hmv Hov]. rewrite Hmv. split; [exact Hov|]. split; [intros v0 E0; inversion E0; reflexivity|].
        left. split; [reflexivity|]. split; [apply merge_same|exact Hov].
      + split; [exact Hobj|]. split; [discriminate|]. left. auto.
    - rewrite Hfb, Hfu. simpl. rewrite merge_same. split; [reflexivity|]. split; [exact Hobj|].
      split; [intros v0 E0; inversion E0; reflexivity|]. right. auto.
  Qed.

  Lemma load_sim : forall B U h f m,
    Inv B U -> nlookup h (mems B) = Some (f, m) ->
    let '(B', mB) := load B h f m in
    let '(U', mU) := load U h f m in
    mB = mU /\ Inv B' U' /\ nlookup h (mems B') = Some (f, mB) /\ depth B' = depth B /\ is_obj mB.
  Proof.
    intros B U h f m [I Hd0] Hm.
    pose proof (i_h B U I h f m Hm) as Hh.
    unfold Doc.load. rewrite (i_depthU B U I).
    destruct (depth B) as [|d] eqn:Ed.
    - (* outside any block *)
      specialize (Hd0 eq_refl).
      destruct (hinv_noentry_load B U f m Hh (Hd0 f)) as (Em & Hobj & _ & Hst).
      split; [symmetry; exact Em|]. rewrite Em. split; [|split; [rewrite set_mem_lookup, N.eqb_refl; reflexivity|split; [simpl; exact Ed|exact Hobj]]].
      split.
      + apply (Inv0_update B U _ _ h f m (merge_opt merge m (nlookup f (files B))) I Hm).
        * apply (i_depthU B U I).
        * intro x. apply set_mem_lookup.
        * intro x. apply set_mem_lookup.
        * intros f0 _. simpl. auto.
        * unfold hinv. simpl. rewrite (Hd0 f). split; [exact Hobj|exact Hst].
        * auto.
        * intros e He. simpl in He. rewrite (Hd0 f) in He. discriminate.
      + intros _ f0. simpl. apply Hd0.
    - (* inside a block: through the buffer *)
      unfold Doc.load_buffered.
      destruct (nlookup f (buf B)) as [e|] eqn:He.
      + (* the file is in the buffer *)
        unfold hinv in Hh. rewrite He in Hh. destruct Hh as (Hobj & Hc & H0 & Hcd).
        pose proof (register_inv B U h I) as I2.
        assert (He2 : nlookup f (buf (register B h)) = Some e).
        { unfold register. destruct (nmem h (reg B)); exact He. }
        rewrite He2.
        destruct (check_capacity_inv _ U I2) as (I3 & D3 & M3 & _).
        assert (Hm3 : nlookup h (mems (check_capacity (register B h))) = Some (f, m)).
        { rewrite M3. unfold register. destruct (nmem h (reg B)); exact Hm. }
        rewrite Hm3, Hc, merge_same.
        assert (EmU : merge_opt merge m (nlookup f (files U)) = m).
        { destruct Hcd as [[_ [Hu|[Hu _]]]|Hu]; rewrite Hu; simpl; try apply merge_same; reflexivity. }
        rewrite EmU. split; [reflexivity|]. split; [|split; [rewrite set_mem_lookup, N.eqb_refl; reflexivity|split; [|exact Hobj]]].
        * split; [apply set_mem_id_inv; assumption|]. simpl. rewrite D3. unfold register. destruct (nmem h (reg B)); simpl; rewrite Ed; discriminate.
        * simpl. rewrite D3. unfold register. destruct (nmem h (reg B)); simpl; exact Ed.
      + (* first access in this block: the entry is created from the file *)
        destruct (hinv_noentry_load B U f m Hh He) as (Em & Hobj & Hv & Hst).
        set (m1 := merge_opt merge m (nlookup f (files B))) in *.
        set (B1 := with_buf (set_mem B h f m1) (nset f {| b_contents := m1; b_hash := m1 |} (buf B))).
        set (U1 := set_mem U h f m1).
        assert (I2 : Inv0 (register B1 h) U1).
        { apply (Inv0_update B U _ _ h f m m1 I Hm).
          - apply (i_depthU B U I).
          - intro x. unfold register. destruct (nmem h (reg B1)); apply set_mem_lookup.
          - intro x. apply set_mem_lookup.
          - intros f0 Hne. unfold register. destruct (nmem h (reg B1)); simpl; nsimp; auto.
          - unfold hinv. split; [exact Hobj|].
            assert (Eb : nlookup f (buf (register B1 h)) = Some {| b_contents := m1; b_hash := m1 |}).
            { unfold register. destruct (nmem h (reg B1)); simpl; apply nlookup_nset_same. }
            rewrite Eb. simpl.
            assert (Ef : nlookup f (files (register B1 h)) = nlookup f (files B)).
            { unfold register. destruct (nmem h (reg B1)); reflexivity. }
            rewrite Ef. split; [reflexivity|].
            destruct Hst as [[Hf Hs]|(Hfb & Hfu & Hem)].
            + destruct (nlookup f (files U)) as [v|] eqn:Ev.
              * pose proof (Hv v eq_refl) as Evm. subst v.
                split; [right; exact Hf|]. left. split; [reflexivity|left; reflexivity].
              * simpl in Hs. split; [left; split; [exact Hf|right; exact Hs]|]. left. split; [reflexivity|right; auto].
            + split; [left; split; [exact Hfb|right; exact Hem]|]. left. split; [reflexivity|left; exact Hfu].
          - intros x Hx. apply register_mono. exact Hx.
          - intros e0 _. apply in_register. }
        assert (Eb2 : nlookup f (buf (register B1 h)) = Some {| b_contents := m1; b_hash := m1 |}).
        { unfold register. destruct (nmem h (reg B1)); simpl; apply nlookup_nset_same. }
        rewrite Eb2. simpl b_contents.
        destruct (check_capacity_inv _ U1 I2) as (I3 & D3 & M3 & _).
        assert (Hm3 : nlookup h (mems (check_capacity (register B1 h))) = Some (f, m1)).
        { rewrite M3. unfold register. destruct (nmem h (reg B1)); unfold B1; simpl; apply nlookup_nset_same. }
        rewrite Hm3, merge_same. rewrite Em.
        split; [reflexivity|]. split; [|split; [rewrite set_mem_lookup, N.eqb_refl; reflexivity|split; [|exact Hobj]]].
        * split.
          -- (* U1 already holds m1 for h: one more identical write *)
             pose proof (set_mem_id_inv _ U1 h f m1 I3 Hm3) as I4.
             assert (EU : forall x, nlookup x (mems (set_mem U1 h f m1)) = nlookup x (mems (set_mem U h f m1))).
             { intro x. unfold U1. rewrite !set_mem_lookup. destruct (N.eqb x h); reflexivity. }
             constructor; try apply I4.
             intro x. rewrite (i_mems _ _ I4 x). apply EU.
          -- simpl. rewrite D3. unfold register. destruct (nmem h (reg B1)); simpl; rewrite Ed; discriminate.
        * simpl. rewrite D3. unfold register. destruct (nmem h (reg B1)); simpl; exact Ed.
  Qed.
